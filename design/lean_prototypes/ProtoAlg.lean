import Mathlib.Tactic

/-! Design-round prototypes: algebra behind the C01 antiderivatives, C14 cubic positivity,
C08 cross-product covariance, C12 chunk slicing. -/

/-- the value identity left after differentiating `_distance_integral` (shallow branch):
`s = √α`, `g = √γ`, `n' = a (n − n0)` -/
theorem dist_alg (n n0 β s g a : ℝ) (hs : s^2 = n0^2 - β^2) (hg : g^2 = n^2 - β^2)
    (hspos : 0 < s) (hgpos : 0 < g) (hL : n0*n - β^2 - s*g ≠ 0) (ha : a ≠ 0) :
    β / s * (-1 + (n0 * (a*(n - n0)) - (s^2 * (2*n*(a*(n-n0)))) / (2*(s*g))) / (n0*n - β^2 - s*g) / a)
      = β / g := by
  have hs' : s ≠ 0 := ne_of_gt hspos
  have hg' : g ≠ 0 := ne_of_gt hgpos
  field_simp
  linear_combination (β*g) * hs + (β*s) * hg

/-- CTW charged-current neutrino row: `2 c₃ L³ + c₂ L² − c₄ > 0` for `L > 0` -/
theorem cubic_pos_cc_nu (L : ℝ) (hL : 0 < L) :
    0 < 2 * (1.431:ℝ) * L^3 + (-6.406) * L^2 - (-17.91) := by
  nlinarith [mul_nonneg (sq_nonneg (L - 1.4922)) hL.le, sq_nonneg (L - 1.4922), hL]

/-- first component of `(Ra) × (Rb) = R (a × b)` given the cofactor form of `R ∈ SO(3)` -/
theorem cross_rot
    (r11 r12 r13 r21 r22 r23 r31 r32 r33 a1 a2 a3 b1 b2 b3 : ℝ)
    (c11 : r11 = r22*r33 - r23*r32) (c12 : r12 = r23*r31 - r21*r33) (c13 : r13 = r21*r32 - r22*r31) :
    (r21*a1 + r22*a2 + r23*a3) * (r31*b1 + r32*b2 + r33*b3)
      - (r31*a1 + r32*a2 + r33*a3) * (r21*b1 + r22*b2 + r23*b3)
    = r11 * (a2*b3 - a3*b2) + r12 * (a3*b1 - a1*b3) + r13 * (a1*b2 - a2*b1) := by
  rw [c11, c12, c13]; ring

/-- rows of one event cut out of a loaded block equal the rows cut out of the table (F8 semantics) -/
theorem block_slice {α} (rows : List α) (bs be s len : Nat)
    (h1 : bs ≤ s) (h2 : s + len ≤ be) :
    (((rows.drop bs).take (be - bs)).drop (s - bs)).take len = (rows.drop s).take len := by
  rw [List.drop_take, List.drop_drop, List.take_take]
  have : bs + (s - bs) = s := by omega
  rw [this]
  congr 1
  omega
