import Mathlib.Analysis.Fourier.ZMod
import Mathlib.Tactic

/-! Design-round prototype (C05): Parseval, shift theorem and delay filter for `ZMod.dft`. -/
open Finset AddChar ZMod
open scoped ZMod ComplexConjugate

variable {N : ℕ} [NeZero N]

lemma char_sum (t : ZMod N) : ∑ i : ZMod N, (stdAddChar (t * i) : ℂ) = if t = 0 then (N : ℂ) else 0 := by
  split_ifs with h
  · simp [h]
  · exact AddChar.sum_eq_zero_of_ne_one (isPrimitive_stdAddChar N h)

lemma conj_stdAddChar (x : ZMod N) : conj (stdAddChar x : ℂ) = stdAddChar (-x) := by
  rw [AddChar.map_neg_eq_inv]
  have h : ‖(stdAddChar x : ℂ)‖ = 1 := by
    simpa using (ZMod.stdAddChar (N := N)).norm_apply x
  exact (Complex.inv_eq_conj h).symm

theorem parsevalC (Φ : ZMod N → ℂ) :
    ∑ k, 𝓕 Φ k * conj (𝓕 Φ k) = N * ∑ j, Φ j * conj (Φ j) := by
  simp only [dft_apply, smul_eq_mul, map_sum, map_mul, conj_stdAddChar, Finset.sum_mul, Finset.mul_sum]
  rw [Finset.sum_comm]
  refine Finset.sum_congr rfl fun j _ => ?_
  rw [Finset.sum_comm]
  have : ∀ l k : ZMod N, (stdAddChar (-(l * k)) : ℂ) * Φ l * (stdAddChar (-(-(j * k))) * conj (Φ j))
      = (Φ l * conj (Φ j)) * stdAddChar ((j - l) * k) := by
    intro l k
    rw [show (j - l) * k = -(l*k) + -(-(j*k)) by ring, AddChar.map_add_eq_mul]
    ring
  simp only [this, ← Finset.mul_sum, char_sum, sub_eq_zero]
  simp [Finset.sum_ite_eq, mul_comm]

theorem dft_shift (Φ : ZMod N → ℂ) (d : ZMod N) :
    𝓕 (fun j => Φ (j - d)) = fun k => (stdAddChar (-(d * k)) : ℂ) * 𝓕 Φ k := by
  ext k
  simp only [dft_apply, smul_eq_mul, Finset.mul_sum]
  refine Fintype.sum_equiv (Equiv.subRight d) _ _ fun j => ?_
  simp only [Equiv.subRight_apply]
  rw [← mul_assoc, ← AddChar.map_add_eq_mul]
  congr 2
  ring

theorem delay_filter (Φ : ZMod N → ℂ) (d : ZMod N) :
    𝓕⁻ (fun k => (stdAddChar (-(d * k)) : ℂ) * 𝓕 Φ k) = fun j => Φ (j - d) := by
  rw [LinearEquiv.symm_apply_eq, dft_shift]
