import shim, warnings; warnings.filterwarnings('ignore')
import numpy as np, os, tempfile
import pyrex
from pyrex.particle import Particle, Event
from pyrex.io import File
def mkevent(k, n=1):
    ps=[]
    for j in range(n):
        p = Particle("nu_e", vertex=(k, j, -1000), direction=(0,0,1), energy=1e8, interaction_type="cc"); p.survival_weight=.5; p.interaction_weight=.25; ps.append(p)
    return Event(ps)
d = tempfile.mkdtemp(dir="/tmp/scratch")
for name, trigs in [("TFF",[True,False,False]), ("FFT",[False,False,True]), ("FFF",[False,False,False]), ("FTF",[False,True,False])]:
    fn = os.path.join(d, name+".h5")
    with File(fn, 'w', write_particles=True, write_triggers=True, write_rays=False, require_trigger=['particles','triggers']) as w:
        for k,t in enumerate(trigs): w.add(mkevent(k), triggered=t)
    try:
        with File(fn,'r') as f:
            print(name, "len", len(f), [ (ev.get_particle_info("vertex")[:, 0].tolist() if len(ev.get_particle_info("vertex")) else []) for ev in f])
    except Exception as e:
        print(name, "FAIL", type(e).__name__, e)
