import shim, warnings; warnings.filterwarnings('ignore')
import numpy as np
import pyrex
from pyrex.signals import Signal
from pyrex.antenna import Antenna
from pyrex.detector import Detector, CombinedDetector, AntennaSystem
class Str(Detector):
    def set_positions(self, x, y, n=2):
        for i in range(n): self.antenna_positions.append((x, y, -10.0*(i+1)))
class Stn(Detector):
    def set_positions(self, x, y, m=2):
        for j in range(m): self.subsets.append(Str(x+10*j, y))
    def triggered(self, thresh=1, require_mc_truth=False):
        return sum(a.is_hit for a in self)>=thresh
class Grid(Detector):
    def set_positions(self, k=2):
        for j in range(k): self.subsets.append(Stn(100*j, 0))
def ids(d): return [tuple(a.position) for a in d]
a = Str(0,0); a.build_antennas(Antenna, noisy=False)
b = Stn(50,0); b.build_antennas(Antenna, noisy=False)
c = Grid(); c.build_antennas(Antenna, noisy=False)
lone = Antenna((7,7,-7), noisy=False); lst=[Antenna((8,8,-8), noisy=False), Antenna((9,9,-9), noisy=False)]
print("len", len(a), len(b), len(c), "iter==getitem", ids(c)==[tuple(c[i].position) for i in range(len(c))])
x = (a+b)+c; y = a+(b+c); z = sum([a,b,c]); w = a+b; w += c
print("assoc", ids(x)==ids(y)==ids(z)==ids(w), len(x))
m1 = (a+lone)+lst; m2 = a+(lone+0 if False else lone); 
try:
    m3 = lone + a
    print("antenna + detector ok", ids(m3)[:2])
except Exception as e: print("antenna+det FAIL", type(e).__name__, e)
try:
    m4 = lst + a
    print("list + detector ok", len(m4))
except Exception as e: print("list+det FAIL", type(e).__name__, e)
print("mixed", len(m1), ids(m1)==ids(a)+[tuple(lone.position)]+[tuple(t.position) for t in lst])
# trigger & kwargs
comb = a + b
print("trig none", comb.triggered(), comb.triggered(thresh=1))
b[1].receive(Signal([0,1e-9],[1,1],Signal.Type.voltage))
print("trig after hit", comb.triggered(), comb.triggered(thresh=2), comb.triggered(require_mc_truth=True))
try: print(comb.triggered(bogus=1))
except Exception as e: print("bogus kw ->", type(e).__name__, e)
comb.clear(); print("cleared", [len(t.signals) for t in comb])
# above surface
try:
    Str.test_antenna_positions=True
    class Bad(Detector):
        def set_positions(self): self.antenna_positions.append((0,0,5.0))
    Bad(); print("above surface accepted!")
except ValueError as e: print("above surface rejected")
try:
    a + Antenna((0,0,3.0), noisy=False); print("combined above surface accepted!")
except ValueError: print("combined above surface rejected")
