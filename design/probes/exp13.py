import warnings; warnings.filterwarnings('ignore')
import numpy as np, os, tempfile
import pyrex
from pyrex.particle import Particle, Event
from pyrex.antenna import Antenna
from pyrex.io import File
def mkevent(k, n=1):
    ps=[]
    for j in range(n):
        p = Particle("nu_e", vertex=(k, j, -1000), direction=(0,0,1), energy=1e8, interaction_type="cc"); p.survival_weight=.5; p.interaction_weight=.25; ps.append(p)
    return Event(ps)
class FakePath:
    def __init__(s,k): s.k=k
    @property
    def _metadata(s): return {"tof": float(s.k)}
d = tempfile.mkdtemp(dir="/tmp/scratch"); fn=os.path.join(d,"x.h5")
with File(fn,'w', write_rays=True, require_trigger=False) as w:
    w.set_detector([Antenna((0,0,-100), noisy=False)])
    w.add(mkevent(0), triggered=True, ray_paths=[[FakePath(0)]], polarizations=[[(0,0,1)]])
    try: w.add(mkevent(1,2), triggered=True, ray_paths=[[FakePath(1)]], polarizations=[[]])
    except ValueError as e: print("rejected")
with File(fn,'r') as f:
    print("len", len(f), [ev.get_particle_info("vertex")[:, :2].tolist() for ev in f])
