import warnings; warnings.filterwarnings('ignore')
import numpy as np
import pyrex
from pyrex.ray_tracing import *
from pyrex.ice_model import *
ice=UniformIce(1.5, valid_range=(-500,0), index_above=1, index_below=1.2)
rt=UniformRayTracer((0,0,-100),(50,0,-200),ice)
print("static:", rt._static_attrs)
print(len(rt.solutions)); rt.max_reflections=2; print("after set max_reflections=2:", len(rt.solutions))
fresh=UniformRayTracer((0,0,-100),(50,0,-200),ice); fresh.max_reflections=2; print("fresh:", len(fresh.solutions))
rt2=SpecializedRayTracer((0,0,-500),(300,0,-100),AntarcticIce())
p=rt2.solutions[0]; L0=p.path_length; p.uniformity_factor=0.9; print("path static", p._static_attrs, "L before/after uf change", L0, p.path_length)
q=SpecializedRayTracer((0,0,-500),(300,0,-100),AntarcticIce()).solutions[0]; q.uniformity_factor=0.9; print("fresh with uf=0.9", q.path_length)
