import warnings; warnings.filterwarnings('ignore')
import numpy as np, random
import pyrex
from pyrex.ray_tracing import *
from pyrex.ice_model import *
from pyrex.custom.layered_ice import LayeredIce, LayeredRayTracer
rng=random.Random(1)
class U2(UniformRayTracer): max_reflections=2
uice=UniformIce(1.55, valid_range=(-800,0), index_above=1.0, index_below=1.3)
lice=LayeredIce([UniformIce(1.4, valid_range=(-150,0), index_above=1), AntarcticIce(valid_range=(-2850,-150), index_above=None)])
cases=[("spec",SpecializedRayTracer,AntarcticIce()),("basic",BasicRayTracer,GreenlandIce()),("uni",U2,uice),("lay",LayeredRayTracer,lice)]
def Rz(a): c,s=np.cos(a),np.sin(a); return np.array([[c,-s,0],[s,c,0],[0,0,1]])
bad=0
f=np.array([2e8,6e8])
for name,cls,ice in cases:
    for trial in range(6 if name!="lay" else 3):
        A=np.array([rng.uniform(-50,50),rng.uniform(-50,50),rng.uniform(-700,-160)]); B=np.array([rng.uniform(100,600),rng.uniform(-200,200),rng.uniform(-140,-10)])
        base=cls(A,B,ice).solutions
        ang=rng.uniform(0,2*np.pi); T=np.array([rng.uniform(-1e5,1e5),rng.uniform(-1e5,1e5),0]); R=Rz(ang)
        mov=cls(R@A+T,R@B+T,ice).solutions
        swp=cls(B,A,ice).solutions
        ok=len(base)==len(mov)==len(swp)
        if ok:
            for p,q,r in zip(base,mov,swp):
                tol=dict(rtol=1e-7,atol=1e-7)
                ok&=np.isclose(p.path_length,q.path_length,**tol) and np.isclose(p.tof,q.tof,rtol=1e-7) and np.allclose(R@p.emitted_direction,q.emitted_direction,atol=1e-6) and np.allclose(R@p.received_direction,q.received_direction,atol=1e-6)
                ok&=np.allclose(p.attenuation(f),q.attenuation(f),rtol=1e-6)
                ok&=np.isclose(p.path_length,r.path_length,**tol) and np.isclose(p.tof,r.tof,rtol=1e-7) and np.allclose(p.emitted_direction,-r.received_direction,atol=1e-6) and np.allclose(p.received_direction,-r.emitted_direction,atol=1e-6)
                ok&=np.allclose(p.attenuation(f),r.attenuation(f),rtol=1e-6)
        if not ok:
            bad+=1; print("FAIL",name,A,B,len(base),len(mov),len(swp))
            for p,q,r in zip(base,mov,swp): print("   ",p.path_length,q.path_length,r.path_length,p.tof,q.tof,r.tof, p.emitted_direction, r.received_direction)
print("bad",bad)
