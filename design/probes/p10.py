import warnings; warnings.filterwarnings('ignore')
import numpy as np, random
import pyrex
from pyrex.signals import *
rng = random.Random(11)
def arrays_of(s):
    out=[('times',s.times)]
    if isinstance(s,FunctionSignal):
        out+= [('_t0s',s._t0s),('_buffers',s._buffers),('_factors',s._factors),('_filters',s._filters),('_functions',s._functions)]
        for i,b in enumerate(s._buffers): out.append(('_buffers[%d]'%i,b))
        for i,b in enumerate(s._filters): out.append(('_filters[%d]'%i,b))
    else:
        out.append(('values',s.values))
    return out
def shares(a,b):
    if isinstance(a,np.ndarray) and isinstance(b,np.ndarray): return np.shares_memory(a,b)
    return a is b
def mk(kind,times):
    if kind==0: return Signal(times, rng.sample(range(10),len(times)), rng.choice([None,'voltage','field']))
    if kind==1: return EmptySignal(times, rng.choice([None,'voltage']))
    if kind==2: return FunctionSignal(times, np.cos, rng.choice([None,'voltage']))
    return GaussianNoise(times, 1.0)
bad=0
for trial in range(400):
    times=np.arange(5)*1.0
    pool=[mk(rng.randrange(4),times) for _ in range(3)]
    ext=[np.linspace(0,4,9), np.arange(5)*1.0+1]
    for step in range(8):
        op=rng.choice(['copy','add','mul','rmul','div','with_times','radd0','sum'])
        a=rng.choice(pool); b=rng.choice(pool)
        try:
            if op=='copy': r=a.copy(); parents=[a]
            elif op=='add': r=a+b; parents=[a,b]
            elif op=='mul': r=a*2; parents=[a]
            elif op=='rmul': r=0.5*a; parents=[a]
            elif op=='div': r=a/2; parents=[a]
            elif op=='with_times':
                e=rng.choice(ext); r=a.with_times(e); parents=[a]
                if shares(r.times,e): bad+=1; print("ALIAS arg", type(a).__name__, op)
            elif op=='radd0': r=0+a; parents=[]; 
            elif op=='sum': r=sum([a,b]); parents=[a,b]
        except ValueError: continue
        if op=='radd0': assert r is a; continue
        for p in parents:
            if r is p: bad+=1; print("SAME OBJECT", op, type(a).__name__, type(b).__name__)
            else:
                for n1,x in arrays_of(r):
                    for n2,y in arrays_of(p):
                        if n1=='_functions' or n2=='_functions': continue
                        if shares(x,y): bad+=1; print("ALIAS", op, type(r).__name__, n1, type(p).__name__, n2)
        pool[rng.randrange(3)]=r
print("bad",bad)
