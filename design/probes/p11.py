import warnings; warnings.filterwarnings('ignore')
import numpy as np, random
import pyrex
from pyrex.signals import *
from pyrex.ice_model import *
from pyrex.ray_tracing import *
from pyrex.custom.layered_ice import LayeredIce, LayeredRayTracer
rng=random.Random(3)
full = AntarcticIce()
def split(zb):
    return LayeredIce([AntarcticIce(valid_range=(zb,0), index_above=1), AntarcticIce(valid_range=(-2850,zb), index_above=None)])
for trial in range(8):
    A=(rng.uniform(-50,50), rng.uniform(-50,50), rng.uniform(-600,-150)); B=(A[0]+rng.uniform(50,400), A[1]+rng.uniform(-100,100), rng.uniform(-140,-20))
    zb = rng.uniform(B[2]-5, A[2]+5) if rng.random()<0.7 else rng.uniform(-1000,-700)
    un = SpecializedRayTracer(A,B,full)
    class L1(LayeredRayTracer): max_reflections=1
    la = L1(A,B,split(zb))
    try:
        us = [(p.path_length,p.tof) for p in un.solutions]
        ls = [(p.path_length,p.tof,tuple(np.round(np.abs(p.fresnel),6)), len(p.paths)) for p in la.solutions]
        print("zb %.1f"%zb, "unsplit", np.round(us,4).tolist())
        print("        layered", [ (round(a,4), round(b*1,12), c, d) for a,b,c,d in ls])
    except Exception as e:
        print("EXC", type(e).__name__, e)
