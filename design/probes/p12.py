import warnings; warnings.filterwarnings('ignore')
import numpy as np, os, tempfile, random
import pyrex
from pyrex.particle import Particle, Event
from pyrex.io import File
from pyrex.generation import FileGenerator
rng=random.Random(21)
def mkevent(k, n):
    ps=[]
    for j in range(n):
        p = Particle(rng.choice(["nu_e","nu_mu_bar","nu_tau"]), vertex=(k, j, -1000.5), direction=(0.6,0,0.8), energy=1e8+k, interaction_type=rng.choice(["cc","nc"])); p.survival_weight=.5+0.01*k; p.interaction_weight=.25; ps.append(p)
    return Event(ps)
d=tempfile.mkdtemp(dir="/tmp/scratch")
def sig(ev): return [(p.id.value, tuple(p.vertex), tuple(np.round(p.direction,12)), p.energy, p.interaction.kind.value, p.interaction.inelasticity, p.interaction.em_frac, p.interaction.had_frac, p.survival_weight, p.interaction_weight) for p in ev]
bad=0
for trial in range(12):
    nfiles=rng.randint(1,3); files=[]; allev=[]
    for fi in range(nfiles):
        fn=os.path.join(d,"g%d_%d.h5"%(trial,fi)); files.append(fn)
        evs=[mkevent(100*fi+k, rng.randint(1,3)) for k in range(rng.randint(1,7))]
        # write in 1..3 append sessions
        cuts=sorted(rng.sample(range(1,len(evs)), min(len(evs)-1, rng.randint(0,2)))) if len(evs)>1 else []
        parts=[evs[i:j] for i,j in zip([0]+cuts, cuts+[len(evs)])]
        for si,part in enumerate(parts):
            with File(fn, 'w' if si==0 else 'a', write_rays=False, require_trigger=False) as w:
                for ev in part: w.add(ev, triggered=bool(rng.getrandbits(1)))
        allev+=evs
    for sr in (1,2,3,100):
        g=FileGenerator(files, slice_range=sr)
        got=[]
        try:
            while True: got.append(g.create_event())
        except StopIteration: pass
        if [sig(e) for e in got]!=[sig(e) for e in allev]:
            bad+=1; print("MISMATCH trial",trial,"sr",sr,len(got),len(allev))
print("bad",bad)
