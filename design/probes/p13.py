import warnings; warnings.filterwarnings('ignore')
import numpy as np, random, os, tempfile
import pyrex
from pyrex.signals import *
from pyrex.particle import Particle, Event
from pyrex.antenna import Antenna
from pyrex.generation import ListGenerator, CylindricalGenerator
from pyrex.kernel import EventKernel
from pyrex.ray_tracing import *
from pyrex.ice_model import *
from pyrex.askaryan import *
from pyrex.io import File
from pyrex.custom.layered_ice import LayeredIce, LayeredRayTracer
rng=random.Random(13); np.random.seed(13)
uice = UniformIce(1.6, valid_range=(-1000,0))
lice = LayeredIce([UniformIce(1.5, valid_range=(-200,0), index_above=1), UniformIce(1.7, valid_range=(-1000,-200), index_above=None)])
combos=[("spec",SpecializedRayTracer,AntarcticIce()),("basic",BasicRayTracer,AntarcticIce()),("uni",UniformRayTracer,uice),("lay",LayeredRayTracer,lice)]
def mkp(w=1.0, z=-300):
    p = Particle("nu_e", vertex=(rng.uniform(50,150),rng.uniform(-50,50),z), direction=(0.3,0.1,-0.2), energy=1e9, interaction_type="cc")
    p.interaction.em_frac=0.7; p.interaction.had_frac=0.3; p.survival_weight=w; p.interaction_weight=1; return p
class Rec:
    is_open=True; has_detector=True
    def __init__(s): s.calls=[]
    def add(s, **kw): s.calls.append(kw)
    def create_analysis_metadataset(s,*a,**k): pass
    def add_analysis_metadata(s,*a,**k): pass
bad=0; st=np.linspace(-20e-9,80e-9,400,endpoint=False)
for name,rt,ice in combos:
  for sm in (ARZAskaryanSignal, AVZAskaryanSignal, ZHSAskaryanSignal):
    for offc in (None, 3):
      for wmin in (None, 0.5, (0.5,0.5)):
        for interp in (None,0.1):
          ants=[Antenna((0,0,-100), noisy=False), Antenna((10,0,-150), noisy=False), Antenna((0,0,50), noisy=False)]
          parts=[mkp(1.0), mkp(0.1), mkp(1.0, z=-900)]
          rec=Rec(); trig={"global": lambda d: any(a.is_hit for a in d), "two": lambda d: sum(a.is_hit for a in d)>=2}
          try:
            k=EventKernel(ListGenerator([Event(parts)]), ants, ice_model=ice, ray_tracer=rt, signal_model=sm, signal_times=st, event_writer=rec, triggers=trig, offcone_max=offc, weight_min=wmin, attenuation_interpolation=interp)
            ev,tr=k.event()
          except Exception as e:
            bad+=1; print("EXC",name,sm.__name__,offc,wmin,interp,type(e).__name__,e); continue
          call=rec.calls[0]
          passing=[p for p in parts if (wmin is None or (p.weight>=wmin if not isinstance(wmin,tuple) else (p.survival_weight>=wmin[0] and p.interaction_weight>=wmin[1])))]
          for i,a in enumerate(ants):
              exp_paths=[]
              for p in passing:
                  r=rt(p.vertex,a.position,ice_model=ice)
                  if r.exists: exp_paths+=list(r.solutions)
              ok=len(a.signals)==len(exp_paths)==len(call['ray_paths'][i])==len(call['polarizations'][i])
              if ok:
                  for s,pth in zip(a.signals,exp_paths):
                      ok&=np.allclose(s.times, st+pth.tof, rtol=0, atol=1e-15)
              if not ok: bad+=1; print("MISALIGN",name,sm.__name__,offc,wmin,interp,i,len(a.signals),len(exp_paths))
          if tr!=any(a.is_hit for a in ants) or call['triggered']['two']!=(sum(a.is_hit for a in ants)>=2) or call['events_thrown']!=1 or ev is not k.gen.events[0]: bad+=1; print("TRIG/EV",name)
print("bad",bad)
