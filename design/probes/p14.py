import warnings; warnings.filterwarnings('ignore')
import numpy as np, random
import pyrex
from pyrex.particle import *
from pyrex.earth_model import *
from pyrex.antenna import *
from pyrex.signals import Signal
import scipy.constants as sc
np.random.seed(14); rng=random.Random(14)
bad=0; none_ret=0
types=["nu_e","nu_e_bar","nu_mu","nu_mu_bar","nu_tau","nu_tau_bar"]
for model in (CTWInteraction, GQRSInteraction):
  for sec in (True,False):
    model.include_secondaries=sec
    for i in range(4000):
        E=10**rng.uniform(3,12); t=rng.choice(types)
        try: p=Particle(t,(0,0,-100),(0,0,1),E,interaction_model=model)
        except TypeError as e: none_ret+=1; continue
        I=p.interaction; y=I.inelasticity
        ok = 0<=y<=1 and I.em_frac>=0 and I.had_frac>=0 and I.em_frac+I.had_frac<=1+1e-12
        if I.kind==I.Type.nc: ok &= (I.em_frac==0 and I.had_frac==y)
        if I.kind==I.Type.cc and t in ("nu_e","nu_e_bar"): ok &= abs(I.em_frac+I.had_frac-1)<1e-12
        ok &= I.cross_section>0 and I.total_cross_section>0 and np.isclose(I.interaction_length, 1/(sc.N_A*I.cross_section))
        if model is CTWInteraction:
            cc=Particle(t,(0,0,-1),(0,0,1),E,interaction_model=model,interaction_type="cc").interaction.cross_section
            nc=Particle(t,(0,0,-1),(0,0,1),E,interaction_model=model,interaction_type="nc").interaction.cross_section
            ok &= np.isclose(cc+nc, I.total_cross_section, rtol=1e-12)
        if not ok: bad+=1; print("BAD",model.__name__,t,E,I.kind,y,I.em_frac,I.had_frac)
    model.include_secondaries=True
# monotone sigma
for model in (CTWInteraction,GQRSInteraction):
    for t in ("nu_e","nu_mu_bar"):
        for k in ("cc","nc"):
            Es=np.logspace(3,12,400); s=[Particle(t,(0,0,-1),(0,0,1),E,interaction_model=model,interaction_type=k).interaction.cross_section for E in Es]
            if not np.all(np.diff(s)>0): bad+=1; print("NONMONO",model.__name__,t,k)
print("bad",bad,"None-returns",none_ret)
# tree
ps=[Particle("nu_e",(0,0,-i),(0,0,1),1e9,interaction_type="cc") for i in range(30)]
ev=Event(ps[:2]); parent={}; 
nxt=2
while nxt<30:
    par=rng.choice(list(ev)); k=min(rng.randint(1,3),30-nxt); ch=ps[nxt:nxt+k]; nxt+=k
    ev.add_children(par, ch if k>1 or rng.random()<0.5 else ch[0])
    for c in ch: parent[id(c)]=par
its=list(ev); print("tree iter once:", len(its)==30 and len(set(map(id,its)))==30, "parents ok:", all(ev.get_parent(c) is parent.get(id(c)) for c in its), "children ok:", all(all(ev.get_parent(c) is p for c in ev.get_children(p)) for p in its))
lv={id(p):0 for p in ps[:2]}
for c in ps[2:]: lv[id(c)]=lv[id(parent[id(c)])]+1
print("levels ok:", all(sorted(map(id,ev.get_from_level(L)))==sorted(i for i,l in lv.items() if l==L) for L in range(0,8)))
# earth invariances
e=PREM()
for _ in range(200):
    ep=np.array([rng.uniform(-5e3,5e3),rng.uniform(-5e3,5e3),rng.uniform(-3000,0)]); d=np.array([rng.gauss(0,1) for _ in range(3)])
    a=rng.uniform(0,6.28); c,s_=np.cos(a),np.sin(a); R=np.array([[c,-s_,0],[s_,c,0],[0,0,1]])
    v=e.slant_depth(ep,d); 
    # rotation about vertical through Earth's centre = about z axis through origin of local frame (x,y origin above centre)
    if not (np.isclose(v,e.slant_depth(R@ep,R@d),rtol=1e-9) and np.isclose(v,e.slant_depth(ep,7.3*d),rtol=1e-9)): bad+=1; print("EARTH inv",ep,d,v)
print("earth bad",bad)
