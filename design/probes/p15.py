import warnings; warnings.filterwarnings('ignore')
import numpy as np, random
import pyrex
from pyrex.earth_model import *
rng=random.Random(15); e=PREM()
worst=0
for _ in range(300):
    ep=np.array([rng.uniform(-5e3,5e3),rng.uniform(-5e3,5e3),rng.uniform(-3000,0)]); d=np.array([rng.gauss(0,1) for _ in range(3)])
    a=rng.uniform(0,6.28); c,s_=np.cos(a),np.sin(a); R=np.array([[c,-s_,0],[s_,c,0],[0,0,1]])
    v=e.slant_depth(ep,d); v2=e.slant_depth(R@ep,R@d); v3=e.slant_depth(ep,7.3*d)
    if v>0: worst=max(worst, abs(v-v2)/v, abs(v-v3)/v)
print("worst rel diff", worst)
