import warnings; warnings.filterwarnings('ignore')
import numpy as np, random
import pyrex
from pyrex.ray_tracing import *
from pyrex.ice_model import *
import scipy.constants as sc
rng=random.Random(16)
def rk4(ice, p0, d0, L, h=0.05):
    # state: r (horizontal), z, theta via invariant: integrate dr/ds=sin th, dz/ds=cos th with d(n sin)/ds=0 => d th/ds = -(dn/dz) sin th / n
    n=lambda z: ice.n0-ice.k*np.exp(ice.a*z); dn=lambda z: -ice.k*ice.a*np.exp(ice.a*z)
    th=np.arccos(d0[2]); r=0.0; z=p0[2]; s=0.0; tof=0.0
    def f(y):
        r,z,th=y; return np.array([np.sin(th), np.cos(th), -dn(z)*np.sin(th)/n(z)])
    y=np.array([r,z,th]); 
    nsteps=int(L/h); h=L/nsteps
    for i in range(nsteps):
        k1=f(y); k2=f(y+h/2*k1); k3=f(y+h/2*k2); k4=f(y+h*k3)
        # tof via simpson on n
        tof+= h*(n(y[1]) + 4*n((y+h/2*k2)[1]) + n((y+h*k3)[1]))/6/sc.c
        y=y+h/6*(k1+2*k2+2*k3+k4)
        if y[1]>0:  # reflect at surface
            y[1]=-y[1]; y[2]=np.pi-y[2]
    return y, tof
for ice in (AntarcticIce(), GreenlandIce()):
  for trial in range(5):
    A=np.array([0,0,rng.choice([rng.uniform(-2500,-900), rng.uniform(-600,-30)])]); B=np.array([rng.uniform(20,1200),0,rng.uniform(-300,-10)])
    for cls in (SpecializedRayTracer, BasicRayTracer):
        rt=cls(A,B,ice)
        for p in rt.solutions:
            y,tof=rk4(ice,A,p.emitted_direction,p.path_length)
            miss=np.hypot(y[0]-B[0], y[1]-B[2])
            print(type(ice).__name__[:4], cls.__name__[:5], "z0 %.0f z1 %.0f rho %.0f"%(A[2],B[2],B[0]), "direct" if p.direct else "indir ", "miss %.2e m"%miss, "dtof %.2e"%((tof-p.tof)/p.tof), "snell %.1e"%(ice.index(A[2])*np.sin(np.arccos(p.emitted_direction[2]))-ice.index(B[2])*np.hypot(*p.received_direction[:2])))
