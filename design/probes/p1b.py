import warnings; warnings.filterwarnings('ignore')
import numpy as np
import pyrex
from pyrex.ray_tracing import *
from pyrex.ice_model import *
from pyrex.custom.layered_ice import LayeredIce, LayeredRayTracer
lice=LayeredIce([UniformIce(1.4, valid_range=(-150,0), index_above=1), AntarcticIce(valid_range=(-2850,-150), index_above=None)])
A=np.array([37.55342442,-19.36133797,-236.40222057]); B=np.array([255.18181368,175.71537285,-43.30052457])
f=np.array([2e8,6e8])
b=LayeredRayTracer(A,B,lice).solutions; s=LayeredRayTracer(B,A,lice).solutions
T=np.array([5e4,-7e4,0]); m=LayeredRayTracer(A+T,B+T,lice).solutions
for p,q,r in zip(b,m,s):
    print("att", p.attenuation(f), q.attenuation(f), r.attenuation(f))
    print("fresnel", p.fresnel, q.fresnel, r.fresnel)
    print("dirs", p.emitted_direction, q.emitted_direction, -r.received_direction)
    print("recv", p.received_direction, q.received_direction, -r.emitted_direction)
