import warnings; warnings.filterwarnings('ignore')
import numpy as np, random
import pyrex
from pyrex.signals import *
from pyrex.ice_model import *
from pyrex.ray_tracing import *
rng=random.Random(9)
fs = np.array([0, 1e6, 1e7, 1e8, 3e8, 9.99e8, 1e9, 1.001e9, 3e9, -3e8])
viol=0
for ice in (AntarcticIce(), ArasimIce(), GreenlandIce()):
  for trial in range(6):
    A=(0,0,rng.uniform(-2000,-50)); B=(rng.uniform(10,1500), 0, rng.uniform(-300,-20))
    for cls in (SpecializedRayTracer, BasicRayTracer):
        rt=cls(A,B,ice)
        for p in rt.solutions:
            a=p.attenuation(fs)
            pos=np.argsort(np.abs(fs)); aa=a[pos]
            ok_range=np.all((a>0)&(a<=1)); ok_mono=np.all(np.diff(aa)<=1e-12); ok_sym=abs(a[4]-a[9])<1e-15
            rs,rp=p.fresnel; ok_fr=abs(rs)<=1+1e-12 and abs(rp)<=1+1e-12
            sig=Signal(np.arange(128)*1e-9, np.random.randn(128), Signal.Type.field)
            pol=np.array([rng.gauss(0,1) for _ in range(3)]); pol/=np.linalg.norm(pol)
            outs=[]
            for interp in (None,0.1,0.5):
                (s1,s2),(u1,u2)=p.propagate(sig,polarization=pol,attenuation_interpolation=interp)
                e=(np.sum(s1.values**2)+np.sum(s2.values**2))/np.sum(sig.values**2)
                outs.append(e)
                ok_t=np.allclose(s1.times, sig.times+p.tof)
                gram=[np.dot(u1,u1),np.dot(u2,u2),np.dot(u1,u2),np.dot(u1,p.received_direction),np.dot(u2,p.received_direction)]
                ok_g=np.allclose(gram,[1,1,0,0,0],atol=1e-9)
                if not(ok_t and ok_g and e<=1+1e-9): viol+=1; print("VIOL",type(ice).__name__,cls.__name__,A,B,interp,e,ok_t,gram)
            if not(ok_range and ok_mono and ok_sym and ok_fr): viol+=1; print("VIOL att",type(ice).__name__,cls.__name__,A,B,a,rs,rp)
print("viol",viol)
