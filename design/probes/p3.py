import warnings; warnings.filterwarnings('ignore')
import numpy as np, random
import pyrex
from pyrex.signals import *
from pyrex.antenna import *
from pyrex.detector import AntennaSystem
from scipy.spatial.transform import Rotation
rng=random.Random(33); np.random.seed(33)
bad=0
for trial in range(200):
    R=Rotation.random(random_state=rng.randint(0,10**6)).as_matrix()
    z=np.array([rng.gauss(0,1) for _ in range(3)]); z/=np.linalg.norm(z)
    x=np.cross(z,[rng.gauss(0,1) for _ in range(3)]); x/=np.linalg.norm(x)
    d=np.array([rng.gauss(0,1) for _ in range(3)]); pol=np.cross(d,[rng.gauss(0,1) for _ in range(3)])
    pos=np.array([rng.uniform(-100,100),rng.uniform(-100,100),rng.uniform(-300,-10)])
    N=rng.choice([16,33]); sig=Signal(np.arange(N)*1e-9, np.random.randn(N), rng.choice([Signal.Type.field,Signal.Type.voltage]))
    sig2=Signal(sig.times, np.random.randn(N), sig.value_type)
    kind=rng.choice(["ant","dip","sys"])
    def mk(zax,xax):
        if kind=="ant":
            a=Antenna(pos,z_axis=zax,x_axis=xax,antenna_factor=3.0,efficiency=0.7,noisy=False)
            a.directional_gain=lambda theta,phi: np.sin(theta)*(2+np.cos(phi)); a.polarization_gain=lambda p: np.vdot(a.x_axis,p)
            return a
        dpl=DipoleAntenna("d",pos,250e6,100e6,300,50,orientation=zax,noisy=False)
        return dpl if kind=="dip" else AntennaSystem(dpl)
    a0=mk(z,x); a1=mk(R@z,R@x)
    r0=a0.apply_response(sig,direction=d,polarization=pol,force_real=True).values
    r1=a1.apply_response(sig,direction=R@d,polarization=R@pol,force_real=True).values
    sc=np.max(np.abs(r0))+1e-300
    ok=np.allclose(r0,r1,atol=1e-9*sc)
    # linearity
    comb=Signal(sig.times, 2*sig.values-3*sig2.values, sig.value_type)
    rc=a0.apply_response(comb,direction=d,polarization=pol,force_real=True).values
    r2=a0.apply_response(sig2,direction=d,polarization=pol,force_real=True).values
    ok&=np.allclose(rc,2*r0-3*r2,atol=1e-9*(sc+np.max(np.abs(r2))))
    # field vs voltage factor
    other=Signal(sig.times,sig.values, Signal.Type.voltage if sig.value_type==Signal.Type.field else Signal.Type.field)
    ro=a0.apply_response(other,direction=d,polarization=pol,force_real=True).values
    inner=a0.antenna if kind=="sys" else a0
    fac=inner.antenna_factor
    ok&=np.allclose(ro, r0*fac if sig.value_type==Signal.Type.field else r0/fac, atol=1e-9*sc*max(fac,1/fac))
    if kind!="ant":
        th=np.arccos(np.dot(-d/np.linalg.norm(d), z)); 
        base=Signal(sig.times,sig.values,sig.value_type); inner2=inner
        rr=inner.apply_response(sig,force_real=True).values
        ok&=np.allclose(r0, rr*np.sin(th)*np.dot(z,pol/np.linalg.norm(pol)), atol=1e-9*(np.max(np.abs(rr))+1e-300))
    for badtype in (Signal.Type.undefined, Signal.Type.power):
        try: a0.apply_response(Signal(sig.times,sig.values,badtype)); ok=False
        except ValueError: pass
    if not ok: bad+=1; print("FAIL",kind,trial)
print("bad",bad)
