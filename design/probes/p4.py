import warnings; warnings.filterwarnings('ignore')
import numpy as np, random
import pyrex
from pyrex.signals import *
from pyrex.antenna import Antenna, DipoleAntenna
from pyrex.detector import AntennaSystem
rng=random.Random(4)
class Half(AntennaSystem):
    lead_in_time=0
    def front_end(self, signal): return signal*0.5
def interp0(sig, t):
    return np.interp(t, sig.times, sig.values, left=0, right=0)
bad=0
for trial in range(300):
    dt=1.0
    kind=rng.choice(["ant","dip","sys","sys_lead"])
    thr=rng.choice([0.5,2.5])
    def mk():
        if kind=="ant":
            a=Antenna((0,0,-100), noisy=False); a.trigger=lambda s: np.max(np.abs(s.values))>thr; return a
        if kind=="dip":
            return DipoleAntenna("d",(0,0,-100),250e6,100e6,300,50,trigger_threshold=thr,noisy=False)
        s=Half(DipoleAntenna("d",(0,0,-100),250e6,100e6,300,50,trigger_threshold=thr,noisy=False))
        if kind=="sys_lead": s.lead_in_time=2.5
        return s
    a=mk(); sigs=[]
    inner = a.antenna if hasattr(a,'antenna') else a
    try:
      for step in range(rng.randint(1,12)):
        op=rng.choice(["recv","recv","all","waves","hit","full","during","clear"])
        if op=="recv":
            n=rng.randint(2,6); t0=rng.randint(-5,15)
            s=Signal(t0+dt*np.arange(n), [rng.randint(-3,3) for _ in range(n)], Signal.Type.voltage)
            inner.signals.append(s); sigs.append(s)
        elif op=="clear":
            a.clear(reset_noise=rng.random()<0.5); sigs=[]
        else:
            scale = 0.5 if kind.startswith("sys") else 1.0
            exp_all=[scale*sum(interp0(x, s.times) for x in sigs) for s in sigs]
            if op=="all":
                got=a.all_waveforms
                ok=len(got)==len(sigs) and all(np.array_equal(g.times,s.times) and np.allclose(g.values,e) for g,s,e in zip(got,sigs,exp_all))
            elif op=="waves":
                got=a.waveforms
                expw=[e for e in exp_all if np.max(np.abs(e))>thr]
                ok=len(got)==len(expw) and all(np.allclose(g.values,e) for g,e in zip(got,expw))
            elif op=="hit":
                ok = a.is_hit == any(np.max(np.abs(e))>thr for e in exp_all)
            elif op in ("full","during"):
                tt=rng.randint(-8,12)+dt*np.arange(rng.randint(2,8))
                e=scale*sum((interp0(x,tt) for x in sigs), np.zeros(len(tt)))
                if op=="full": ok=np.allclose(a.full_waveform(tt).values,e)
                else: ok = a.is_hit_during(tt)==(np.max(np.abs(e))>thr)
            if not ok:
                bad+=1; print("MISMATCH",kind,op,trial); break
    except Exception as e:
        bad+=1; print("EXC",kind,type(e).__name__,e)
print("bad",bad)
# noise determinism
np.random.seed(1)
a=Antenna((0,0,-100), freq_range=(1e8,4e8), noise_rms=1.0, unique_noise_waveforms=5)
t=np.arange(64)*1e-9
n1=a.make_noise(t).values; n2=a.make_noise(t[10:40]).values; n3=a.make_noise(t+20e-9).values
print("noise same abs times", np.allclose(n1[10:40],n2), np.allclose(n1[20:],n3[:44]))
a.clear(reset_noise=True); print("after reset differs", not np.allclose(a.make_noise(t).values,n1))
a.clear(); m=a.make_noise(t).values; a.clear(); print("clear w/o reset keeps", np.allclose(a.make_noise(t).values,m))
