import warnings; warnings.filterwarnings('ignore')
import numpy as np, os, tempfile, itertools, random, traceback
import pyrex
from pyrex.signals import Signal
from pyrex.particle import Particle, Event
from pyrex.antenna import Antenna
from pyrex.io import File
assert 'rc' in pyrex.__file__
rng = random.Random(12345)
class FakePath:
    def __init__(s,tag): s.tag=tag
    @property
    def _metadata(s): return {"tof": float(s.tag), "path_length": 1.0, "kind": "p%d"%int(s.tag)}
def mkevent(k, n):
    ps=[]
    for j in range(n):
        p = Particle(rng.choice(["nu_e","nu_mu_bar","nu_tau"]), vertex=(k, j, -1000), direction=(0,0,1), energy=1e8+k, interaction_type="cc"); p.survival_weight=.5; p.interaction_weight=.25; ps.append(p)
    return Event(ps)
d = tempfile.mkdtemp(dir="/tmp/scratch")
nfail=0; nfiles=0
flags = ["particles","triggers","antenna_triggers","rays","noise","waveforms"]
for trial in range(120):
    nant = rng.choice([1,2,3])
    ants = [Antenna((i,0,-100-i), noisy=rng.random()<0.5, freq_range=(1e8,5e8), noise_rms=1e-6) for i in range(nant)]
    opt = {("write_"+f): rng.random()<0.6 for f in flags}
    opt["write_particles"]=True
    if opt["write_antenna_triggers"] and not opt["write_triggers"]: opt["write_triggers"]=True
    rt = rng.choice([True, False, ["rays"], ["waveforms","noise"], ["rays","waveforms","antenna_triggers"], []])
    fn = os.path.join(d, "t%d.h5"%trial)
    expected=[]
    try:
        with File(fn,'w', require_trigger=rt, **opt) as w:
            w.set_detector(ants)
            nev = rng.randint(1,6)
            for k in range(nev):
                for a in ants: a.clear()
                npart = rng.randint(1,3); ev = mkevent(k, npart)
                nw = [rng.randint(0,3) for _ in ants]
                for a,n in zip(ants,nw):
                    for q in range(n):
                        a.receive(Signal(np.arange(4)*1e-9 + 1e-8*q + k*1e-7, np.array([k,q,1.0,0.5]), Signal.Type.voltage))
                paths = [[FakePath(100*k+10*i+q) for q in range(n)] for i,n in enumerate(nw)]
                pols = [[(0,0,1)]*n for n in nw]
                trig = rng.random()<0.5
                mode = rng.choice(["bool","dict","dictlist"])
                if mode=="bool": tr = trig
                elif mode=="dict": tr = {"global":trig, "extra": rng.random()<0.5}
                else: tr = {"global":trig, "perwave":[rng.random()<0.5 for _ in range(max(nw) if max(nw)>0 else 0)]}
                tonly_rays = (rt if isinstance(rt,bool) else ("rays" in rt))
                reject = rng.random()<0.2
                if reject and opt["write_rays"] and (not tonly_rays or trig) and max(nw)>0:
                    try:
                        w.add(ev, triggered=tr, ray_paths=paths, polarizations=[[]]*len(paths) if max(nw)>0 else [[]]*(len(paths)+1))
                        if max(nw)>0: print("reject not raised?")
                    except ValueError: pass
                    continue
                w.add(ev, triggered=tr, ray_paths=paths, polarizations=pols)
                expected.append(dict(k=k,npart=npart,nw=nw,trig=trig,tr=tr,waves=[[ (wv.times.copy(), wv.values.copy()) for wv in a.all_waveforms] for a in ants]))
    except Exception as e:
        print("WRITE FAIL", trial, opt, rt, type(e).__name__, e); traceback.print_exc(); nfail+=1; continue
    nfiles+=1
    tonly = {f:(rt if isinstance(rt,bool) else (f in rt)) for f in flags}
    if rt is True:
        for f in ["particles","triggers","antenna_triggers"]: tonly[f]=False
    try:
        with File(fn,'r') as f:
            assert len(f)==len(expected), ("len", len(f), len(expected))
            for sr in (None,1,2):
                it = list(range(len(expected)))
                with File(fn,'r',slice_range=sr) as g:
                    for i,evr in enumerate(g):
                        ex = expected[i]
                        vs = evr.get_particle_info("vertex")
                        assert [tuple(v[:2]) for v in vs.astype(int).tolist()]==[(ex['k'],j) for j in range(ex['npart'])], ("particles",i,vs)
                        if opt["write_triggers"]:
                            assert bool(evr.triggered)==ex['trig'], ("trig", i)
                        if opt["write_rays"]:
                            rec = (not tonly["rays"]) or ex['trig']
                            try: r = evr.get_rays_info("tof")
                            except ValueError as e:
                                assert "not saved" in str(e); r = []
                            if rec and max(ex['nw'])>0:
                                for ai,n in enumerate(ex['nw']):
                                    got = [r[q][ai] for q in range(n)]
                                    assert got==[100*ex['k']+10*ai+q for q in range(n)], ("rays", i, ai, got)
                            else:
                                assert len(r)==0, ("rays should be empty", i, r)
                        if opt["write_waveforms"]:
                            rec = (not tonly["waveforms"]) or ex['trig']
                            try: wf = evr.get_waveforms()
                            except ValueError as e:
                                assert "not saved" in str(e); wf = []
                            if rec and max(ex['nw'])>0:
                                for ai,n in enumerate(ex['nw']):
                                    for q in range(n):
                                        assert np.allclose(wf[q][ai][0], ex['waves'][ai][q][0]) and np.allclose(wf[q][ai][1], ex['waves'][ai][q][1]), ("wave", i, ai, q)
                            else:
                                assert len(wf)==0, ("waves should be empty", i)
    except AssertionError as e:
        print("READ MISMATCH", trial, opt, rt, e.args); nfail+=1
    except Exception as e:
        print("READ FAIL", trial, opt, rt, type(e).__name__, e); nfail+=1
print("files", nfiles, "fails", nfail)
