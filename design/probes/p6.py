import warnings; warnings.filterwarnings('ignore')
import numpy as np, random
import pyrex
from pyrex.generation import *
from pyrex.particle import *
from pyrex.earth_model import PREM, CoreMantleCrustModel
np.random.seed(2); rng=random.Random(2)
bad=0
for gen in [CylindricalGenerator(1000,500,1e9), CylindricalGenerator(50,3000,lambda: 10**np.random.uniform(3,12), shadow=True, interaction_model=GQRSInteraction),
            RectangularGenerator(800,600,500,1e10), RectangularGenerator(10,5000,100,1e6, shadow=True, earth_model=CoreMantleCrustModel(), source="pp")]:
    c0=gen.count; n_ret=0
    for i in range(1500):
        ev=gen.create_event(); n_ret+=1
        p=ev.roots[0]
        a,b=gen.get_exit_points(p)
        v=p.vertex; d=p.direction
        ta=np.dot(a-v,d); tb=np.dot(b-v,d)
        off=max(np.linalg.norm((a-v)-ta*d), np.linalg.norm((b-v)-tb*d))
        def onb(pt):
            if isinstance(gen,CylindricalGenerator):
                r=np.hypot(pt[0],pt[1]); return (abs(r-gen.dr)<1e-6 and -gen.dz-1e-6<=pt[2]<=1e-6) or ((abs(pt[2])<1e-9 or abs(pt[2]+gen.dz)<1e-9) and r<=gen.dr+1e-6)
            else:
                fx=abs(abs(pt[0])-gen.dx/2)<1e-6; fy=abs(abs(pt[1])-gen.dy/2)<1e-6; fz=abs(pt[2])<1e-9 or abs(pt[2]+gen.dz)<1e-6
                inside=abs(pt[0])<=gen.dx/2+1e-6 and abs(pt[1])<=gen.dy/2+1e-6 and -gen.dz-1e-6<=pt[2]<=1e-6
                return (fx or fy or fz) and inside
        # weights
        L=p.interaction.total_interaction_length
        t=gen.earth_model.slant_depth(v,-d)
        sw=np.exp(-t/L); Lice=L/0.92/100; iw=np.linalg.norm(b-a)/Lice*np.exp(-np.linalg.norm(v-a)/Lice)
        okw = (np.isclose(p.interaction_weight,iw,rtol=1e-12)) and (p.survival_weight==1 if gen.shadow else np.isclose(p.survival_weight,sw,rtol=1e-12))
        if not(off<1e-6 and ta<=1e-9 and tb>=-1e-9 and onb(a) and onb(b) and okw):
            bad+=1
            if bad<5: print("BAD",type(gen).__name__,v,d,a,b,ta,tb,off,onb(a),onb(b),okw)
    print(type(gen).__name__, "returned",n_ret,"count",gen.count-c0, "shadow",gen.shadow)
print("bad",bad)
# list generator
evs=[Event(Particle("nu_e",(0,0,-i),(0,0,1),1e9,interaction_type="cc")) for i in range(3)]
g=ListGenerator(evs); seq=[g.create_event() for _ in range(7)]; print("list loop", [evs.index(e) for e in seq], g.count)
g=ListGenerator(evs,loop=False); 
try:
    for _ in range(5): g.create_event()
except StopIteration: print("list stop at", g.count)
