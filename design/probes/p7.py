import warnings; warnings.filterwarnings('ignore')
import numpy as np
import pyrex
from pyrex.signals import *
np.random.seed(5)
def model(nz, t, t0):
    N=len(nz.freqs)
    if N==0: return np.zeros(len(t))
    sign = -1 if isinstance(nz, FFTThermalNoise) else +1
    return nz.rms*np.sqrt(2/N)*sum(a*np.cos(2*np.pi*f*(t-t0)+sign*p) for f,a,p in zip(nz.freqs,nz.amps,nz.phases))
for n in (200, 201, 64, 7):
  t = np.arange(n)*0.5e-9 + 3e-7   # fs=2GHz, nyq=1GHz
  for band in [(100e6,400e6),(0,300e6),(0.0,1e9),(900e6,1.5e9),(1.2e9,2e9),(1e6,2e6),(499e6,501e6)]:
    for cls in (FFTThermalNoise, FullThermalNoise):
      for amp in (None, 1.0, lambda f: 1+f/1e9):
        for u in (1,3):
          try:
            nz = cls(t, band, f_amplitude=amp, rms_voltage=1.5, uniqueness_factor=u)
            t0 = t[0] if cls is FFTThermalNoise else 0
            d = np.max(np.abs(nz.values - model(nz, t, t0)))
            inband = np.all((nz.freqs>=band[0]) & (nz.freqs<=band[1])) if len(nz.freqs) else True
            w = nz.with_times(t[5:]+ (t[1]-t[0])*0)   # shared samples
            dshare = np.max(np.abs(w.values - nz.values[5:])) if n>10 else 0
            flag = "" if (d<1e-9 and inband and dshare<1e-9) else "  <<<<"
            if flag: print(n, band, cls.__name__, "amp", amp if not callable(amp) else "fn", "u",u, "nf",len(nz.freqs), "diff",d, "inband",inband, "share",dshare, flag)
          except Exception as e:
            print(n, band, cls.__name__, "EXC", type(e).__name__, e)
print("done")
