import warnings; warnings.filterwarnings('ignore')
import numpy as np, random
import pyrex
from pyrex.signals import *
from pyrex.askaryan import *
from pyrex.particle import Particle
from pyrex.ice_model import *
rng=random.Random(8)
def mkp(E, em, had, z=-1000):
    p = Particle("nu_e", vertex=(0,0,z), direction=(0,0,1), energy=E, interaction_type="cc"); p.interaction.em_frac=em; p.interaction.had_frac=had; return p
bad=0
ice=AntarcticIce()
for trial in range(40):
    N=rng.choice([256,257,500]); dt=rng.choice([0.1e-9,0.25e-9,1e-9]); off=rng.choice([0,-37e-9,1e-6])
    times=off+dt*np.arange(N)
    E=10**rng.uniform(5,11); em=rng.choice([0,0.3,1.0]); had=rng.choice([0,0.5]) if em<1 else 0
    if em+had==0: had=0.4
    z=rng.uniform(-2000,-20); thc=np.arccos(1/ice.index(z))
    psi=thc+np.radians(rng.choice([0,0,0.3,-0.7,2.0,-5.0,10]))
    frac=rng.uniform(0.15,0.85); t0=times[0]+ (rng.randint(20,N-20)+frac)*dt
    R=rng.uniform(50,3000)
    for cls in (ZHSAskaryanSignal, AVZAskaryanSignal, ARZAskaryanSignal):
        p=mkp(E,em,had,z)
        base=cls(times,p,psi,R,ice,t0).values
        sc=np.max(np.abs(base))+1e-300
        chk={}
        chk['invR']=np.allclose(cls(times,p,psi,2*R,ice,t0).values*2, base, rtol=1e-9, atol=1e-12*sc)
        chk['even']=np.allclose(cls(times,p,-psi,R,ice,t0).values, base, rtol=1e-9, atol=1e-12*sc)
        s=12345*dt
        chk['joint']=np.allclose(cls(times+s,p,psi,R,ice,t0+s).values, base, rtol=1e-6, atol=1e-7*sc)
        m=3
        mv=cls(times,p,psi,R,ice,t0+m*dt).values
        chk['move']=np.allclose(mv[m+5:], base[5:-m], rtol=1e-5, atol=2e-5*sc)
        chk['finite']=np.all(np.isfinite(base)) and len(base)==N
        z0=cls(times,mkp(E,0,0,z),psi,R,ice,t0).values; chk['zero']=len(z0)==N and np.all(z0==0)
        if em==1.0 and psi==thc:
            chk['linE']=np.allclose(cls(times,mkp(2*E,em,had,z),psi,R,ice,t0).values, 2*base, rtol=1e-9, atol=1e-12*sc) if cls is not AVZAskaryanSignal else True
        for k,v in chk.items():
            if not v:
                bad+=1
                if bad<15: print("FAIL",cls.__name__,k,"N",N,"dt",dt,"E%.2e"%E,em,had,"dpsi",np.degrees(psi-thc),"sc",sc)
print("bad",bad)
