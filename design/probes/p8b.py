import warnings; warnings.filterwarnings('ignore')
import numpy as np
import pyrex
from pyrex.askaryan import *
from pyrex.particle import Particle
from pyrex.ice_model import *
ice=AntarcticIce()
p = Particle("nu_e", vertex=(0,0,-1000), direction=(0,0,1), energy=2.25e9, interaction_type="cc"); p.interaction.em_frac=1.0; p.interaction.had_frac=0
N=500; dt=2.5e-10
thc=np.arccos(1/ice.index(-1000)); psi=thc+np.radians(2.0)
for off in (0.0, 1e-6):
  times=off+dt*np.arange(N); t0=times[0]+(200+0.37)*dt
  base=ARZAskaryanSignal(times,p,psi,500,ice,t0).values
  for s in (1*dt, 12345*dt, 1e-6, 0.123456e-6):
    v=ARZAskaryanSignal(times+s,p,psi,500,ice,t0+s).values
    d=np.abs(v-base); print("off",off,"s/dt",s/dt,"max rel diff", d.max()/np.abs(base).max(), "argmax", d.argmax(), "frac(t0-times0)/dt", ((t0+s)-(times+s)[0])/dt)
