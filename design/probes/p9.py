import warnings; warnings.filterwarnings('ignore')
import numpy as np, random, copy, traceback
import pyrex
from pyrex.signals import *
assert 'rc' in pyrex.__file__
rng = random.Random(7)
def f1(t): return np.exp(-((np.asarray(t)-3.0)/1.5)**2)
def f2(t): return np.sin(np.asarray(t)*0.7)
def lp(f): return 1/(1+1j*np.abs(f)/0.2)     # needs force_real
def delay(f): return np.exp(-2j*np.pi*f*2.0)
def half(f): return 0.5*np.ones(len(f))
FILTERS=[(lp,True),(delay,True),(half,False)]
def eager(times, comps):
    # independent evaluation of the definition
    times=np.asarray(times,float); dt=times[1]-times[0]
    total=np.zeros(len(times))
    for (fn,t0,buf,fac,filts) in comps:
        nb=int(buf[0]/dt)+ (1 if buf[0]%dt else 0); na=int(buf[1]/dt)+(1 if buf[1]%dt else 0)
        full=np.concatenate((times[0]-dt*np.arange(nb,0,-1), times, times[-1]+dt*np.arange(1,na+1)))
        v=np.asarray(fn(full-t0))*fac
        if filts:
            fr=scipy.fft.fftfreq(2*len(v), d=dt); H=np.ones(len(fr),complex)
            for (h,real) in filts:
                r=np.array(h(np.abs(fr) if real else fr),complex)
                if real: r.imag[fr<0]*=-1
                H*=r
            v=np.real(scipy.fft.ifft(H*scipy.fft.fft(np.concatenate((v,np.zeros(len(v))))))[:len(v)])
        total+=v[nb:nb+len(times)]
    return total
import scipy.fft
bad=0
for trial in range(300):
    n=rng.choice([8,16,33]); dt=rng.choice([0.5,1.0,0.25]); t0=rng.choice([0.0,-4.0,10.0])
    times=t0+dt*np.arange(n)
    fs=FunctionSignal(times, rng.choice([f1,f2]))
    comps=[[fs._functions[0],0.0,[0.0,0.0],1.0,[]]]
    cur_times=times.copy()
    hist=[]
    try:
      for step in range(rng.randint(1,10)):
        op=rng.choice(["read","shift","imul","idiv","filter","buffers","resample","add","with_times","mul"])
        hist.append(op)
        if op=="read": pass
        elif op=="shift":
            d=rng.choice([1.0,-2.5,0.75]); fs.shift(d); cur_times=cur_times+d
            for c in comps: c[1]+=d
        elif op=="imul":
            k=rng.choice([2.0,-0.5]); fs*=k
            for c in comps: c[3]*=k
        elif op=="idiv":
            k=rng.choice([2.0,4.0]); fs/=k
            for c in comps: c[3]/=k
        elif op=="mul":
            k=rng.choice([3.0,0.25]); fs=fs*k
            for c in comps: c[3]*=k
        elif op=="filter":
            h,real=rng.choice(FILTERS); fs.filter_frequencies(h,force_real=real)
            for c in comps: c[4]=c[4]+[(h,real)]
        elif op=="buffers":
            l=rng.choice([None,0.0,1.0,2.6]); tr=rng.choice([None,0.0,3.0]); force=rng.random()<0.3
            fs.set_buffers(leading=l,trailing=tr,force=force)
            for c in comps:
                if l is not None: c[2][0]= l if force else max(l,c[2][0])
                if tr is not None: c[2][1]= tr if force else max(tr,c[2][1])
        elif op=="resample":
            m=rng.choice([len(cur_times), len(cur_times)*2-1]); fs.resample(m); cur_times=np.linspace(cur_times[0],cur_times[-1],m)
        elif op=="add":
            other=FunctionSignal(cur_times, rng.choice([f1,f2])); k=rng.choice([1.0,2.0]); other*=k
            fs=fs+other; comps.append([other._functions[0],0.0,[0.0,0.0],k,[]])
        elif op=="with_times":
            a=rng.randint(0,2); b=rng.randint(0,2)
            if len(cur_times)-a-b>=4:
                nt=cur_times[a:len(cur_times)-b].copy()
                old=cur_times
                fs=fs.with_times(nt)
                for c in comps:
                    c[2][0]=max(c[2][0], nt[0]-old[0]); c[2][1]=max(c[2][1], old[-1]-nt[-1])
                cur_times=nt
        if rng.random()<0.6 or op=="read":
            got=fs.values
            exp=eager(cur_times, comps)
            if not (np.array_equal(fs.times,cur_times) or np.allclose(fs.times,cur_times,atol=1e-12)) or not np.allclose(got,exp,atol=1e-9,rtol=1e-9):
                bad+=1
                if bad<=6: print("MISMATCH trial",trial,hist,"maxdiff",np.max(np.abs(got-exp)) if len(got)==len(exp) else (len(got),len(exp)))
                break
    except Exception as e:
        bad+=1
        if bad<=6: print("EXC trial",trial,hist,type(e).__name__,e)
print("bad",bad)
