#!/venv/bin/python
"""Run the registered checks against behaviour-PRESERVING changes kept under /verif/benign/<name>/.

benign.py add <src dir> <property> <name>     copy patch.diff/notes.txt into benign/<name>/ and write meta.json
benign.py run [name ...] [--tier quick]       for each: apply to /repo, run the property's check, undo; writes
                                              benign/RESULTS.json.  Expected: exit 0 (quiet).  A VIOLATION that ends in
                                              no-failing-input-found (a translator or the correspondence no longer
                                              recognises the rewritten code) is the documented, honest outcome for a
                                              rewrite the model cannot follow; a VIOLATION with a concrete replay on a
                                              behaviour-preserving change is a FALSE ALARM of the machinery.
Nothing is ever committed to /repo; the patch is always undone (git checkout -- .)."""
import json
import os
import shutil
import subprocess
import sys

VERIF = os.path.dirname(os.path.dirname(os.path.abspath(__file__)))
BENIGN = os.path.join(VERIF, "benign")
REPO = os.environ.get("PYREX_REPO", "/repo")


def sh(cmd, cwd=None, timeout=3600):
    p = subprocess.run(cmd, cwd=cwd, shell=isinstance(cmd, str), capture_output=True, text=True, timeout=timeout)
    return p.returncode, p.stdout + p.stderr


def add(src, prop, name):
    d = os.path.join(BENIGN, name)
    os.makedirs(d, exist_ok=True)
    for f in ("patch.diff", "notes.txt"):
        if os.path.exists(os.path.join(src, f)):
            shutil.copy(os.path.join(src, f), os.path.join(d, f))
    json.dump({"property": prop, "name": name, "what": ""}, open(os.path.join(d, "meta.json"), "w"), indent=1)


def run_one(name, tier):
    d = os.path.join(BENIGN, name)
    meta = json.load(open(os.path.join(d, "meta.json")))
    res = {"name": name, "property": meta["property"]}
    if sh("git status --porcelain", cwd=REPO)[1].strip():
        raise SystemExit("/repo has uncommitted changes; refusing to apply a patch")
    rc, out = sh(["git", "apply", os.path.join(d, "patch.diff")], cwd=REPO)
    if rc != 0:
        # the tree has moved on since the rewrite was written (fix commits): merge it
        rc, out2 = sh(["git", "apply", "-3", os.path.join(d, "patch.diff")], cwd=REPO)
        if rc != 0 or "U " in sh("git status --porcelain", cwd=REPO)[1]:
            sh("git reset -q --hard", cwd=REPO)
            res["error"] = "patch does not apply: " + (out + out2)[-300:]
            return res
        res["applied"] = "3-way merge onto the current HEAD"
    try:
        for p in [meta["property"]] + meta.get("also_check", []):
            rc, out = sh("/venv/bin/python -W ignore harness/check.py %s --tier %s" % (p, tier), cwd=VERIF)
            lines = [l for l in out.splitlines() if l.startswith(("VIOLATION", "OK ", "  broken:"))]
            vio = [l for l in lines if l.startswith("VIOLATION")]
            res["check_" + p] = {"rc": rc, "lines": [l[:400] for l in lines[:12]],
                                 "concrete_replay": any(not l.rstrip().endswith("no-failing-input-found") for l in vio)}
    finally:
        sh("git reset -q --hard", cwd=REPO)
        sh("git clean -fdq pyrex", cwd=REPO)
    cks = [v for k, v in res.items() if k.startswith("check_")]
    res["outcome"] = ("quiet" if all(c["rc"] == 0 for c in cks) else
                      "FALSE-ALARM (concrete replay)" if any(c["concrete_replay"] for c in cks) else
                      "not-followed (no-failing-input-found)")
    return res


def main():
    a = sys.argv[1:]
    if a and a[0] == "add":
        return add(a[1], a[2], a[3])
    tier = "quick"
    if "--tier" in a:
        i = a.index("--tier"); tier = a[i + 1]; del a[i:i + 2]
    names = a[1:] or sorted(n for n in os.listdir(BENIGN) if os.path.isdir(os.path.join(BENIGN, n)))
    path = os.path.join(BENIGN, "RESULTS.json")
    results = json.load(open(path)) if os.path.exists(path) else {}
    for n in names:
        r = run_one(n, tier)
        results[n] = r
        print(json.dumps(r, indent=1)); sys.stdout.flush()
        json.dump(results, open(path, "w"), indent=1, sort_keys=True)


if __name__ == "__main__":
    main()
