#!/venv/bin/python
"""check.py <property id> [--tier quick|thorough] [--replay file]

exit 0: the property held on everything explored (KNOWN-FINDING lines may have been printed)
exit 1: a `VIOLATION property=<id> replay=<path>` line was printed
exit 2: infrastructure problem (timeout, crash of the harness itself) - never a verdict
"""
import argparse
import importlib
import json
import os
import sys
import traceback

HERE = os.path.dirname(os.path.abspath(__file__))
sys.path.insert(0, HERE)
import framework as fw  # noqa: E402
sys.path.insert(0, fw.REPO)   # the implementation under test (PYREX_REPO overrides /repo for scratch trees)


def main():
    ap = argparse.ArgumentParser()
    ap.add_argument("pid")
    ap.add_argument("--tier", default=os.environ.get("VERIF_TIER", "quick"), choices=["quick", "thorough"])
    ap.add_argument("--replay")
    ap.add_argument("--no-build", action="store_true", help="debug: skip the Lean build/audit")
    args = ap.parse_args()
    seed = int(os.environ.get("VERIF_SEED", "0") or 0)
    os.chdir(fw.VERIF)
    run = fw.Run(args.pid, args.tier, seed)
    mod = importlib.import_module("props." + args.pid)
    run.extra["rule"] = getattr(mod, "RULE", "")
    run.assumptions = list(getattr(mod, "ASSUMPTIONS", [])) + fw.TRUSTED_BASE

    if args.replay:
        data = json.load(open(args.replay))
        if data.get("no_failing_input_found") or "input" not in data:
            # replay of a broken obligation = re-run the whole check
            print("replay names a broken obligation/correspondence, re-running the check: %s"
                  % data.get("broken"))
        else:
            try:
                mod.replay(run, data)
            except Exception:
                traceback.print_exc()
                run.violation({"kind": "replay-crash", "input": data.get("input"),
                               "trace": traceback.format_exc()[-1500:]})
            run.write_evidence(getattr(mod, "LEVEL", "proof"))
            if not run.violations:
                print("replay: property holds on the recorded input")
            return 1 if run.violations else 0

    # ---- 1+2: translators, build, audit
    ok_build = True
    if not args.no_build:
        try:
            ok_build = fw.build_and_audit(run, args.pid,
                                          extractors=getattr(mod, "EXTRACTORS", ()),
                                          extra_targets=getattr(mod, "EXTRA_TARGETS", ()),
                                          use_twins=getattr(mod, "USE_TWINS", False))
        except Exception:
            ok_build = False
            run.note_broken("build/audit crashed: " + traceback.format_exc()[-800:])
        if run.thorough() and ok_build:
            mods = ["PyrexVerif.Props." + args.pid] + list(getattr(mod, "CHECKER_MODULES", []))
            try:
                if not fw.leanchecker(run, mods):
                    ok_build = False
            except Exception:
                run.notes.append("leanchecker not run: " + traceback.format_exc()[-300:])

    # ---- 3: corpus + correspondence
    ok_corr = True
    for stage in ("corpus", "correspondence"):
        fn = getattr(mod, stage, None)
        if fn is None:
            continue
        try:
            r = fn(run)
            if r is False:
                ok_corr = False
        except Exception:
            ok_corr = False
            run.note_broken("%s crashed: %s" % (stage, traceback.format_exc()[-1200:]))

    # ---- known findings are re-probed and announced on every run
    if hasattr(mod, "known_probes"):
        try:
            mod.known_probes(run)
        except Exception:
            run.notes.append("known_probes crashed: " + traceback.format_exc()[-600:])

    # ---- 4: property-level search on the implementation alone
    deep = run.thorough() or not (ok_build and ok_corr)
    if hasattr(mod, "search"):
        try:
            mod.search(run, deep)
        except Exception:
            run.note_broken("search crashed: " + traceback.format_exc()[-1200:])
            ok_corr = False

    concrete = [v for v in run.violations if not v[1]]
    if not concrete and (not ok_build or not ok_corr or run.broken):
        run.violation({"kind": "broken-obligation", "broken": run.broken,
                       "how": "cd /verif && /venv/bin/python harness/check.py %s --tier %s" % (args.pid, args.tier)},
                      no_input=True, tag="b")
    run.write_evidence(getattr(mod, "LEVEL", "proof"))
    if run.violations:
        for b in run.broken[:20]:
            print("  broken: " + b[:600])
        return 1
    print("OK property=%s tier=%s seed=%d obligations=%d/%d cases=%d distinct=%d wall=%.1fs"
          % (args.pid, args.tier, seed, run.discharged, run.obligations, run.evaluations,
             len(run.distinct), __import__("time").time() - run.t0))
    return 0


if __name__ == "__main__":
    try:
        rc = main()
    except SystemExit:
        raise
    except Exception:
        traceback.print_exc()
        rc = 2
    sys.exit(rc)
