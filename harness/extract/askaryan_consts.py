"""Translator for C07: numeric constants of pyrex/askaryan.py -> lean/PyrexVerif/Gen/AskaryanConstants.lean

For every function the Lean model `twin/Askaryan.body` follows, the source is re-read with `ast`,
docstrings, `logger.*` calls and the text of error / warning messages are dropped, locally bound names are
alpha-renamed in order of first appearance, every *float* literal is replaced by a placeholder (in source order)
and the remaining text (`ast.unparse`) is compared with a recorded fingerprint of the shape the model was
written against.  A changed shape is an extraction error (fails closed: the model may no longer
describe the code); a changed literal regenerates the constant, so the theorems that need it
(positivity of widths and denominators, ...) are re-checked and the Float twin follows the code.

The constants are emitted as definitions polymorphic in the scalar type (`[OfScientific α]`), so the
one generated file is read by the Float twin and by the real twin alike."""
import ast
import hashlib
import os

# (class, member) -> names of the float literals in source order
NAMES = {
    ("ZHSAskaryanSignal", "__init__"): [
        "zhs_nu0", "zhs_amp", "zhs_q", "zhs_mhz", "zhs_half", "zhs_width_deg"],
    ("AVZAskaryanSignal", "__init__"): [
        "avz_Elpm", "avz_em_width_deg", "avz_em_fref", "avz_lpm_a", "avz_gev_to_ev", "avz_lpm_pow",
        "avz_eps_ref",
        "avz_h1_fref", "avz_h1_c0", "avz_h1_c1", "avz_h1_c2",
        "avz_h2_fref", "avz_h2_c0", "avz_h2_c1",
        "avz_h3_fref", "avz_h3_c0", "avz_h3_c1", "avz_h3_c2",
        "avz_h4_fref", "avz_h4_c0", "avz_h4_c1", "avz_h4_c2", "avz_h4_slope",
        "avz_f0",
        "avz_em_amp", "avz_em_tev", "avz_em_pow", "avz_em_mhz",
        "avz_had_amp", "avz_had_tev", "avz_had_pow", "avz_had_mhz",
        "avz_mef_ref", "avz_mef_c0", "avz_mef_c1", "avz_mef_c2", "avz_mef_c3",
        "avz_half"],
    ("ARZAskaryanSignal", "__init__"): [],
    ("ARZAskaryanSignal", "oncone_range"): ["arz_oncone_n1", "arz_oncone_n2"],
    ("ARZAskaryanSignal", "shower_signal"): ["arz_rac_step", "arz_t_tol"],
    ("ARZAskaryanSignal", "em_shower_RAC"): [
        "emrac_ns", "emrac_amp_pos", "emrac_tau_pos", "emrac_b_pos",
        "emrac_amp_neg", "emrac_tau_neg", "emrac_b_neg", "emrac_pow_neg"],
    ("ARZAskaryanSignal", "had_shower_RAC"): [
        "hadrac_ns", "hadrac_amp_pos", "hadrac_tau_pos", "hadrac_b_pos", "hadrac_pow_pos",
        "hadrac_amp_neg", "hadrac_tau_neg", "hadrac_b_neg", "hadrac_pow_neg"],
    ("ARZAskaryanSignal", "em_shower_profile"): [
        "emprof_density", "emprof_crit", "emprof_radlen", "emprof_amp", "emprof_age"],
    ("ARZAskaryanSignal", "had_shower_profile"): [
        "hadprof_density", "hadprof_crit", "hadprof_radlen", "hadprof_intlen", "hadprof_scale"],
    ("ARZAskaryanSignal", "max_length"): [
        "maxlen_density", "maxlen_crit", "maxlen_radlen", "maxlen_cm"],
}

# fingerprints of the placeholder-substituted source text the model was written against
# (`python askaryan_consts.py --record` prints fresh values when the model is deliberately re-written
# for a new source shape; `--show` prints the placeholder-substituted text)
SHAPES_RECORDED = {
    "ZHSAskaryanSignal.__init__": "f4b582b46fe7fcdadc8a70be",
    "AVZAskaryanSignal.__init__": "04db80f65fc999db97335776",
    "ARZAskaryanSignal.__init__": "59f8eed62d5ca9bd0ae1d78a",
    "ARZAskaryanSignal.oncone_range": "7fb007e34fd0a09461b7935a",
    "ARZAskaryanSignal.shower_signal": "6f66690437afade5ac1d2046",
    "ARZAskaryanSignal.em_shower_RAC": "5ef23a02e1bd014120ab4235",
    "ARZAskaryanSignal.had_shower_RAC": "6a581f6fd2c9271f45bf0b35",
    "ARZAskaryanSignal.em_shower_profile": "05ed210f06e77e5071488106",
    "ARZAskaryanSignal.had_shower_profile": "dff8c0af863435fd4b56835b",
    "ARZAskaryanSignal.max_length": "5a5247d6486a26d73988cf6a",
}


# literal values at the time the model was written (informative only: a difference is reported as a note in
# the evidence, never as a verdict - the twin follows the extracted values)
RECORDED_VALUES = {
    "zhs_nu0": 500000000.0,
    "zhs_amp": 1.1e-07,
    "zhs_q": 0.4,
    "zhs_mhz": 1e-06,
    "zhs_half": 0.5,
    "zhs_width_deg": 2.4,
    "avz_Elpm": 2000000000000000.0,
    "avz_em_width_deg": 2.7,
    "avz_em_fref": 500000000.0,
    "avz_lpm_a": 0.14,
    "avz_gev_to_ev": 1000000000.0,
    "avz_lpm_pow": 0.3,
    "avz_eps_ref": 1000.0,
    "avz_h1_fref": 500000000.0,
    "avz_h1_c0": 2.07,
    "avz_h1_c1": 0.33,
    "avz_h1_c2": 0.075,
    "avz_h2_fref": 500000000.0,
    "avz_h2_c0": 1.74,
    "avz_h2_c1": 0.0121,
    "avz_h3_fref": 500000000.0,
    "avz_h3_c0": 4.23,
    "avz_h3_c1": 0.785,
    "avz_h3_c2": 0.055,
    "avz_h4_fref": 500000000.0,
    "avz_h4_c0": 4.23,
    "avz_h4_c1": 0.785,
    "avz_h4_c2": 0.055,
    "avz_h4_slope": 0.075,
    "avz_f0": 1150000000.0,
    "avz_em_amp": 2.53e-07,
    "avz_em_tev": 1000.0,
    "avz_em_pow": 1.44,
    "avz_em_mhz": 1000000.0,
    "avz_had_amp": 2.53e-07,
    "avz_had_tev": 1000.0,
    "avz_had_pow": 1.44,
    "avz_had_mhz": 1000000.0,
    "avz_mef_ref": 1000.0,
    "avz_mef_c0": 0.0127,
    "avz_mef_c1": 0.0476,
    "avz_mef_c2": 0.00207,
    "avz_mef_c3": 0.52,
    "avz_half": 0.5,
    "arz_oncone_n1": 1.78,
    "arz_oncone_n2": 1.78,
    "arz_rac_step": 1e-11,
    "arz_t_tol": 1e-08,
    "emrac_ns": 1000000000.0,
    "emrac_amp_pos": 4.5e-17,
    "emrac_tau_pos": 0.057,
    "emrac_b_pos": 2.87,
    "emrac_amp_neg": 4.5e-17,
    "emrac_tau_neg": 0.03,
    "emrac_b_neg": 3.05,
    "emrac_pow_neg": 3.5,
    "hadrac_ns": 1000000000.0,
    "hadrac_amp_pos": 3.2e-17,
    "hadrac_tau_pos": 0.065,
    "hadrac_b_pos": 3.0,
    "hadrac_pow_pos": 2.65,
    "hadrac_amp_neg": 3.2e-17,
    "hadrac_tau_neg": 0.043,
    "hadrac_b_neg": 2.92,
    "hadrac_pow_neg": 3.21,
    "emprof_density": 0.92,
    "emprof_crit": 0.0786,
    "emprof_radlen": 36.08,
    "emprof_amp": 0.31,
    "emprof_age": 1.5,
    "hadprof_density": 0.92,
    "hadprof_crit": 0.17006,
    "hadprof_radlen": 39.562,
    "hadprof_intlen": 113.03,
    "hadprof_scale": 0.11842,
    "maxlen_density": 0.92,
    "maxlen_crit": 0.0786,
    "maxlen_radlen": 36.08,
    "maxlen_cm": 0.01,
}


def changed_constants(repo):
    """names of literals whose value differs from RECORDED_VALUES -> (recorded, now)"""
    out = {}
    for key, names in NAMES.items():
        h, consts, text = shapes_and_constants(repo)[key]
        for nm, c in zip(names, consts):
            if RECORDED_VALUES.get(nm) != c:
                out[nm] = (RECORDED_VALUES.get(nm), c)
    return out


class _Sub(ast.NodeTransformer):
    def __init__(self):
        self.consts = []

    def visit_Constant(self, node):
        if isinstance(node.value, float):
            self.consts.append(node.value)
            return ast.copy_location(ast.Name(id="__F%d" % (len(self.consts) - 1), ctx=ast.Load()), node)
        return node


def _strip_docstrings(node):
    for n in ast.walk(node):
        if isinstance(n, (ast.FunctionDef, ast.ClassDef)) and n.body:
            b = n.body[0]
            if isinstance(b, ast.Expr) and isinstance(b.value, ast.Constant) and isinstance(b.value.value, str):
                n.body = n.body[1:] or [ast.Pass()]
    return node


def _find(tree, cls, member):
    for n in tree.body:
        if isinstance(n, ast.ClassDef) and n.name == cls:
            for m in n.body:
                if isinstance(m, ast.FunctionDef) and m.name == member:
                    return m
                if (isinstance(m, ast.Assign) and len(m.targets) == 1
                        and isinstance(m.targets[0], ast.Name) and m.targets[0].id == member):
                    return m
    raise ValueError("askaryan.py: %s.%s not found" % (cls, member))


class _Cosmetic(ast.NodeTransformer):
    """removes what cannot change behaviour: `logger.<level>(...)` statements, the text of exception / warning
    messages (string literals inside `raise` statements and `warnings.warn` calls)"""
    def visit_Expr(self, node):
        v = node.value
        if (isinstance(v, ast.Call) and isinstance(v.func, ast.Attribute) and isinstance(v.func.value, ast.Name)
                and v.func.value.id == "logger"):
            return None
        return self.generic_visit(node)

    def _blank(self, node):
        for n in ast.walk(node):
            if isinstance(n, ast.Constant) and isinstance(n.value, str):
                n.value = ""
        return node

    def visit_Raise(self, node):
        return self._blank(node)

    def visit_Call(self, node):
        f = node.func
        if isinstance(f, ast.Attribute) and isinstance(f.value, ast.Name) and f.value.id == "warnings" and f.attr == "warn":
            return self._blank(node)
        return self.generic_visit(node)


def _alpha_rename(node):
    """names *bound* inside the function (parameters, assignment / loop / with targets, nested function names) are
    replaced by `_v0, _v1, ...` in order of first appearance in the source; globals, builtins, attributes and
    keyword names stay as they are.  Alpha-equivalent functions thereby get the same fingerprint, and any change of
    which variable is used where changes it."""
    bound = set()
    for n in ast.walk(node):
        if isinstance(n, ast.arg):
            bound.add(n.arg)
        elif isinstance(n, ast.Name) and isinstance(n.ctx, (ast.Store, ast.Del)):
            bound.add(n.id)
        elif isinstance(n, ast.FunctionDef) and n is not node:
            bound.add(n.name)
    bound.discard("self")
    order = {}

    class Ren(ast.NodeTransformer):
        def _new(self, name):
            if name in bound:
                if name not in order:
                    order[name] = "_v%d" % len(order)
                return order[name]
            return name

        def visit_FunctionDef(self, n):
            if n is not node:
                n.name = self._new(n.name)
            self.generic_visit(n)
            return n

        def visit_arg(self, n):
            n.arg = self._new(n.arg)
            return n

        def visit_Name(self, n):
            n.id = self._new(n.id)
            return n
    # a source-order pass first, so that the numbering does not depend on the field order of the AST classes
    for n in sorted((m for m in ast.walk(node) if isinstance(m, (ast.Name, ast.arg)) or
                     (isinstance(m, ast.FunctionDef) and m is not node)),
                    key=lambda m: (m.lineno, m.col_offset)):
        name = n.id if isinstance(n, ast.Name) else (n.arg if isinstance(n, ast.arg) else n.name)
        if name in bound and name not in order:
            order[name] = "_v%d" % len(order)
    return Ren().visit(node)


def shapes_and_constants(repo):
    path = os.path.join(repo, "pyrex", "askaryan.py")
    tree = ast.parse(open(path).read())
    out = {}
    for (cls, member), names in NAMES.items():
        node = _strip_docstrings(_find(tree, cls, member))
        sub = _Sub()
        node = sub.visit(node)
        if isinstance(node, ast.FunctionDef):
            node = _Cosmetic().visit(node)
            for n in ast.walk(node):       # a block emptied of its logger call
                for field in ("body", "orelse", "finalbody"):
                    if hasattr(n, field) and isinstance(getattr(n, field), list) and field == "body" and not getattr(n, field):
                        setattr(n, field, [ast.Pass()])
            node = _alpha_rename(node)
        text = ast.unparse(ast.fix_missing_locations(node))
        out[(cls, member)] = (hashlib.sha256(text.encode()).hexdigest()[:24], sub.consts, text)
    return out


def _lit(x):
    """Python float -> Lean scientific literal denoting exactly the decimal `repr(x)`"""
    if x != x or x in (float("inf"), float("-inf")) or x < 0:
        raise ValueError("unsupported literal %r" % (x,))
    s = repr(float(x))
    if "e" in s or "E" in s:
        m, e = s.lower().split("e")
        if "." not in m:
            m += ".0"
        return "%se%d" % (m, int(e))
    return s


def generate(repo):
    got = shapes_and_constants(repo)
    lines = ["/-! GENERATED by harness/extract/askaryan_consts.py from pyrex/askaryan.py - do not edit.",
             "Float literals of the Askaryan models, in source order, polymorphic in the scalar type. -/",
             "namespace PyrexGen.Askc"]
    for key, names in NAMES.items():
        h, consts, text = got[key]
        want = SHAPES_RECORDED.get("%s.%s" % key)
        if want != h:
            raise ValueError("askaryan.py: the code shape of %s.%s changed (fingerprint %s, model written "
                             "against %s); the Lean model must be re-validated against the new code"
                             % (key[0], key[1], h, want))
        if len(consts) != len(names):
            raise ValueError("askaryan.py: %s.%s has %d float literals, expected %d"
                             % (key[0], key[1], len(consts), len(names)))
        lines.append("-- %s.%s" % key)
        for nm, c in zip(names, consts):
            lines.append("def %s {α : Type} [OfScientific α] : α := %s" % (nm, _lit(c)))
    lines.append("end PyrexGen.Askc")
    return {"PyrexVerif/Gen/AskaryanConstants.lean": "\n".join(lines) + "\n"}


if __name__ == "__main__":
    import sys
    repo = os.environ.get("PYREX_REPO", "/repo")
    if "--record" in sys.argv:
        for k, (h, c, t) in shapes_and_constants(repo).items():
            print('    "%s.%s": "%s",' % (k[0], k[1], h))
    elif "--show" in sys.argv:
        for k, (h, c, t) in shapes_and_constants(repo).items():
            print("#", k, h, c)
            print(t)
    else:
        for rel, text in generate(repo).items():
            print(text)
