"""Shared helpers of the constant translators: Python numeric literals -> `PyrexGen.Dec` (`m * 10^e`).

Fail closed: anything that is not a plain (optionally signed) numeric literal, or whose decimal text
does not fit the exactly-representable window, raises `ExtractError`."""
import ast
from decimal import Decimal
from fractions import Fraction


class ExtractError(Exception):
    pass


def lit_text(src, node):
    seg = ast.get_source_segment(src, node)
    if seg is None:
        raise ExtractError("no source text for literal at line %d" % node.lineno)
    return seg


def dec_of_node(src, node, exact=True):
    """(m, e) of a numeric literal node, sign handled through UnaryOp(USub)."""
    sign = 1
    while isinstance(node, ast.UnaryOp) and isinstance(node.op, (ast.USub, ast.UAdd)):
        if isinstance(node.op, ast.USub):
            sign = -sign
        node = node.operand
    if not (isinstance(node, ast.Constant) and type(node.value) in (int, float)):
        raise ExtractError("not a numeric literal at line %d: %s" % (getattr(node, "lineno", -1), ast.dump(node)[:80]))
    text = lit_text(src, node).replace("_", "")
    try:
        d = Decimal(text)
    except Exception:
        raise ExtractError("cannot read literal %r" % text)
    t = d.as_tuple()
    m = int("".join(map(str, t.digits)) or "0") * (-1 if t.sign else 1)
    e = int(t.exponent)
    while m != 0 and m % 10 == 0:      # canonical: no trailing zeros in the mantissa
        m //= 10
        e += 1
    if m == 0:
        e = 0
    # an integer like 14 or 6371000 is kept as an integer mantissa when it is small enough
    while e > 0 and abs(m) * 10 < 2 ** 53:
        m *= 10
        e -= 1
    # exact=False: very small/large literals (1e-36 ...) are accepted; their Float reading
    # `m / 10^-e` is then within a few ulp instead of being the correctly rounded value
    if abs(m) >= 2 ** 53 or abs(e) > (22 if exact else 300):
        raise ExtractError("literal %r outside the exactly representable window" % text)
    val = Fraction(m) * Fraction(10) ** e
    if float(val) != float(node.value):
        raise ExtractError("literal %r: decimal reading %s differs from the parsed value %r" % (text, val, node.value))
    return (sign * m, e)


def dec_lean(me):
    m, e = me
    return "⟨%d, %d⟩" % (m, e)


def dec_float(me):
    m, e = me
    return float(Fraction(m) * Fraction(10) ** e)
