"""Translator: pyrex/earth_model.py -> lean/PyrexVerif/Gen/EarthConstants.lean

Reads, with `ast`, the class attributes `earth_radius`, `radii`, `densities` of `PREM` and
`CoreMantleCrustModel` and emits them as header-independent Lean data (decimal literals `m*10^e`,
shell bounds as written: literal / `earth_radius` / `earth_radius - lit` / `np.sqrt(lit)`,
density lambdas as coefficient lists of a polynomial in `x = r/earth_radius`).
Fails closed on every shape it does not understand."""
import ast
import os

from .declit import ExtractError, dec_of_node, dec_lean

REL = "PyrexVerif/Gen/EarthConstants.lean"


def _class(tree, name):
    for n in tree.body:
        if isinstance(n, ast.ClassDef) and n.name == name:
            return n
    raise ExtractError("class %s not found" % name)


def _assigns(cls):
    out = {}
    for n in cls.body:
        if isinstance(n, ast.Assign):
            if len(n.targets) != 1 or not isinstance(n.targets[0], ast.Name):
                raise ExtractError("unsupported assignment in %s line %d" % (cls.name, n.lineno))
            out[n.targets[0].id] = n.value
    return out


def _bound(src, node):
    if isinstance(node, ast.Name) and node.id == "earth_radius":
        return ".radius"
    if isinstance(node, ast.BinOp) and isinstance(node.op, ast.Sub) and isinstance(node.left, ast.Name) \
            and node.left.id == "earth_radius":
        return ".radiusMinus " + dec_lean(dec_of_node(src, node.right))
    if isinstance(node, ast.Call) and isinstance(node.func, ast.Attribute) and node.func.attr == "sqrt" \
            and isinstance(node.func.value, ast.Name) and node.func.value.id == "np" and len(node.args) == 1 \
            and not node.keywords:
        return ".sqrtLit " + dec_lean(dec_of_node(src, node.args[0]))
    return ".lit " + dec_lean(dec_of_node(src, node))


def _term(src, node, var):
    """-> (power, (m, e)) for  c | x | c*x | x**k | c*x**k  (c a literal)"""
    def power(n):
        if isinstance(n, ast.Name) and n.id == var:
            return 1
        if isinstance(n, ast.BinOp) and isinstance(n.op, ast.Pow) and isinstance(n.left, ast.Name) \
                and n.left.id == var and isinstance(n.right, ast.Constant) and type(n.right.value) is int \
                and 0 < n.right.value <= 6:
            return n.right.value
        return None
    p = power(node)
    if p is not None:
        return p, (1, 0)
    if isinstance(node, ast.BinOp) and isinstance(node.op, ast.Mult):
        p = power(node.right)
        if p is not None:
            return p, dec_of_node(src, node.left)
        raise ExtractError("unsupported product at line %d" % node.lineno)
    return 0, dec_of_node(src, node)


def _poly(src, node):
    """coefficient list of a density entry: a literal or `lambda x: <sum of terms>`"""
    if not isinstance(node, ast.Lambda):
        return [dec_of_node(src, node)]
    if len(node.args.args) != 1 or node.args.defaults or node.args.vararg or node.args.kwarg:
        raise ExtractError("density lambda must take exactly one argument (line %d)" % node.lineno)
    var = node.args.args[0].arg
    terms = []

    def walk(n, sign):
        if isinstance(n, ast.BinOp) and isinstance(n.op, (ast.Add, ast.Sub)):
            walk(n.left, sign)
            walk(n.right, sign if isinstance(n.op, ast.Add) else -sign)
        else:
            p, (m, e) = _term(src, n, var)
            terms.append((p, (sign * m, e)))
    walk(node.body, 1)
    deg = max(p for p, _ in terms)
    coeffs = [(0, 0)] * (deg + 1)
    seen = set()
    for p, c in terms:
        if p in seen:
            raise ExtractError("power %d appears twice in a density polynomial (line %d)" % (p, node.lineno))
        seen.add(p)
        coeffs[p] = c
    return coeffs


def _model(src, tree, name, parent=None):
    cls = _class(tree, name)
    for n in cls.body:
        if isinstance(n, (ast.FunctionDef, ast.AsyncFunctionDef)) and parent is not None:
            raise ExtractError("%s overrides method %s: not modelled" % (name, n.name))
    a = _assigns(cls)
    for k in ("earth_radius", "radii", "densities"):
        if k not in a:
            raise ExtractError("%s.%s missing" % (name, k))
    radius = dec_of_node(src, a["earth_radius"])
    if not isinstance(a["radii"], ast.Tuple) or not isinstance(a["densities"], ast.Tuple):
        raise ExtractError("%s.radii / densities must be tuples" % name)
    bounds = [_bound(src, n) for n in a["radii"].elts]
    polys = [_poly(src, n) for n in a["densities"].elts]
    if len(bounds) != len(polys):
        raise ExtractError("%s: %d radii for %d densities" % (name, len(bounds), len(polys)))
    return radius, bounds, polys


def _lean_model(name, radius, bounds, polys):
    s = "def %s : Model where\n  radius := %s\n" % (name, dec_lean(radius))
    s += "  bounds := [%s]\n" % ",\n             ".join(bounds)
    s += "  polys := [%s]\n" % ",\n            ".join("[" + ", ".join(dec_lean(c) for c in p) + "]" for p in polys)
    return s


def read(repo):
    path = os.path.join(repo, "pyrex", "earth_model.py")
    src = open(path).read()
    tree = ast.parse(src)
    prem = _model(src, tree, "PREM")
    cmc_cls = _class(tree, "CoreMantleCrustModel")
    if [getattr(b, "id", None) for b in cmc_cls.bases] != ["PREM"]:
        raise ExtractError("CoreMantleCrustModel no longer derives from PREM alone")
    cmc = _model(src, tree, "CoreMantleCrustModel", parent="PREM")
    return {"prem": prem, "coreMantleCrust": cmc}


def generate(repo):
    ms = read(repo)
    text = ("import PyrexVerif.Util.Dec\n"
            "/-! GENERATED by harness/extract/earth_consts.py from pyrex/earth_model.py - do not edit.\n"
            "`radii` and `densities` of the two shipped Earth models; polynomials in `x = r / earth_radius`\n"
            "as coefficient lists (x^0, x^1, ...). -/\n"
            "namespace PyrexGen.Earth\nopen PyrexGen\n\n"
            "/-- a shell boundary as it is written in the source -/\n"
            "inductive Bound\n  | lit (d : Dec)\n  | radius\n  | radiusMinus (d : Dec)\n  | sqrtLit (d : Dec)\n"
            "deriving Repr, DecidableEq\n\n"
            "structure Model where\n  radius : Dec\n  bounds : List Bound\n  polys : List (List Dec)\nderiving Repr\n\n")
    for k in ("prem", "coreMantleCrust"):
        text += _lean_model(k, *ms[k]) + "\n"
    text += "end PyrexGen.Earth\n"
    return {REL: text}
