"""Translator for C11 / C12: re-reads pyrex/io.py with `ast` and regenerates

  PyrexVerif/Gen/H5Steps.lean

* `addEventData`  the statement sequence of HDF5Writer._add_event_data: the preset, then every gated
                  `_write_*` call with the `_write_data` key and the `_trig_only` key of its gating test
* `includeAntennas` the keys of the `include_antennas` expression inside the trigger branch
* `addShape`      HDF5Writer.add: argument checks, the `try`, the shrink of /event_indices and the
                  re-raise in the `except` block, the increment of `_counters['indices']`
* `writerOps`     per `_write_*` method the bookkeeping operations in source order: counter increment,
                  `_check_trigger` call, `raise`, resize of axis 0 to the counter, `_write_indices`,
                  `total_thrown` update
* `presetKeys`    the keys `_preset_all_indices` visits (order of `_dataset_locations` minus the ones
                  `open` leaves out of `_counters`)
* `loadCut`       the statements of EventIterator._load_data that cut the loaded block into events
* `nextShape`     the statements of EventIterator.__next__
Only `ast` is used.  Fails closed: any statement shape it does not recognise raises ExtractError.
"""
import ast
import os


class ExtractError(Exception):
    pass


def lean_str(s):
    return '"' + s.replace("\\", "\\\\").replace('"', '\\"').replace("\n", "\\n") + '"'


def _self_sub(node, attr):
    """self.<attr>['key'] -> key"""
    if (isinstance(node, ast.Subscript) and isinstance(node.value, ast.Attribute)
            and isinstance(node.value.value, ast.Name) and node.value.value.id == "self"
            and node.value.attr == attr and isinstance(node.slice, ast.Constant)
            and isinstance(node.slice.value, str)):
        return node.slice.value
    return None


def _self_call(node):
    """self.name(...) -> name"""
    if (isinstance(node, ast.Call) and isinstance(node.func, ast.Attribute)
            and isinstance(node.func.value, ast.Name) and node.func.value.id == "self"):
        return node.func.attr
    return None


def _gate(test, where):
    """self._write_data[K] and (not self._trig_only[K2] or self._check_trigger(triggered)) -> (K, K2)"""
    if not (isinstance(test, ast.BoolOp) and isinstance(test.op, ast.And) and len(test.values) == 2):
        raise ExtractError("%s: gating test is not `a and (b or c)`: %s" % (where, ast.unparse(test)))
    k = _self_sub(test.values[0], "_write_data")
    o = test.values[1]
    if k is None or not (isinstance(o, ast.BoolOp) and isinstance(o.op, ast.Or) and len(o.values) == 2):
        raise ExtractError("%s: gating test not understood: %s" % (where, ast.unparse(test)))
    n, c = o.values
    k2 = _self_sub(n.operand, "_trig_only") if isinstance(n, ast.UnaryOp) and isinstance(n.op, ast.Not) else None
    if k2 is None or _self_call(c) != "_check_trigger" or ast.unparse(c.args[0] if c.args else c) != "triggered":
        raise ExtractError("%s: gating test not understood: %s" % (where, ast.unparse(test)))
    return k, k2


def _body(fn):
    b = fn.body
    if b and isinstance(b[0], ast.Expr) and isinstance(b[0].value, ast.Constant) and isinstance(b[0].value.value, str):
        b = b[1:]
    return b


def add_event_data(fn):
    steps, incl = [], None
    body = _body(fn)
    for i, st in enumerate(body):
        if isinstance(st, ast.Expr) and _self_call(st.value) == "_preset_all_indices":
            steps.append(("preset", "", ""))
        elif isinstance(st, ast.If) and not st.orelse:
            k, k2 = _gate(st.test, "_add_event_data")
            calls = []
            for s in st.body:
                if isinstance(s, ast.Expr) and (_self_call(s.value) or "").startswith("_write_"):
                    calls.append(_self_call(s.value))
                elif (isinstance(s, ast.Assign) and len(s.targets) == 1 and isinstance(s.targets[0], ast.Name)
                      and s.targets[0].id == "include_antennas"):
                    if incl is not None:
                        raise ExtractError("_add_event_data: include_antennas assigned twice")
                    incl = _gate(s.value, "include_antennas")
                else:
                    raise ExtractError("_add_event_data: statement not understood: " + ast.unparse(s))
            if len(calls) != 1:
                raise ExtractError("_add_event_data: a gated branch must call exactly one writer")
            steps.append((calls[0], k, k2))
        else:
            raise ExtractError("_add_event_data: statement not understood: " + ast.unparse(st))
    if incl is None:
        raise ExtractError("_add_event_data: include_antennas not found")
    return steps, incl


def _only_raises(st):
    if isinstance(st, ast.Raise):
        return True
    if isinstance(st, ast.If) and not st.orelse:
        return all(_only_raises(s) for s in st.body)
    return False


def add_shape(fn):
    out = []
    for st in _body(fn):
        if isinstance(st, ast.If) and _only_raises(st):
            if out and out[-1] != "pre:raise":
                raise ExtractError("add: argument check after the try block")
            if not out:
                out.append("pre:raise")
        elif isinstance(st, ast.Try):
            if st.orelse or st.finalbody or len(st.handlers) != 1:
                raise ExtractError("add: try statement shape not understood")
            if not (len(st.body) == 1 and isinstance(st.body[0], ast.Expr)
                    and _self_call(st.body[0].value) == "_add_event_data"):
                raise ExtractError("add: try body is not the single call of _add_event_data")
            out.append("try:_add_event_data")
            h = st.handlers[0]
            if ast.unparse(h.type) != "Exception" or h.name is not None:
                raise ExtractError("add: except clause is not `except Exception:`")
            for s in h.body:
                if isinstance(s, ast.Assign):
                    out.append("except:" + ast.unparse(s))
                elif isinstance(s, ast.If) and not s.orelse:
                    out.append("except:if " + ast.unparse(s.test) + ": " + "; ".join(ast.unparse(x) for x in s.body))
                elif isinstance(s, ast.Raise) and s.exc is None:
                    out.append("except:raise")
                else:
                    raise ExtractError("add: statement in except block not understood: " + ast.unparse(s))
        elif isinstance(st, ast.AugAssign) and isinstance(st.op, ast.Add) and _self_sub(st.target, "_counters"):
            out.append("inc:%s:%s" % (_self_sub(st.target, "_counters"), ast.unparse(st.value)))
        else:
            raise ExtractError("add: statement not understood: " + ast.unparse(st))
    return out


class _Ops(ast.NodeVisitor):
    """bookkeeping operations of one writer in source order"""

    def __init__(self, name):
        self.name, self.ops = name, []

    def push(self, tok):
        if not self.ops or self.ops[-1] != tok:
            self.ops.append(tok)

    def visit_AugAssign(self, node):
        k = _self_sub(node.target, "_counters")
        if k is not None:
            if not isinstance(node.op, ast.Add):
                raise ExtractError("%s: counter %s changed by something else than +=" % (self.name, k))
            self.push("inc:" + k)
        elif isinstance(node.target, ast.Subscript) and "total_thrown" in ast.unparse(node.target):
            self.push("thrown")
        self.generic_visit(node)

    def visit_Assign(self, node):
        for t in node.targets:
            if _self_sub(t, "_counters") is not None or ast.unparse(t) == "self._counters":
                raise ExtractError("%s: plain assignment to a counter" % self.name)
        self.generic_visit(node)

    def visit_Raise(self, node):
        self.push("raise")

    def visit_Call(self, node):
        n = _self_call(node)
        if n == "_check_trigger":
            self.push("check")
        elif n == "_write_indices":
            if not node.args or _self_sub(node.args[0], "_data_locs") is None:
                raise ExtractError("%s: _write_indices target not understood" % self.name)
            self.push("idx:" + _self_sub(node.args[0], "_data_locs"))
        elif n is not None and n.startswith("_write_") and n not in ("_write_metadata", "_write_indices"):
            raise ExtractError("%s: nested writer call %s" % (self.name, n))
        elif isinstance(node.func, ast.Attribute) and node.func.attr == "resize":
            axis = [k for k in node.keywords if k.arg == "axis"]
            if len(axis) != 1 or not isinstance(axis[0].value, ast.Constant):
                raise ExtractError("%s: resize without a literal axis" % self.name)
            if axis[0].value.value == 0:
                k = _self_sub(node.args[0], "_counters") if node.args else None
                if k is None:
                    raise ExtractError("%s: axis-0 resize to something else than a counter" % self.name)
                self.push("resize:" + k)
        self.generic_visit(node)

    def visit_Try(self, node):
        # `try: attrs['total_thrown'] += n / except KeyError: attrs['total_thrown'] = n`
        for s in node.body:
            self.visit(s)


def writer_ops(fn):
    v = _Ops(fn.name)
    for st in _body(fn):
        v.visit(st)
    return v.ops


def preset_keys(cls_base, cls_writer):
    locs = None
    for st in _body(cls_base["_dataset_locations"]):
        if isinstance(st, ast.Assign) and isinstance(st.targets[0], ast.Subscript) \
                and ast.unparse(st.targets[0].value) == "locations":
            locs = (locs or []) + [st.targets[0].slice.value]
    if not locs:
        raise ExtractError("_dataset_locations: no locations found")
    # the two places where `open` builds `_counters` must leave out the same keys
    skips = []
    for node in ast.walk(cls_writer["open"]):
        if isinstance(node, ast.Compare) and len(node.ops) == 1 and isinstance(node.ops[0], (ast.In, ast.NotIn)) \
                and ast.unparse(node.left) == "key" and isinstance(node.comparators[0], ast.List):
            skips.append(sorted(e.value for e in node.comparators[0].elts))
    if len(skips) != 2 or skips[0] != skips[1]:
        raise ExtractError("open: the key filter of _counters not understood: %r" % (skips,))
    pre = _body(cls_writer["_preset_all_indices"])
    want = ("for key, count in self._counters.items():\n    if key == 'indices':\n        continue\n"
            "    self._write_indices(self._data_locs[key], count, 0)")
    if len(pre) != 1 or ast.unparse(pre[0]) != want:
        raise ExtractError("_preset_all_indices: body not understood")
    return [k for k in locs if k not in skips[0] and k != "indices"]


def load_cut(fn):
    """the statements under `if index>=0:` in _load_data"""
    for node in ast.walk(fn):
        if isinstance(node, ast.If) and ast.unparse(node.test) == "index >= 0":
            return [ast.unparse(s) for s in node.body]
    raise ExtractError("_load_data: `if index>=0:` not found")


def methods(tree, cname):
    for node in tree.body:
        if isinstance(node, ast.ClassDef) and node.name == cname:
            return {f.name: f for f in node.body if isinstance(f, ast.FunctionDef)}
    raise ExtractError("class %s not found" % cname)


def generate(repo):
    src = open(os.path.join(repo, "pyrex", "io.py")).read()
    tree = ast.parse(src)
    w = methods(tree, "HDF5Writer")
    it = methods(tree, "EventIterator")
    base = methods(tree, "HDF5Base")
    steps, incl = add_event_data(w["_add_event_data"])
    shape = add_shape(w["add"])
    wops = [(name, writer_ops(w[name])) for name, _, _ in steps if name != "preset"]
    pk = preset_keys(base, w)
    cut = load_cut(it["_load_data"])
    nxt = [ast.unparse(s) for s in _body(it["__next__"])]
    L = ["/-! GENERATED by harness/extract/h5_steps.py from pyrex/io.py - do not edit. -/", "namespace H5Gen", ""]
    L.append("def addEventData : List (String × String × String) := [")
    L.append(",\n".join("  (%s, %s, %s)" % tuple(map(lean_str, s)) for s in steps) + "]")
    L.append("")
    L.append("def includeAntennas : String × String := (%s, %s)" % tuple(map(lean_str, incl)))
    L.append("")
    L.append("def addShape : List String := [\n" + ",\n".join("  " + lean_str(s) for s in shape) + "]")
    L.append("")
    L.append("def writerOps : List (String × List String) := [")
    L.append(",\n".join("  (%s, [%s])" % (lean_str(n), ", ".join(map(lean_str, o))) for n, o in wops) + "]")
    L.append("")
    L.append("def presetKeys : List String := [%s]" % ", ".join(map(lean_str, pk)))
    L.append("")
    L.append("def loadCut : List String := [\n" + ",\n".join("  " + lean_str(s) for s in cut) + "]")
    L.append("")
    L.append("def nextShape : List String := [\n" + ",\n".join("  " + lean_str(s) for s in nxt) + "]")
    L += ["", "end H5Gen", ""]
    return {"PyrexVerif/Gen/H5Steps.lean": "\n".join(L)}


if __name__ == "__main__":
    import sys
    for k, v in generate(sys.argv[1] if len(sys.argv) > 1 else "/repo").items():
        print(v)
