"""Translator: pyrex/particle.py -> lean/PyrexVerif/Gen/InteractionConstants.lean

For every modelled method of `Interaction`, `GQRSInteraction`, `CTWInteraction` and `Event` the AST is
*masked* (docstrings dropped; numeric literals that are the right-hand side of a simple assignment, and
all float literals, replaced by a placeholder) and its hash compared with the shape the hand-written
model in `twin/Interaction.body` / `D/EventTree.lean` was written against: any structural change fails
closed ("model must be revisited").  The masked-out literals, in source order, are emitted as the
coefficient tables the theorems are proved about (header-independent `PyrexGen.Dec` literals).
Avogadro's number is read from the installed `scipy.constants` (it is not a literal of the source)."""
import ast
import hashlib
import os

from .declit import ExtractError, dec_of_node, dec_lean

REL = "PyrexVerif/Gen/InteractionConstants.lean"

# masked shapes the model was written against (sha1 of ast.dump, first 16 hex digits)
SHAPES = {
    ("Interaction", "__init__"): "368eb31de83daad4",
    ("Interaction", "total_interaction_length"): "e7af786420f8e7da",
    ("Interaction", "interaction_length"): "26dfd1ddbb436171",
    ("GQRSInteraction", "choose_interaction"): "55f63fc43c7efaf9",
    ("GQRSInteraction", "choose_inelasticity"): "6cd68f24e62c2145",
    ("GQRSInteraction", "choose_shower_fractions"): "0ca731a76874858e",
    ("GQRSInteraction", "_choose_secondary_fractions"): "b6d7f2a61d793a2b",
    ("GQRSInteraction", "total_cross_section"): "59783170e4d3cb60",
    ("GQRSInteraction", "cross_section"): "7504cefc175beace",
    ("CTWInteraction", "choose_interaction"): "90fe98ac84525cc4",
    ("CTWInteraction", "choose_inelasticity"): "fa0b3220adb48d7c",
    ("CTWInteraction", "total_cross_section"): "a36839c9d70cab22",
    ("CTWInteraction", "cross_section"): "8ee097173548521c",
    # Event.__init__ / get_from_level: shapes after F24 (the event keeps its own copy of the roots list and hands out a
    # copy at level 0) - the model's `roots` is a value, i.e. owned by the event
    ("Event", "__init__"): "e49f7e902c06a1de",
    ("Event", "add_children"): "ca50ad9bb82317ff",
    ("Event", "get_children"): "e98754e0ed7dc464",
    ("Event", "get_parent"): "079998510df6f3ea",
    ("Event", "get_from_level"): "0481d5d02f76f917",
    ("Event", "__iter__"): "b712e9313da1cba6",
    ("Event", "__len__"): "f05bb9e762580f42",
}


def _strip(n):
    while isinstance(n, ast.UnaryOp) and isinstance(n.op, (ast.USub, ast.UAdd)):
        n = n.operand
    return n


def _is_num(n):
    n = _strip(n)
    return isinstance(n, ast.Constant) and type(n.value) in (int, float)


def _is_float(n):
    n = _strip(n)
    return isinstance(n, ast.Constant) and type(n.value) is float


class Mask(ast.NodeTransformer):
    def __init__(self, src):
        self.src = src
        self.lits = []

    def _lit(self, name, node):
        self.lits.append((name, dec_of_node(self.src, node, exact=False)))
        return ast.Name(id="LIT", ctx=ast.Load())

    def visit_Assign(self, n):
        if len(n.targets) == 1 and isinstance(n.targets[0], ast.Name) and _is_num(n.value):
            return ast.Assign(targets=n.targets, value=self._lit(n.targets[0].id, n.value))
        return self.generic_visit(n)

    def visit_UnaryOp(self, n):
        if _is_float(n):
            return self._lit(None, n)
        return self.generic_visit(n)

    def visit_Constant(self, n):
        if type(n.value) is float:
            return self._lit(None, n)
        return n

    def visit_Expr(self, n):
        if isinstance(n.value, ast.Constant) and isinstance(n.value.value, str):
            return None
        return self.generic_visit(n)


def masked(src, func):
    m = Mask(src)
    g = m.visit(func)
    return hashlib.sha1(ast.dump(g).encode()).hexdigest()[:16], m.lits


def read(repo):
    path = os.path.join(repo, "pyrex", "particle.py")
    src = open(path).read()
    tree = ast.parse(src)
    lits = {}
    seen = set()
    for cls in tree.body:
        if not isinstance(cls, ast.ClassDef):
            continue
        for f in cls.body:
            if isinstance(f, ast.FunctionDef) and (cls.name, f.name) in SHAPES:
                key = (cls.name, f.name)
                if key in seen:          # property getter/setter pairs are not among the modelled names
                    raise ExtractError("%s.%s defined twice" % key)
                seen.add(key)
                h, ls = masked(src, f)
                if h != SHAPES[key]:
                    raise ExtractError("%s.%s changed shape (masked AST %s, model written against %s): "
                                       "the Lean model must be revisited" % (cls.name, f.name, h, SHAPES[key]))
                lits[key] = ls
        if cls.name == "CTWInteraction":
            if [getattr(b, "id", None) for b in cls.bases] != ["GQRSInteraction"]:
                raise ExtractError("CTWInteraction no longer derives from GQRSInteraction")
            extra = {f.name for f in cls.body if isinstance(f, ast.FunctionDef)} - {k[1] for k in SHAPES if k[0] == "CTWInteraction"}
            if extra:
                raise ExtractError("CTWInteraction overrides unmodelled methods %s" % sorted(extra))
        if cls.name == "GQRSInteraction":
            vals = [n.value for n in cls.body if isinstance(n, ast.Assign)
                    and getattr(n.targets[0], "id", None) == "include_secondaries"]
            if len(vals) != 1 or not (isinstance(vals[0], ast.Constant) and vals[0].value is True):
                raise ExtractError("GQRSInteraction.include_secondaries default is not True")
    missing = set(SHAPES) - seen
    if missing:
        raise ExtractError("modelled methods missing from particle.py: %s" % sorted(missing))
    default = [n for n in tree.body if isinstance(n, ast.Assign) and getattr(n.targets[0], "id", None) == "NeutrinoInteraction"]
    if len(default) != 1 or getattr(default[0].value, "id", None) != "CTWInteraction":
        raise ExtractError("the default interaction model is no longer CTWInteraction")
    return lits


def _names(ls, want, what):
    if [n for n, _ in ls] != want:
        raise ExtractError("%s: literal sequence %s, expected %s" % (what, [n for n, _ in ls], want))
    return [d for _, d in ls]


def tables(lits):
    t = {}
    t["gqrsCcProb"] = _names(lits[("GQRSInteraction", "choose_interaction")], [None], "GQRS.choose_interaction")
    t["gqrsYExp"] = _names(lits[("GQRSInteraction", "choose_inelasticity")], [None], "GQRS.choose_inelasticity")
    g = _names(lits[("GQRSInteraction", "total_cross_section")], ["coeff", "power"] * 2, "GQRS.total_cross_section")
    t["gqrsTotalNu"], t["gqrsTotalNubar"] = g[0:2], g[2:4]
    g = _names(lits[("GQRSInteraction", "cross_section")], ["coeff", "power"] * 4, "GQRS.cross_section")
    t["gqrsNuCc"], t["gqrsNuNc"], t["gqrsNubarCc"], t["gqrsNubarNc"] = g[0:2], g[2:4], g[4:6], g[6:8]
    s = _names(lits[("GQRSInteraction", "_choose_secondary_fractions")], ["em_max", "had_max", None, None],
               "GQRS._choose_secondary_fractions")
    t["tauDecay"] = s[2:4]
    t["ctwD"] = _names(lits[("CTWInteraction", "choose_interaction")], ["d_0", "d_1", "d_2"], "CTW.choose_interaction")
    a = _names(lits[("CTWInteraction", "choose_inelasticity")],
               [None, None, None] + ["a_0", "a_1", "a_2", "a_3"] * 4 + [None, None, "y_min", "y_max", "y_min", "y_max"],
               "CTW.choose_inelasticity")
    t["ctwLowProb"] = a[0:3]
    t["ctwALow"], t["ctwACcNu"], t["ctwACcNubar"], t["ctwANc"] = a[3:7], a[7:11], a[11:15], a[15:19]
    t["ctwC2"] = a[19:21]
    t["ctwYLow"], t["ctwYHigh"] = a[21:23], a[23:25]
    c = _names(lits[("CTWInteraction", "cross_section")], ["c_0", "c_1", "c_2", "c_3", "c_4"] * 4, "CTW.cross_section")
    t["ctwNuCc"], t["ctwNuNc"], t["ctwNubarCc"], t["ctwNubarNc"] = c[0:5], c[5:10], c[10:15], c[15:20]
    names = [x for k in range(5) for x in ("c_%d_cc" % k, "c_%d_nc" % k)]
    c = _names(lits[("CTWInteraction", "total_cross_section")], names * 2, "CTW.total_cross_section")
    t["ctwTotalNuCc"], t["ctwTotalNuNc"] = c[0:10:2], c[1:10:2]
    t["ctwTotalNubarCc"], t["ctwTotalNubarNc"] = c[10:20:2], c[11:20:2]
    return t


def avogadro():
    import scipy.constants
    from decimal import Decimal
    v = scipy.constants.N_A
    d = Decimal(repr(float(v)))
    tup = d.as_tuple()
    m = int("".join(map(str, tup.digits)))
    e = int(tup.exponent)
    while e > 0 and m * 10 < 2 ** 53:
        m *= 10
        e -= 1
    if m >= 2 ** 53 or abs(e) > 22 or float(m) * 10.0 ** e != float(v):
        raise ExtractError("cannot represent scipy.constants.N_A = %r exactly" % v)
    return (m, e)


def generate(repo):
    t = tables(read(repo))
    text = ("import PyrexVerif.Util.Dec\n"
            "/-! GENERATED by harness/extract/interaction_consts.py from pyrex/particle.py - do not edit.\n"
            "Coefficient tables of GQRSInteraction / CTWInteraction in source order; `avogadro` from the installed\n"
            "scipy.constants. -/\nnamespace PyrexGen.Interaction\nopen PyrexGen\n\n")
    for k in sorted(t):
        text += "def %s : List Dec := [%s]\n" % (k, ", ".join(dec_lean(d) for d in t[k]))
    text += "def avogadro : Dec := %s\n" % dec_lean(avogadro())
    text += "\nend PyrexGen.Interaction\n"
    return {REL: text}
