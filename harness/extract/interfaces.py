"""Translator for C10: regenerates lean/PyrexVerif/Gen/Interfaces.lean from the source tree.

* the signature (parameter list) of the method each call site of `EventKernel.event` reaches, for every
  shipped class that can be plugged in there: `__init__` of every ray tracer and Askaryan signal class,
  `propagate` of every ray path class, `receive` of every antenna / antenna system, `create_event` of
  every generator, `add` of every writer, `index` of every ice model;
* the call sites themselves: number of positional arguments and the keyword set passed in
  `pyrex/kernel.py`.

Only `ast` is used (nothing is imported or executed).  Fails closed: a call in `event` on one of the
kernel's collaborators that is not in the table below, a starred argument, a decorated method, an
unresolvable base class on the way to a method, or an empty role raise an error.
"""
import ast
import os
import warnings

ROLES = {
    # role: (method, how a class qualifies)
    "tracerInit": "__init__",
    "pathPropagate": "propagate",
    "signalInit": "__init__",
    "generatorCreate": "create_event",
    "antennaReceive": "receive",
    "writerAdd": "add",
    "iceIndex": "index",
}

# call sites of EventKernel.event: (chain of attribute names from a root name) -> (role, call name)
SITES = {
    ("self", "ray_tracer"): "tracerInit",
    ("self", "signal_model"): "signalInit",
    ("path", "propagate"): "pathPropagate",
    ("ant", "receive"): "antennaReceive",
    ("self", "gen", "create_event"): "generatorCreate",
    ("self", "writer", "add"): "writerAdd",
    ("self", "ice", "index"): "iceIndex",
}
# calls on the kernel's own objects that are not interface calls
IGNORED = {("self", "triggers"), ("self", "triggers", "items")}
ROOTS = {"self", "path", "ant", "rt", "particle", "event"}

EXPECTED = {
    "tracerInit": ["BasicRayTracer", "SpecializedRayTracer", "UniformRayTracer", "LayeredRayTracer"],
    "pathPropagate": ["BasicRayTracePath", "SpecializedRayTracePath", "UniformRayTracePath", "LayeredRayTracePath"],
    "signalInit": ["ZHSAskaryanSignal", "AVZAskaryanSignal", "ARZAskaryanSignal"],
    "generatorCreate": ["CylindricalGenerator", "RectangularGenerator", "ListGenerator", "FileGenerator"],
    "antennaReceive": ["Antenna", "DipoleAntenna", "AntennaSystem"],
    "writerAdd": ["HDF5Writer"],
    "iceIndex": ["AntarcticIce", "UniformIce", "LayeredIce"],
}


class ExtractError(Exception):
    pass


def dotted(node):
    parts = []
    while isinstance(node, ast.Attribute):
        parts.append(node.attr)
        node = node.value
    if isinstance(node, ast.Name):
        parts.append(node.id)
        return tuple(reversed(parts))
    return None


def load_package(repo):
    """module name -> dict(classes, imports, aliases)"""
    root = os.path.join(repo, "pyrex")
    mods = {}
    for d, dirs, files in os.walk(root):
        dirs[:] = sorted(x for x in dirs if x not in ("__pycache__", "tests", "data"))
        for f in sorted(files):
            if not f.endswith(".py"):
                continue
            path = os.path.join(d, f)
            rel = os.path.relpath(path, repo)[:-3].replace(os.sep, ".")
            if rel.endswith(".__init__"):
                rel = rel[:-9]
            with warnings.catch_warnings():
                warnings.simplefilter("ignore")
                tree = ast.parse(open(path).read(), filename=path)
            pkg = rel if f == "__init__.py" else rel.rsplit(".", 1)[0]
            classes, imports, aliases = {}, {}, {}
            for node in tree.body:
                if isinstance(node, ast.ClassDef):
                    classes[node.name] = node
                elif isinstance(node, ast.ImportFrom):
                    base = node.module or ""
                    if node.level:
                        up = pkg.split(".")
                        up = up[:len(up) - (node.level - 1)]
                        base = ".".join(up + ([node.module] if node.module else []))
                    for a in node.names:
                        imports[a.asname or a.name] = (base, a.name)
                elif isinstance(node, ast.Import):
                    for a in node.names:
                        imports[(a.asname or a.name).split(".")[0]] = (a.name, None)
                elif isinstance(node, ast.Assign) and len(node.targets) == 1 \
                        and isinstance(node.targets[0], ast.Name) and isinstance(node.value, ast.Name):
                    aliases[node.targets[0].id] = node.value.id
            mods[rel] = {"classes": classes, "imports": imports, "aliases": aliases, "path": path}
    return mods


class Resolver:
    def __init__(self, mods):
        self.mods = mods

    def resolve(self, mod, name, depth=0):
        """-> (module, class name) or None for something outside the package"""
        if depth > 10:
            raise ExtractError("alias/import cycle at %s.%s" % (mod, name))
        m = self.mods.get(mod)
        if m is None:
            return None
        if name in m["classes"]:
            return (mod, name)
        if name in m["aliases"]:
            return self.resolve(mod, m["aliases"][name], depth + 1)
        if name in m["imports"]:
            base, orig = m["imports"][name]
            if orig is None:
                return None
            if base in self.mods:
                return self.resolve(base, orig, depth + 1)
            return None
        return None

    def bases(self, key):
        mod, name = key
        node = self.mods[mod]["classes"][name]
        out = []
        for b in node.bases:
            d = dotted(b)
            if d is None:
                raise ExtractError("base class expression of %s.%s not understood" % key)
            if len(d) == 1:
                r = self.resolve(mod, d[0])
            else:  # module.Class
                imp = self.mods[mod]["imports"].get(d[0])
                r = None
                if imp and imp[1] is None and ".".join((imp[0],) + d[1:-1]) in self.mods:
                    r = self.resolve(".".join((imp[0],) + d[1:-1]), d[-1])
                elif imp and imp[1] is not None and (imp[0] + "." + imp[1]) in self.mods:
                    r = self.resolve(imp[0] + "." + imp[1], d[-1])
            out.append(r if r is not None else ("<external>", ".".join(d)))
        return out

    def mro(self, key):
        if key[0] == "<external>":
            return [key]
        bs = self.bases(key)
        seqs = [self.mro(b) for b in bs] + [list(bs)]
        res = [key]
        while True:
            seqs = [s for s in seqs if s]
            if not seqs:
                return res
            for s in seqs:
                cand = s[0]
                if not any(cand in t[1:] for t in seqs):
                    break
            else:
                raise ExtractError("inconsistent MRO for %s.%s" % key)
            res.append(cand)
            for s in seqs:
                if s[0] == cand:
                    del s[0]

    def method(self, key, name):
        """the FunctionDef `name` resolves to for class `key`; None when it is inherited from outside"""
        for k in self.mro(key):
            if k[0] == "<external>":
                return None, k
            for node in self.mods[k[0]]["classes"][k[1]].body:
                if isinstance(node, (ast.FunctionDef, ast.AsyncFunctionDef)) and node.name == name:
                    return node, k
        return None, None


def signature(fn, owner, cls):
    if fn.decorator_list:
        raise ExtractError("%s.%s is decorated; signature not understood" % (owner[1], fn.name))
    a = fn.args
    params = [x.arg for x in a.posonlyargs + a.args]
    if not params or params[0] != "self":
        raise ExtractError("%s.%s has no self parameter" % (owner[1], fn.name))
    params = params[1:]
    required = len(params) - len(a.defaults)
    if required < 0:
        raise ExtractError("defaults cover self in %s.%s" % (owner[1], fn.name))
    kwonly = [x.arg for x in a.kwonlyargs]
    kwreq = [x.arg for x, d in zip(a.kwonlyargs, a.kw_defaults) if d is None]
    return {"cls": cls, "method": fn.name, "params": params, "required": required, "kwonly": kwonly,
            "kwreq": kwreq, "varargs": a.vararg is not None, "varkw": a.kwarg is not None,
            "posonly": len(a.posonlyargs)}


def qualifies(role, key, res):
    mod, name = key
    if role == "tracerInit":
        return name.endswith("RayTracer")
    if role == "pathPropagate":
        return name.endswith("RayTracePath")
    if role == "signalInit":
        return name.endswith("AskaryanSignal")
    meth = ROLES[role]
    fn, owner = res.method(key, meth)
    if fn is None:
        return False
    if role == "writerAdd":
        return mod == "pyrex.io" and name.endswith("Writer")
    if role == "iceIndex":
        return mod.endswith("ice_model")
    return True


def call_sites(mods):
    k = mods.get("pyrex.kernel")
    if k is None or "EventKernel" not in k["classes"]:
        raise ExtractError("pyrex/kernel.py: class EventKernel not found")
    ev = [n for n in k["classes"]["EventKernel"].body if isinstance(n, ast.FunctionDef) and n.name == "event"]
    if len(ev) != 1:
        raise ExtractError("EventKernel.event not found")
    sites = []
    for node in ast.walk(ev[0]):
        if not isinstance(node, ast.Call):
            continue
        d = dotted(node.func)
        if d is None or d[0] not in ROOTS:
            continue
        if d in IGNORED:
            continue
        if d not in SITES:
            raise ExtractError("kernel.event line %d: call on %s is not a known interface call" % (node.lineno, ".".join(d)))
        if any(isinstance(a, ast.Starred) for a in node.args) or any(kw.arg is None for kw in node.keywords):
            raise ExtractError("kernel.event line %d: starred arguments in %s" % (node.lineno, ".".join(d)))
        sites.append({"role": SITES[d], "site": "%s@%d" % (".".join(d), node.lineno),
                      "npos": len(node.args), "kws": [kw.arg for kw in node.keywords], "line": node.lineno})
    seen = {s["role"] for s in sites}
    for role in ROLES:
        if role not in seen:
            raise ExtractError("kernel.event no longer contains a call for role %s" % role)
    return sorted(sites, key=lambda s: (s["line"], s["role"]))


def table(repo):
    mods = load_package(repo)
    res = Resolver(mods)
    out = {r: [] for r in ROLES}
    for mod in sorted(mods):
        for name in sorted(mods[mod]["classes"]):
            key = (mod, name)
            for role, meth in ROLES.items():
                if not qualifies(role, key, res):
                    continue
                fn, owner = res.method(key, meth)
                if fn is None:
                    if owner is not None:
                        raise ExtractError("%s.%s: %s is inherited from %s outside the package" % (mod, name, meth, owner[1]))
                    raise ExtractError("%s.%s has no %s" % (mod, name, meth))
                label = name if sum(1 for m in mods if name in mods[m]["classes"]) == 1 else mod.split("pyrex.", 1)[-1] + "." + name
                out[role].append(signature(fn, owner, label))
    for role, names in EXPECTED.items():
        have = {s["cls"].split(".")[-1] for s in out[role]}
        for n in names:
            if n not in have:
                raise ExtractError("shipped class %s not found for role %s" % (n, role))
    aliases = []
    for mod in ("pyrex.ray_tracing", "pyrex.askaryan"):
        for a, t in sorted(mods[mod]["aliases"].items()):
            aliases.append((a, t))
    return out, call_sites(mods), aliases


def lstr(xs):
    return "[" + ", ".join('"%s"' % x for x in xs) + "]"


def lean_bool(b):
    return "true" if b else "false"


def generate(repo):
    sigs, sites, aliases = table(repo)
    L = ["import PyrexVerif.D.Kernel",
         "/-! GENERATED by harness/extract/interfaces.py from pyrex/**/*.py — do not edit.",
         "Signatures of the methods `EventKernel.event` calls on its pluggable collaborators, and the call sites. -/",
         "namespace Kern.Gen", ""]
    for role in ROLES:
        L.append("def %s : List Sig := [" % role)
        rows = []
        for s in sigs[role]:
            rows.append('  ⟨"%s", "%s", %s, %d, %s, %s, %s, %s⟩' % (
                s["cls"], s["method"], lstr(s["params"]), s["required"], lstr(s["kwonly"]), lstr(s["kwreq"]),
                lean_bool(s["varargs"]), lean_bool(s["varkw"])))
        L.append(",\n".join(rows))
        L.append("]")
        L.append("")
    L.append("/-- the call sites in `pyrex/kernel.py`, `EventKernel.event`: (role, call) -/")
    L.append("def calls : List (String × Call) := [")
    L.append(",\n".join('  ("%s", ⟨"%s", %d, %s⟩)' % (s["role"], s["site"].split("@")[0], s["npos"], lstr(s["kws"]))
                        for s in sites))
    L.append("]")
    L.append("")
    L.append("def roles : List (String × List Sig) := [")
    L.append(",\n".join('  ("%s", %s)' % (r, r) for r in ROLES))
    L.append("]")
    L.append("")
    L.append("/-- module-level default aliases (`RayTracer = …`, `AskaryanSignal = …`) -/")
    L.append("def aliases : List (String × String) := [" + ", ".join('("%s", "%s")' % a for a in aliases) + "]")
    L.append("")
    L.append("end Kern.Gen")
    return {"PyrexVerif/Gen/Interfaces.lean": "\n".join(L) + "\n"}


if __name__ == "__main__":
    import sys
    for k, v in generate(sys.argv[1] if len(sys.argv) > 1 else "/repo").items():
        print(v)
