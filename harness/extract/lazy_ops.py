"""Translator for C06: re-reads the pyrex sources with `ast` and regenerates

  PyrexVerif/Gen/LazyOps.lean   per-method effect table of every class derived from LazyMutableClass
                                (which self attributes are assigned, which are mutated in place, where
                                self._clear_cache() is called, which lazy properties are read)
  PyrexVerif/Gen/LazyDeps.lean  per class: constructor static attributes, public class-level names,
                                the clearing set, and for every lazy property the attributes its body
                                reads (transitively through plain properties and methods; other lazy
                                properties are cut points)

It fails closed: a statement that stores to / deletes / dynamically accesses an attribute of `self` in a
shape it does not understand raises ExtractError (reported as a broken obligation by the check).

Soundness conventions (all conservative for the `safe` analysis on the Lean side):
  * `self._clear_cache()` only counts when it is an unconditional top-level statement of the method
    (or of an inlined callee); inside if/for/while/try/with it is ignored;
  * assignments, in-place mutations and lazy reads inside branches and loops count as if always executed,
    in source order;
  * `self.m(...)` is inlined (recursion is cut); a local name bound to `self.X`, `self.X[...]` or
    iterating over `self.X` is an alias of X, and subscript stores / mutator-method calls / augmented
    assignments through it are in-place mutations of X;
  * a local name bound to `self.copy()` or to a constructor call of a scanned class is a second tracked
    object; its effects are emitted as a separate table entry `method@name`.
"""
import ast
import os

MUTATORS = {"append", "extend", "clear", "insert", "pop", "sort", "remove", "reverse", "update", "add",
            "discard", "setdefault", "popitem", "fill", "resize", "put", "itemset", "partition", "setfield",
            "__setitem__", "__delitem__", "__iadd__", "__imul__"}
INPLACE_FUNCS = {"shuffle", "copyto", "put", "place", "putmask", "put_along_axis", "fill_diagonal"}
BASE = "LazyMutableClass"


class ExtractError(Exception):
    pass


def lean_str(s):
    return '"' + s.replace("\\", "\\\\").replace('"', '\\"') + '"'


def lean_list(xs):
    return "[" + ", ".join(xs) + "]"


# ------------------------------------------------------------------------------------------------
class ClassInfo:
    def __init__(self, name, module, node):
        self.name, self.module, self.node = name, module, node
        self.bases = []
        for b in node.bases:
            if isinstance(b, ast.Name):
                self.bases.append(b.id)
            elif isinstance(b, ast.Attribute):
                self.bases.append(b.attr)
            else:
                raise ExtractError("%s: base class expression not understood" % name)
        self.funcs = {}       # name -> FunctionDef (most recent definition, incl. property getters)
        self.kinds = {}       # name -> 'lazy' | 'property' | 'setter' | 'method' | 'static' | 'class'
        self.setters = {}     # property name -> FunctionDef of the setter
        self.class_attrs = {}  # class-level assignments: name -> value node
        for st in node.body:
            if isinstance(st, (ast.FunctionDef, ast.AsyncFunctionDef)):
                kind = "method"
                for d in st.decorator_list:
                    dn = d.id if isinstance(d, ast.Name) else (d.attr if isinstance(d, ast.Attribute) else None)
                    if dn == "lazy_property":
                        kind = "lazy"
                    elif dn == "property":
                        kind = "property"
                    elif dn == "setter":
                        kind = "setter"
                    elif dn == "staticmethod":
                        kind = "static"
                    elif dn == "classmethod":
                        kind = "class"
                if kind == "setter":
                    self.setters[st.name] = st
                else:
                    self.funcs[st.name] = st
                    self.kinds[st.name] = kind
            elif isinstance(st, ast.Assign):
                for t in st.targets:
                    if isinstance(t, ast.Name):
                        self.class_attrs[t.id] = st.value
            elif isinstance(st, ast.AnnAssign) and isinstance(st.target, ast.Name):
                self.class_attrs[st.target.id] = st.value
            elif isinstance(st, ast.ClassDef):
                self.class_attrs[st.name] = st


def scan(repo):
    classes = {}
    root = os.path.join(repo, "pyrex")
    for dp, dn, fn in sorted(os.walk(root)):
        dn.sort()
        for f in sorted(fn):
            if not f.endswith(".py"):
                continue
            path = os.path.join(dp, f)
            mod = os.path.relpath(path, repo)[:-3].replace(os.sep, ".")
            tree = ast.parse(open(path).read(), path)
            for node in tree.body:
                if isinstance(node, ast.ClassDef):
                    key = node.name
                    if key in classes:       # same class name in two modules: qualify the later one
                        key = mod.split(".")[-2] + "_" + node.name if mod.count(".") > 1 else mod + "_" + node.name
                    classes[key] = ClassInfo(key, mod, node)
    return classes


def mro(classes, name, seen=()):
    """C3 linearisation over the scanned classes (unknown bases such as `object`/`Enum` are leaves)"""
    if name not in classes:
        return [name]
    if name in seen:
        raise ExtractError("inheritance cycle at " + name)
    c = classes[name]
    seqs = [mro(classes, b, seen + (name,)) for b in c.bases] + [list(c.bases)]
    res = [name]
    seqs = [s for s in seqs if s]
    while seqs:
        for s in seqs:
            head = s[0]
            if not any(head in t[1:] for t in seqs):
                break
        else:
            raise ExtractError("inconsistent MRO for " + name)
        res.append(head)
        seqs = [[x for x in s if x != head] for s in seqs]
        seqs = [s for s in seqs if s]
    return res


class View:
    """a class as seen through its MRO"""

    def __init__(self, classes, name):
        self.classes, self.name = classes, name
        self.mro = [m for m in mro(classes, name) if m in classes]
        self.funcs, self.kinds, self.owner, self.setters, self.class_attrs = {}, {}, {}, {}, {}
        for m in reversed(self.mro):
            c = classes[m]
            for k, v in c.funcs.items():
                self.funcs[k], self.kinds[k], self.owner[k] = v, c.kinds[k], m
            self.setters.update(c.setters)
            for k in c.setters:
                self.owner.setdefault(k + ".setter", m)
            self.class_attrs.update(c.class_attrs)

    def lazy(self):
        return sorted(k for k, v in self.kinds.items() if v == "lazy")

    def class_public(self):
        names = set(self.funcs) | set(self.class_attrs) | set(self.setters)
        return sorted(n for n in names if not n.startswith("_"))


def self_name(fn, kind):
    if kind in ("static",) or not fn.args.args:
        return None
    return fn.args.args[0].arg


# ------------------------------------------------------------------------------------------------
# static attributes of the constructor chain
def root_attr(node, owners):
    """-> (owner name, attr, depth) when `node` is owner.attr wrapped in subscripts/attributes"""
    depth = 0
    while True:
        if isinstance(node, ast.Attribute) and isinstance(node.value, ast.Name) and node.value.id in owners:
            return node.value.id, node.attr, depth
        if isinstance(node, (ast.Subscript, ast.Attribute, ast.Starred)):
            node = node.value
            depth += 1
            continue
        return None


def assigned_attrs(stmts, me):
    """public/private names X with a plain `me.X = ...` anywhere in the statements (source order)"""
    out = []

    def target(t):
        if isinstance(t, (ast.Tuple, ast.List)):
            for e in t.elts:
                target(e)
        elif isinstance(t, ast.Attribute) and isinstance(t.value, ast.Name) and t.value.id == me:
            if t.attr not in out:
                out.append(t.attr)
    for st in stmts:
        for n in ast.walk(st):
            if isinstance(n, ast.Assign):
                for t in n.targets:
                    target(t)
            elif isinstance(n, (ast.AugAssign, ast.AnnAssign)):
                target(n.target)
    return out


def is_super_init(st):
    """`super().__init__(...)` statement -> the Call node"""
    if isinstance(st, ast.Expr) and isinstance(st.value, ast.Call):
        f = st.value.func
        if (isinstance(f, ast.Attribute) and f.attr == "__init__" and isinstance(f.value, ast.Call)
                and isinstance(f.value.func, ast.Name) and f.value.func.id == "super"):
            return st.value
    return None


def static_attrs(classes, name):
    """the list LazyMutableClass.__init__ stores in `_static_attrs` for an instance of `name`"""
    chain = [m for m in mro(classes, name) if m in classes]
    collected = []
    i = 0
    # find the first class in the MRO that defines __init__
    while i < len(chain):
        c = classes[chain[i]]
        if "__init__" not in c.funcs:
            i += 1
            continue
        if chain[i] == BASE:
            return [a for a in collected if not a.startswith("_")]
        fn = c.funcs["__init__"]
        me = fn.args.args[0].arg
        # locate super().__init__ calls anywhere in the body
        calls = []
        for st in ast.walk(fn):
            if isinstance(st, ast.Expr) and is_super_init(st):
                calls.append(st)
        if not calls:
            raise ExtractError("%s.__init__ never calls super().__init__" % chain[i])
        results = None
        for call_st in calls:
            call = is_super_init(call_st)
            before = [s for s in ast.walk(fn) if isinstance(s, ast.stmt) and
                      (s.lineno, s.col_offset) < (call_st.lineno, call_st.col_offset)]
            here = collected + [a for a in assigned_attrs(before, me) if a not in collected]
            # which __init__ does it reach?
            j = i + 1
            while j < len(chain) and "__init__" not in classes[chain[j]].funcs:
                j += 1
            if j >= len(chain):
                raise ExtractError("%s: super().__init__ reaches no scanned class" % chain[i])
            if chain[j] == BASE:
                kw = {k.arg: k.value for k in call.keywords}
                arg = kw.get("static_attributes", call.args[0] if call.args else None)
                if arg is None or (isinstance(arg, ast.Constant) and arg.value is None):
                    r = [a for a in here if not a.startswith("_")]
                elif isinstance(arg, (ast.List, ast.Tuple)) and all(isinstance(e, ast.Constant) and isinstance(e.value, str) for e in arg.elts):
                    r = [e.value for e in arg.elts]
                else:
                    raise ExtractError("%s: static_attributes is not a literal list" % chain[i])
            else:
                sub = dict(classes)
                r = _static_from(classes, chain, j, here)
            if results is not None and results != r:
                raise ExtractError("%s: different static attribute lists on different paths" % chain[i])
            results = r
        return results
    raise ExtractError("%s: no constructor found" % name)


def _static_from(classes, chain, i, collected):
    """continue the constructor chain at chain[i] with the attributes collected so far"""
    c = classes[chain[i]]
    fn = c.funcs["__init__"]
    me = fn.args.args[0].arg
    calls = [st for st in ast.walk(fn) if isinstance(st, ast.Expr) and is_super_init(st)]
    if len(calls) != 1:
        raise ExtractError("%s.__init__: expected exactly one super().__init__ call" % chain[i])
    call_st = calls[0]
    call = is_super_init(call_st)
    before = [s for s in ast.walk(fn) if isinstance(s, ast.stmt) and
              (s.lineno, s.col_offset) < (call_st.lineno, call_st.col_offset)]
    here = collected + [a for a in assigned_attrs(before, me) if a not in collected]
    j = i + 1
    while j < len(chain) and "__init__" not in classes[chain[j]].funcs:
        j += 1
    if j >= len(chain):
        raise ExtractError("%s: super().__init__ reaches no scanned class" % chain[i])
    if chain[j] == BASE:
        kw = {k.arg: k.value for k in call.keywords}
        arg = kw.get("static_attributes", call.args[0] if call.args else None)
        if arg is None or (isinstance(arg, ast.Constant) and arg.value is None):
            return [a for a in here if not a.startswith("_")]
        if isinstance(arg, (ast.List, ast.Tuple)) and all(isinstance(e, ast.Constant) and isinstance(e.value, str) for e in arg.elts):
            return [e.value for e in arg.elts]
        raise ExtractError("%s: static_attributes is not a literal list" % chain[i])
    return _static_from(classes, chain, j, here)


# ------------------------------------------------------------------------------------------------
# does LazyMutableClass.__setattr__ clear on static names / on public class-level names?
def setattr_shape(classes):
    if BASE not in classes or "__setattr__" not in classes[BASE].funcs:
        raise ExtractError("LazyMutableClass.__setattr__ not found")
    fn = classes[BASE].funcs["__setattr__"]
    src = ast.dump(fn)
    body = [s for s in fn.body if not (isinstance(s, ast.Expr) and isinstance(s.value, ast.Constant))]
    if len(body) != 2 or not isinstance(body[0], ast.If) or not isinstance(body[1], ast.Expr):
        raise ExtractError("LazyMutableClass.__setattr__: unexpected statement shape")
    test_node = body[0].test
    # one level of a private helper: `if self._helper(name):` with `def _helper(self, name): return <test>`
    if (isinstance(test_node, ast.Call) and isinstance(test_node.func, ast.Attribute)
            and isinstance(test_node.func.value, ast.Name) and test_node.func.value.id == fn.args.args[0].arg
            and test_node.func.attr in classes[BASE].funcs and len(test_node.args) == 1 and not test_node.keywords
            and isinstance(test_node.args[0], ast.Name) and test_node.args[0].id == fn.args.args[1].arg):
        helper = classes[BASE].funcs[test_node.func.attr]
        hbody = [s for s in helper.body if not (isinstance(s, ast.Expr) and isinstance(s.value, ast.Constant))]
        if (len(hbody) == 1 and isinstance(hbody[0], ast.Return) and hbody[0].value is not None
                and [a.arg for a in helper.args.args] == [fn.args.args[0].arg, fn.args.args[1].arg]):
            test_node = hbody[0].value
    test = ast.dump(test_node)
    inner = [s for s in body[0].body if not (isinstance(s, ast.Expr) and isinstance(s.value, ast.Constant))]
    unconditional = (len(inner) == 1 and isinstance(inner[0], ast.Expr) and isinstance(inner[0].value, ast.Call)
                     and isinstance(inner[0].value.func, ast.Attribute) and inner[0].value.func.attr == "_clear_cache"
                     and isinstance(inner[0].value.func.value, ast.Name) and inner[0].value.func.value.id == fn.args.args[0].arg
                     and not inner[0].value.args and not inner[0].value.keywords)
    if not unconditional or body[0].orelse:
        # the model's `assign` clears on the attribute NAME whatever the value is (also when the very same
        # object is assigned back after an in-place edit); any further condition on the clear is not modelled
        raise ExtractError("LazyMutableClass.__setattr__: the name test must guard exactly one unconditional "
                           "`self._clear_cache()` (the clear may not depend on the assigned value)")
    static_clears = "_static_attrs" in test and "In()" in test
    class_clears = ("hasattr" in test and "startswith" in test and "type" in test)
    if not static_clears:
        raise ExtractError("LazyMutableClass.__setattr__: test does not mention `name in self._static_attrs`")
    # the real assignment must follow
    if "__setattr__" not in ast.dump(body[1]):
        raise ExtractError("LazyMutableClass.__setattr__: missing super().__setattr__")
    # LazyMutableClass.__init__ must store the list it is given (or, for None, the public names of __dict__):
    #   if static_attributes is None: self._static_attrs = [attr for attr in self.__dict__ if not attr.startswith("_")]
    #   else:                         self._static_attrs = static_attributes
    init = classes[BASE].funcs.get("__init__")
    if init is None:
        raise ExtractError("LazyMutableClass.__init__ not found")
    ibody = [s for s in init.body if not (isinstance(s, ast.Expr) and isinstance(s.value, ast.Constant))]
    ok_init = (len(ibody) == 1 and isinstance(ibody[0], ast.If) and len(ibody[0].body) == 1 and len(ibody[0].orelse) == 1
               and isinstance(ibody[0].test, ast.Compare) and isinstance(ibody[0].test.left, ast.Name)
               and ibody[0].test.left.id == "static_attributes" and isinstance(ibody[0].test.ops[0], ast.Is)
               and isinstance(ibody[0].test.comparators[0], ast.Constant) and ibody[0].test.comparators[0].value is None)
    if ok_init:
        a_none, a_given = ibody[0].body[0], ibody[0].orelse[0]
        ok_init = (isinstance(a_none, ast.Assign) and isinstance(a_given, ast.Assign)
                   and ast.dump(a_none.targets[0]) == ast.dump(a_given.targets[0])
                   and isinstance(a_given.targets[0], ast.Attribute) and a_given.targets[0].attr == "_static_attrs"
                   and isinstance(a_given.value, ast.Name) and a_given.value.id == "static_attributes"
                   and isinstance(a_none.value, ast.ListComp) and "__dict__" in ast.dump(a_none.value)
                   and "startswith" in ast.dump(a_none.value))
    if not ok_init:
        raise ExtractError("LazyMutableClass.__init__: unexpected shape (the static attribute list must be the "
                           "given one, or the public names of __dict__ when none is given)")
    # _clear_cache must delete every _lazy_ attribute
    cc = classes[BASE].funcs.get("_clear_cache")
    if cc is None or "_lazy_" not in ast.dump(cc) or "delattr" not in ast.dump(cc):
        raise ExtractError("LazyMutableClass._clear_cache: unexpected shape")
    return class_clears


# ------------------------------------------------------------------------------------------------
# effects of a function body
class Effects:
    def __init__(self, view, fname, tracked_ctor_names):
        self.view = view
        self.fname = fname
        self.ctor_names = tracked_ctor_names
        self.out = {}       # object var -> list of effect tuples
        self.stack = []
        self.namesets = {}  # loop variable -> attribute name currently bound (unrolled loops over name tuples)

    def emit(self, obj, eff):
        self.out.setdefault(obj, []).append(eff)

    def run(self, fn, kind, me=None, top=True, rename=None):
        """walk `fn`; `me` = name of the tracked object inside fn (self); rename maps it to the outer
        object variable when inlining"""
        me = me or self_name(fn, kind)
        if me is None:
            return
        key = (fn.name, fn.lineno)
        if key in self.stack:
            return          # recursion: effects already accounted for once
        self.stack.append(key)
        owners = {me: rename or me}
        aliases = {}        # local name -> (owner var, attr)
        self.block(fn.body, owners, aliases, top)
        self.stack.pop()

    # -- statements
    def block(self, stmts, owners, aliases, top):
        for st in stmts:
            self.stmt(st, owners, aliases, top)

    def stmt(self, st, owners, aliases, top):
        if isinstance(st, (ast.FunctionDef, ast.AsyncFunctionDef, ast.Lambda, ast.ClassDef)):
            # nested function: its reads happen later; stores to self inside closures are not understood
            for n in ast.walk(st):
                if isinstance(n, (ast.Assign, ast.AugAssign, ast.Delete)):
                    for t in (n.targets if isinstance(n, (ast.Assign, ast.Delete)) else [n.target]):
                        if root_attr(t, owners):
                            raise ExtractError("%s.%s: closure stores to an attribute of self" % (self.view.name, self.fname))
            self.expr(st, owners, aliases)
            return
        if isinstance(st, ast.Assign):
            self.expr(st.value, owners, aliases)
            for t in st.targets:
                self.store(t, owners, aliases, st.value)
            return
        if isinstance(st, ast.AnnAssign):
            if st.value is not None:
                self.expr(st.value, owners, aliases)
                self.store(st.target, owners, aliases, st.value)
            return
        if isinstance(st, ast.AugAssign):
            self.expr(st.value, owners, aliases)
            t = st.target
            r = root_attr(t, owners)
            if r:
                o, a, depth = r
                self.expr(t, owners, aliases)       # the old value is read
                self.emit(owners[o], ("assign" if depth == 0 else "mutate", a))
            elif isinstance(t, ast.Name) and t.id in aliases:
                self.emit(aliases[t.id][0], ("mutate", aliases[t.id][1]))     # `alias += x` may work in place
            elif isinstance(t, (ast.Subscript, ast.Attribute)):
                self.store(t, owners, aliases, None)
            return
        if isinstance(st, ast.Delete):
            for t in st.targets:
                r = root_attr(t, owners)
                if r:
                    if r[2] == 0:
                        raise ExtractError("%s.%s: `del self.%s`" % (self.view.name, self.fname, r[1]))
                    self.emit(owners[r[0]], ("mutate", r[1]))
                else:
                    self.store(t, owners, aliases, None)
            return
        if isinstance(st, ast.Expr):
            self.expr(st.value, owners, aliases, top=top)
            return
        if isinstance(st, (ast.Return, ast.Raise, ast.Assert)):
            for n in ast.iter_child_nodes(st):
                self.expr(n, owners, aliases)
            return
        if isinstance(st, ast.If):
            self.expr(st.test, owners, aliases)
            self.block(st.body, owners, aliases, False)
            self.block(st.orelse, owners, aliases, False)
            return
        if isinstance(st, (ast.For, ast.AsyncFor)):
            # `for attr in self.<class-level tuple of attribute names>`: unroll (getattr/setattr with `attr`)
            names = self.name_tuple(st.iter, owners)
            if names is not None and isinstance(st.target, ast.Name):
                for nm in names:
                    self.namesets[st.target.id] = nm
                    self.block(st.body, owners, aliases, False)
                self.namesets.pop(st.target.id, None)
                self.block(st.orelse, owners, aliases, False)
                return
            self.expr(st.iter, owners, aliases)
            src = self.alias_source(st.iter, owners, aliases)
            for n in ast.walk(st.target):
                if isinstance(n, ast.Name):
                    if src:
                        aliases[n.id] = src
                    else:
                        aliases.pop(n.id, None)
                elif root_attr(n, owners) and isinstance(n, (ast.Attribute, ast.Subscript)):
                    raise ExtractError("%s.%s: loop target is an attribute of self" % (self.view.name, self.fname))
            self.block(st.body, owners, aliases, False)
            self.block(st.body, owners, aliases, False)      # second pass: effects of iteration n+1 after n
            self.block(st.orelse, owners, aliases, False)
            return
        if isinstance(st, ast.While):
            self.expr(st.test, owners, aliases)
            self.block(st.body, owners, aliases, False)
            self.expr(st.test, owners, aliases)
            self.block(st.body, owners, aliases, False)
            self.block(st.orelse, owners, aliases, False)
            return
        if isinstance(st, ast.Try):
            self.block(st.body, owners, aliases, False)
            for h in st.handlers:
                self.block(h.body, owners, aliases, False)
            self.block(st.orelse, owners, aliases, False)
            self.block(st.finalbody, owners, aliases, False)
            return
        if isinstance(st, (ast.With, ast.AsyncWith)):
            for it in st.items:
                self.expr(it.context_expr, owners, aliases)
                if it.optional_vars is not None:
                    if root_attr(it.optional_vars, owners):
                        raise ExtractError("%s.%s: `with ... as self.x`" % (self.view.name, self.fname))
            self.block(st.body, owners, aliases, False)
            return
        if isinstance(st, (ast.Pass, ast.Break, ast.Continue, ast.Import, ast.ImportFrom, ast.Global, ast.Nonlocal)):
            return
        raise ExtractError("%s.%s: statement %s not understood" % (self.view.name, self.fname, type(st).__name__))

    def name_tuple(self, e, owners):
        """`self.X` / `cls.X` where X is a class-level literal tuple/list of strings -> the strings"""
        if isinstance(e, ast.Attribute) and isinstance(e.value, ast.Name) and e.value.id in owners:
            v = self.view.class_attrs.get(e.attr)
            if isinstance(v, (ast.Tuple, ast.List)) and v.elts and all(
                    isinstance(x, ast.Constant) and isinstance(x.value, str) for x in v.elts):
                return [x.value for x in v.elts]
        return None

    def dyn_name(self, node):
        """second argument of getattr/setattr: a string constant, or a loop variable bound by name_tuple"""
        if isinstance(node, ast.Constant) and isinstance(node.value, str):
            return node.value
        if isinstance(node, ast.Name) and node.id in self.namesets:
            return self.namesets[node.id]
        return None

    def alias_source(self, e, owners, aliases):
        if (isinstance(e, ast.Call) and isinstance(e.func, ast.Name) and e.func.id == "getattr" and len(e.args) >= 2
                and isinstance(e.args[0], ast.Name) and e.args[0].id in owners and self.dyn_name(e.args[1])):
            nm = self.dyn_name(e.args[1])
            if self.view.kinds.get(nm) in ("method", "static", "class"):
                return None
            return (owners[e.args[0].id], nm)
        """-> (object var, attr) when `e` evaluates to (an element / a view of) an attribute of a tracked object"""
        if isinstance(e, ast.Call) and isinstance(e.func, ast.Name) and e.func.id in ("enumerate", "zip", "reversed", "iter", "list", "sorted", "tuple"):
            for a in e.args:
                s = self.alias_source(a, owners, aliases)
                if s and e.func.id not in ("list", "sorted", "tuple") or (s and e.func.id in ("list", "sorted", "tuple")):
                    return s        # list(self.X) copies the outer list but its elements are still shared
            return None
        r = root_attr(e, owners)
        if r:
            if self.view.kinds.get(r[1]) in ("method", "static", "class"):
                return None
            return (owners[r[0]], r[1])
        if isinstance(e, ast.Name) and e.id in aliases:
            return aliases[e.id]
        if isinstance(e, (ast.Subscript, ast.Starred)):
            return self.alias_source(e.value, owners, aliases)
        if isinstance(e, ast.IfExp):
            return self.alias_source(e.body, owners, aliases) or self.alias_source(e.orelse, owners, aliases)
        return None

    def new_object(self, value, owners):
        """is `value` an expression creating a fresh tracked object? -> True/False"""
        if isinstance(value, ast.Call):
            f = value.func
            if isinstance(f, ast.Attribute) and f.attr == "copy" and isinstance(f.value, ast.Name) and f.value.id in owners:
                return True
            if isinstance(f, ast.Name) and f.id in self.ctor_names:
                return True
        return False

    def store(self, t, owners, aliases, value):
        if isinstance(t, (ast.Tuple, ast.List)):
            for e in t.elts:
                self.store(e, owners, aliases, None)
            return
        if isinstance(t, ast.Starred):
            self.store(t.value, owners, aliases, None)
            return
        r = root_attr(t, owners)
        if r:
            o, a, depth = r
            if depth == 0:
                self.emit(owners[o], ("assign", a))
            else:
                self.emit(owners[o], ("mutate", a))
            return
        if isinstance(t, ast.Name):
            aliases.pop(t.id, None)
            owners.pop(t.id, None) if t.id in owners and owners[t.id] != t.id else None
            if value is not None:
                if self.new_object(value, owners):
                    owners[t.id] = t.id           # a second tracked object
                    self.out.setdefault(t.id, [])
                else:
                    src = self.alias_source(value, owners, aliases)
                    if src:
                        aliases[t.id] = src
            return
        if isinstance(t, (ast.Subscript, ast.Attribute)):
            # store through a local alias?
            base = t
            while isinstance(base, (ast.Subscript, ast.Attribute)):
                base = base.value
            if isinstance(base, ast.Name) and base.id in aliases:
                self.emit(aliases[base.id][0], ("mutate", aliases[base.id][1]))
            self.expr(t.value, owners, aliases)
            return
        raise ExtractError("%s.%s: assignment target %s not understood" % (self.view.name, self.fname, type(t).__name__))

    # -- expressions (reads of lazy properties, calls)
    def expr(self, e, owners, aliases, top=False):
        if e is None:
            return
        for n in self.walk_expr(e):
            if isinstance(n, ast.Call):
                self.call(n, owners, aliases, top and n is e)
            elif isinstance(n, ast.Attribute) and isinstance(n.value, ast.Name) and n.value.id in owners:
                k = self.view.kinds.get(n.attr)
                if k == "lazy" and isinstance(n.ctx, ast.Load):
                    self.emit(owners[n.value.id], ("read", n.attr))
                elif k == "property" and isinstance(n.ctx, ast.Load):
                    self.inline(n.attr, owners[n.value.id])
                if n.attr in ("__dict__", "__setattr__", "__delattr__") and n.value.id in owners:
                    raise ExtractError("%s.%s: direct use of self.%s" % (self.view.name, self.fname, n.attr))
            elif isinstance(n, ast.NamedExpr):
                raise ExtractError("%s.%s: walrus assignment" % (self.view.name, self.fname))

    def walk_expr(self, e):
        # pre-order, left to right
        todo = [e]
        while todo:
            n = todo.pop(0)
            yield n
            todo = list(ast.iter_child_nodes(n)) + todo

    def inline(self, name, objvar):
        fn = self.view.funcs.get(name)
        if fn is None:
            return
        kind = self.view.kinds[name]
        if kind == "static":
            return
        sub_me = self_name(fn, kind)
        if sub_me is None:
            return
        key = (fn.name, fn.lineno)
        if key in self.stack:
            return
        self.stack.append(key)
        self.block(fn.body, {sub_me: objvar}, {}, True if kind != "class" else False)
        self.stack.pop()

    def call(self, c, owners, aliases, top):
        f = c.func
        # setattr/getattr/delattr/vars on a tracked object
        if isinstance(f, ast.Name) and f.id == "setattr" and len(c.args) == 3 and isinstance(c.args[0], ast.Name) \
                and c.args[0].id in owners and self.dyn_name(c.args[1]):
            self.emit(owners[c.args[0].id], ("assign", self.dyn_name(c.args[1])))      # goes through __setattr__
            return
        if isinstance(f, ast.Name) and f.id in ("setattr", "delattr", "vars") and c.args and isinstance(c.args[0], ast.Name) and c.args[0].id in owners:
            raise ExtractError("%s.%s: %s(self, ...)" % (self.view.name, self.fname, f.id))
        if isinstance(f, ast.Name) and f.id == "getattr" and c.args and isinstance(c.args[0], ast.Name) and c.args[0].id in owners:
            if len(c.args) < 2 or not self.dyn_name(c.args[1]):
                raise ExtractError("%s.%s: getattr(self, <dynamic>)" % (self.view.name, self.fname))
            if self.view.kinds.get(self.dyn_name(c.args[1])) == "lazy":
                self.emit(owners[c.args[0].id], ("read", self.dyn_name(c.args[1])))
        # in-place library functions applied to an attribute or alias
        fname = f.attr if isinstance(f, ast.Attribute) else (f.id if isinstance(f, ast.Name) else None)
        if fname in INPLACE_FUNCS and c.args:
            s = self.alias_source(c.args[0], owners, aliases)
            if s:
                self.emit(s[0], ("mutate", s[1]))
        for kw in c.keywords:
            if kw.arg == "out":
                s = self.alias_source(kw.value, owners, aliases)
                if s:
                    self.emit(s[0], ("mutate", s[1]))
        if isinstance(f, ast.Attribute):
            # self.m(...)
            if isinstance(f.value, ast.Name) and f.value.id in owners:
                obj = owners[f.value.id]
                if f.attr == "_clear_cache":
                    if top:
                        self.emit(obj, ("clear",))
                    return
                if self.view.kinds.get(f.attr) in ("method", "class"):
                    fn = self.view.funcs[f.attr]
                    key = (fn.name, fn.lineno)
                    if key not in self.stack:
                        self.stack.append(key)
                        self.block(fn.body, {fn.args.args[0].arg: obj}, {}, top)
                        self.stack.pop()
                return
            # self.X.append(...), alias.append(...)
            if f.attr in MUTATORS:
                s = self.alias_source(f.value, owners, aliases)
                if s:
                    self.emit(s[0], ("mutate", s[1]))


# ------------------------------------------------------------------------------------------------
# dependencies of lazy properties
def ctor_param_reads(classes, cname, index):
    """attributes read from positional parameter `index` (0 = first after self) of cname.__init__"""
    v = View(classes, cname)
    fn = v.funcs.get("__init__")
    if fn is None or len(fn.args.args) <= index + 1:
        raise ExtractError("%s.__init__: cannot follow `self` passed as argument %d" % (cname, index))
    p = fn.args.args[index + 1].arg
    out = []
    for n in ast.walk(fn):
        if isinstance(n, ast.Attribute) and isinstance(n.value, ast.Name) and n.value.id == p:
            if n.attr not in out:
                out.append(n.attr)
        elif isinstance(n, ast.Call):
            for a in list(n.args) + [k.value for k in n.keywords]:
                if isinstance(a, ast.Name) and a.id == p:
                    raise ExtractError("%s.__init__: parameter object escapes" % cname)
    return out


def deps_of(classes, view, pname):
    """-> (attribute deps, lazy deps) of lazy property `pname`, transitively through plain properties/methods"""
    attrs, lazies, seen = [], [], set()

    def visit(fn, kind):
        key = (fn.name, fn.lineno)
        if key in seen:
            return
        seen.add(key)
        me = self_name(fn, kind)
        if me is None:
            return
        for n in ast.walk(fn):
            if isinstance(n, ast.Call):
                f = n.func
                if isinstance(f, ast.Name) and f.id in ("getattr", "vars") and n.args and isinstance(n.args[0], ast.Name) and n.args[0].id == me:
                    if f.id == "vars" or len(n.args) < 2 or not isinstance(n.args[1], ast.Constant):
                        raise ExtractError("%s.%s: dynamic attribute access on self" % (view.name, fn.name))
                    use(n.args[1].value)
                args = list(n.args) + [k.value for k in n.keywords]
                for idx, a in enumerate(args):
                    if isinstance(a, ast.Name) and a.id == me:
                        # `self` escapes into a call: only constructor calls of scanned classes are followed
                        target = None
                        if isinstance(f, ast.Attribute) and isinstance(f.value, ast.Name) and f.value.id == me:
                            ca = view.class_attrs.get(f.attr)
                            if isinstance(ca, ast.Name) and ca.id in classes:
                                target = ca.id
                            elif isinstance(ca, ast.Dict) or f.attr in view.funcs:
                                target = None
                        elif isinstance(f, ast.Name) and f.id in classes:
                            target = f.id
                        if target is None:
                            if isinstance(f, ast.Name) and f.id in ("isinstance", "type", "id", "len", "repr", "str", "super"):
                                continue
                            raise ExtractError("%s.%s: `self` is passed to a call that cannot be followed"
                                               % (view.name, fn.name))
                        if idx >= len(n.args):
                            raise ExtractError("%s.%s: `self` passed by keyword" % (view.name, fn.name))
                        for a2 in ctor_param_reads(classes, target, idx):
                            use(a2)
            if isinstance(n, ast.Attribute) and isinstance(n.value, ast.Name) and n.value.id == me:
                if n.attr == "__dict__":
                    raise ExtractError("%s.%s: self.__dict__" % (view.name, fn.name))
                use(n.attr)

    def use(a):
        k = view.kinds.get(a)
        if k == "lazy":
            if a != pname and a not in lazies:
                lazies.append(a)
        elif k in ("property", "method", "class"):
            visit(view.funcs[a], k)
        elif k == "static":
            pass
        else:
            if a not in attrs and a not in ("_clear_cache", "_static_attrs", "__class__"):
                attrs.append(a)
    visit(view.funcs[pname], "lazy")
    return sorted(attrs), sorted(lazies)


# ------------------------------------------------------------------------------------------------
def lazy_property_shape(repo):
    """`lazy_property` must evaluate BEFORE it stores: the getter is
         if not hasattr(self, <name>): setattr(self, <name>, <fn>(self))
         return getattr(self, <name>)
    (identifiers are free) - nothing may be written to the instance before `fn(self)` has returned, so that a
    raising evaluation leaves the cache as it was (model: `Lazy.failedRead`)"""
    path = os.path.join(repo, "pyrex", "internal_functions.py")
    tree = ast.parse(open(path).read(), path)
    lp = next((n for n in tree.body if isinstance(n, ast.FunctionDef) and n.name == "lazy_property"), None)
    if lp is None or len(lp.args.args) != 1:
        raise ExtractError("lazy_property not found")
    fn_name = lp.args.args[0].arg
    getters = [n for n in lp.body if isinstance(n, ast.FunctionDef)]
    if len(getters) != 1 or len(getters[0].args.args) != 1:
        raise ExtractError("lazy_property: expected exactly one inner getter")
    g = getters[0]
    me = g.args.args[0].arg
    body = [x for x in g.body if not (isinstance(x, ast.Expr) and isinstance(x.value, ast.Constant))]

    def call(node, fname, nargs):
        return (isinstance(node, ast.Call) and isinstance(node.func, ast.Name) and node.func.id == fname
                and len(node.args) == nargs and not node.keywords and isinstance(node.args[0], ast.Name)
                and node.args[0].id == me)
    ok = (len(body) == 2 and isinstance(body[0], ast.If) and not body[0].orelse and len(body[0].body) == 1
          and isinstance(body[0].test, ast.UnaryOp) and isinstance(body[0].test.op, ast.Not)
          and call(body[0].test.operand, "hasattr", 2)
          and isinstance(body[0].body[0], ast.Expr) and call(body[0].body[0].value, "setattr", 3)
          and isinstance(body[0].body[0].value.args[2], ast.Call)
          and isinstance(body[0].body[0].value.args[2].func, ast.Name)
          and body[0].body[0].value.args[2].func.id == fn_name
          and len(body[0].body[0].value.args[2].args) == 1
          and isinstance(body[0].body[0].value.args[2].args[0], ast.Name)
          and body[0].body[0].value.args[2].args[0].id == me
          and isinstance(body[1], ast.Return) and call(body[1].value, "getattr", 2)
          and ast.dump(body[0].test.operand.args[1]) == ast.dump(body[0].body[0].value.args[1])
          == ast.dump(body[1].value.args[1]))
    if not ok:
        raise ExtractError("lazy_property: the getter must be `if not hasattr(self, n): setattr(self, n, fn(self))` / "
                           "`return getattr(self, n)` (nothing may be stored before the evaluation has returned)")


def analyse(repo):
    classes = scan(repo)
    lazy_property_shape(repo)
    class_clears = setattr_shape(classes)
    lazy_classes = [n for n in sorted(classes) if n != BASE and BASE in mro(classes, n)]
    if not lazy_classes:
        raise ExtractError("no class derives from LazyMutableClass")
    ctor_names = set(lazy_classes)
    res = {"class_level_clears": class_clears, "classes": []}
    # A class without a constructor of its own in front of LazyMutableClass.__init__ that only serves as a base of
    # other scanned classes (a mixin of shared lazy properties) is never instantiated by itself: it gets no row; its
    # lazy properties and methods are checked in the row of every concrete subclass (View merges the MRO).
    def abstract_base(n):
        chain = [m for m in mro(classes, n) if m in classes]
        first_init = next((m for m in chain if "__init__" in classes[m].funcs), None)
        has_sub = any(n in mro(classes, o)[1:] for o in lazy_classes if o != n)
        instantiated = any(isinstance(x, ast.Call) and isinstance(x.func, ast.Name) and x.func.id == n
                           for c in classes.values() for x in ast.walk(c.node))
        return first_init == BASE and has_sub and not instantiated
    for cname in lazy_classes:
        if abstract_base(cname):
            continue
        v = View(classes, cname)
        static = static_attrs(classes, cname)
        cls_public = v.class_public()
        lazy = []
        for p in v.lazy():
            a, l = deps_of(classes, v, p)
            lazy.append((p, a, l))
        methods = []
        names = sorted(set(v.funcs) | set(k + ".setter" for k in v.setters))
        for m in names:
            if m.endswith(".setter"):
                fn, kind = v.setters[m[:-7]], "method"
                owner = v.owner.get(m, cname)
            else:
                fn, kind = v.funcs[m], v.kinds[m]
                owner = v.owner[m]
            if owner == BASE or kind == "static":
                continue
            eff = Effects(v, m, ctor_names)
            eff.run(fn, kind)
            me = self_name(fn, kind)
            for obj, lst in sorted(eff.out.items()):
                label = m if obj == me else "%s@%s" % (m, obj)
                methods.append((label, lst, obj != me or m == "__init__"))
            if me not in eff.out:
                methods.append((m, [], m == "__init__"))
        res["classes"].append({"name": cname, "module": classes[cname].module, "static": static,
                               "class_public": cls_public, "lazy": lazy, "methods": sorted(methods)})
    return res


def eff_lean(e):
    if e[0] == "clear":
        return ".clear"
    return ".%s %s" % (e[0], lean_str(e[1]))


def generate(repo):
    res = analyse(repo)
    cc = "true" if res["class_level_clears"] else "false"
    ops = ["import PyrexVerif.D.Lazy",
           "/-! GENERATED by harness/extract/lazy_ops.py from the pyrex sources - do not edit.",
           "Per-method effect table of every class derived from `LazyMutableClass`.",
           "`fresh = true`: the method runs on an object whose cache is known to be empty when it starts",
           "(`__init__`, and objects created inside the method: `method@variable`). -/",
           "namespace Gen.LazyOps", "open Lazy", ""]
    deps = ["import PyrexVerif.D.Lazy",
            "/-! GENERATED by harness/extract/lazy_ops.py from the pyrex sources - do not edit.",
            "Per class: static attributes of the constructor, public class-level names, and for every lazy",
            "property the attributes its body reads (transitively through plain properties and methods;",
            "other lazy properties are cut points, listed separately). -/",
            "namespace Gen.LazyDeps", "open Lazy", "",
            "/-- does `LazyMutableClass.__setattr__` clear the cache when a public class-level name is assigned? -/",
            "def classLevelClears : Bool := %s" % cc, ""]
    names = []
    for c in res["classes"]:
        ident = "c_" + c["name"]
        names.append(ident)
        ops.append("def %s : List Method := [" % ident)
        rows = []
        for label, effs, fresh in c["methods"]:
            rows.append("  ⟨%s, %s, %s⟩" % (lean_str(label), "true" if fresh else "false",
                                           lean_list([eff_lean(e) for e in effs])))
        ops.append(",\n".join(rows))
        ops.append("]")
        ops.append("")
        deps.append("def %s : ClassInfo :=" % ident)
        deps.append("  { name := %s" % lean_str(c["name"]))
        deps.append("    static := %s" % lean_list([lean_str(s) for s in c["static"]]))
        deps.append("    classPublic := %s" % lean_list([lean_str(s) for s in c["class_public"]]))
        deps.append("    lazy := [")
        deps.append(",\n".join("      ⟨%s, %s, %s⟩" % (lean_str(p), lean_list([lean_str(a) for a in a_]),
                                                      lean_list([lean_str(a) for a in l_]))
                               for p, a_, l_ in c["lazy"]))
        deps.append("    ] }")
        deps.append("")
    ops.append("def table : List (String × List Method) := [")
    ops.append(",\n".join("  (%s, %s)" % (lean_str(c["name"]), "c_" + c["name"]) for c in res["classes"]))
    ops.append("]")
    ops.append("")
    ops.append("end Gen.LazyOps")
    deps.append("def classes : List ClassInfo := %s" % lean_list(names))
    deps.append("")
    deps.append("end Gen.LazyDeps")
    return {"PyrexVerif/Gen/LazyOps.lean": "\n".join(ops) + "\n",
            "PyrexVerif/Gen/LazyDeps.lean": "\n".join(deps) + "\n"}


if __name__ == "__main__":
    import sys
    out = generate(sys.argv[1] if len(sys.argv) > 1 else "/repo")
    for k, v in out.items():
        print("=====", k)
        print(v)
