"""C01 formula translator: the closed-form expressions of pyrex/ray_tracing.py -> twin/RayFormulas.body
(a GENERATED twin body: gen_twins.py reads it at both scalar types).

Translated node by node (fail closed on anything else):
  * SpecializedRayTracePath._int_terms: its straight-line assignments (SSA-renamed) and the returned 5-tuple
  * _distance_integral / _pathlen_integral / _tof_integral: the shape
        alpha, n_z, gamma, log_1, log_2 = cls._int_terms(z, beta, ice)
        if deep: return <expr>
        else:    return np.where(np.isclose(beta, 0, atol=cls.beta_tolerance), <expr>, <expr>)
Node set: + - * / (binary), unary -, `x**2` (-> x*x; no other power), integer literals, the names z / beta,
ice.n0 / ice.k / ice.a, np.exp / np.log / np.sqrt, np.where(c, a, b) -> if c then a else b with c either a
comparison `x < y` or `np.isclose(x, 0, atol=cls.beta_tolerance)` (-> |x| <= betaTolerance: numpy's
|x - 0| <= atol + rtol*|0|), scipy.constants.c -> Ray.cLight.
`Proofs/RayFormulaBridge.lean` proves every generated definition equal to the hand-written one of
twin/Ray.body, so a changed sign or factor in the source is a broken proof obligation.
"""
import ast
import os

TWIN_REL = "twin/RayFormulas.body"
ARGS = "(I : Ice) (z beta : R)"
APP = "I z beta"


class Shape(ValueError):
    pass


class Tr:
    def __init__(self, env):
        self.env = dict(env)      # python local name -> lean text

    def cond(self, n):
        if isinstance(n, ast.Compare) and len(n.ops) == 1 and isinstance(n.ops[0], ast.Lt):
            return "%s < %s" % (self.tr(n.left), self.tr(n.comparators[0]))
        if isinstance(n, ast.Call) and ast.unparse(n.func) == "np.isclose":
            if (len(n.args) == 2 and isinstance(n.args[1], ast.Constant) and n.args[1].value == 0
                    and type(n.args[1].value) is int and len(n.keywords) == 1 and n.keywords[0].arg == "atol"
                    and ast.unparse(n.keywords[0].value) == "cls.beta_tolerance"):
                return "Rabs %s ≤ Ray.betaTolerance" % self.tr(n.args[0])
            raise Shape("np.isclose call not of the form np.isclose(x, 0, atol=cls.beta_tolerance): %s"
                        % ast.unparse(n))
        raise Shape("condition shape %s" % ast.unparse(n))

    def tr(self, n):
        if isinstance(n, ast.Constant):
            if type(n.value) is int and 0 <= n.value < 10 ** 6:
                return "(%d : R)" % n.value
            raise Shape("literal %r" % (n.value,))
        if isinstance(n, ast.Name):
            if n.id in self.env:
                return self.env[n.id]
            raise Shape("unknown name %s" % n.id)
        if isinstance(n, ast.Attribute):
            s = ast.unparse(n)
            if s in ("ice.n0", "ice.k", "ice.a"):
                return "I." + s.split(".")[1]
            if s in ("scipy.constants.c", "scipy.constants.speed_of_light"):   # the same scipy constant
                return "Ray.cLight"
            raise Shape("attribute %s" % s)
        if isinstance(n, ast.UnaryOp) and isinstance(n.op, ast.USub):
            return "(-%s)" % self.tr(n.operand)
        if isinstance(n, ast.BinOp):
            if isinstance(n.op, ast.Pow):
                if isinstance(n.right, ast.Constant) and type(n.right.value) is int and n.right.value == 2:
                    a = self.tr(n.left)
                    return "(%s * %s)" % (a, a)
                raise Shape("power other than **2: %s" % ast.unparse(n))
            a, b = self.tr(n.left), self.tr(n.right)
            for op, sym in ((ast.Add, "+"), (ast.Sub, "-"), (ast.Mult, "*"), (ast.Div, "/")):
                if isinstance(n.op, op):
                    return "(%s %s %s)" % (a, sym, b)
            raise Shape("operator %s" % ast.dump(n.op))
        if isinstance(n, ast.Call):
            f = ast.unparse(n.func)
            if f in ("np.exp", "np.log", "np.sqrt") and len(n.args) == 1 and not n.keywords:
                return "(R%s %s)" % (f[3:], self.tr(n.args[0]))
            if f == "np.where" and len(n.args) == 3 and not n.keywords:
                return "(if %s then %s else %s)" % (self.cond(n.args[0]), self.tr(n.args[1]), self.tr(n.args[2]))
            raise Shape("call %s" % ast.unparse(n)[:60])
        raise Shape("expression shape %s" % ast.dump(n)[:80])


def _cls(tree, name):
    for n in tree.body:
        if isinstance(n, ast.ClassDef) and n.name == name:
            return n
    raise Shape("class %s not found" % name)


def _func(cls, name):
    hits = [n for n in cls.body if isinstance(n, ast.FunctionDef) and n.name == name]
    if len(hits) != 1:
        raise Shape("%s.%s: expected exactly one definition" % (cls.name, name))
    return hits[0]


def _stmts(fn):
    body = list(fn.body)
    if body and isinstance(body[0], ast.Expr) and isinstance(body[0].value, ast.Constant) \
            and isinstance(body[0].value.value, str):
        body = body[1:]
    return body


def _params(fn, expected):
    names = [a.arg for a in fn.args.args]
    if names != expected:
        raise Shape("%s: parameters %s, expected %s" % (fn.name, names, expected))


def int_terms(fn, out):
    """-> lean texts of the five returned values"""
    _params(fn, ["z", "beta", "ice"])
    env = {"z": "z", "beta": "beta"}
    count = {}
    body = _stmts(fn)
    if not body or not isinstance(body[-1], ast.Return):
        raise Shape("_int_terms does not end in a return")
    for st in body[:-1]:
        if not (isinstance(st, ast.Assign) and len(st.targets) == 1 and isinstance(st.targets[0], ast.Name)):
            raise Shape("_int_terms: statement is not a simple assignment: %s" % ast.unparse(st)[:60])
        name = st.targets[0].id
        if name in ("z", "beta", "ice"):
            raise Shape("_int_terms reassigns a parameter")
        text = Tr(env).tr(st.value)
        count[name] = count.get(name, 0) + 1
        lean = "t_%s_%d" % (name, count[name])
        out.append("/-- `%s` -/\ndef %s %s : R := %s\n" % (ast.unparse(st), lean, ARGS, text))
        env[name] = "(%s %s)" % (lean, APP)
    ret = body[-1].value
    if not (isinstance(ret, ast.Tuple) and len(ret.elts) == 5):
        raise Shape("_int_terms does not return a 5-tuple")
    res = []
    for i, e in enumerate(ret.elts):
        out.append("/-- element %d of `return %s` -/\ndef int_terms_%d %s : R := %s\n"
                   % (i, ast.unparse(ret), i, ARGS, Tr(env).tr(e)))
        res.append("(int_terms_%d %s)" % (i, APP))
    return res


def integral(fn, lean_name, terms, out):
    _params(fn, ["cls", "z", "beta", "ice", "deep"])
    body = _stmts(fn)
    if len(body) != 2:
        raise Shape("%s: expected 2 statements, found %d" % (fn.name, len(body)))
    a, br = body
    if not (isinstance(a, ast.Assign) and len(a.targets) == 1 and isinstance(a.targets[0], ast.Tuple)
            and len(a.targets[0].elts) == 5 and all(isinstance(e, ast.Name) for e in a.targets[0].elts)
            and ast.unparse(a.value) == "cls._int_terms(z, beta, ice)"):
        raise Shape("%s: first statement is not the 5-tuple unpack of cls._int_terms(z, beta, ice)" % fn.name)
    env = {"z": "z", "beta": "beta"}
    for e, t in zip(a.targets[0].elts, terms):
        env[e.id] = t
    if not (isinstance(br, ast.If) and isinstance(br.test, ast.Name) and br.test.id == "deep"
            and len(br.body) == 1 and isinstance(br.body[0], ast.Return)
            and len(br.orelse) == 1 and isinstance(br.orelse[0], ast.Return)):
        raise Shape("%s: expected `if deep: return ... else: return ...`" % fn.name)
    sh = br.orelse[0].value
    if not (isinstance(sh, ast.Call) and ast.unparse(sh.func) == "np.where" and len(sh.args) == 3
            and isinstance(sh.args[0], ast.Call) and ast.unparse(sh.args[0].func) == "np.isclose"):
        raise Shape("%s: shallow branch is not np.where(np.isclose(...), ..., ...)" % fn.name)
    tr = Tr(env)
    out.append("/-- `%s` -/\ndef %s (I : Ice) (z beta : R) (deep : Bool) : R :=\n  if deep then %s\n  else %s\n"
               % (fn.name, lean_name, tr.tr(br.body[0].value), tr.tr(sh)))


def generate(repo):
    src = open(os.path.join(repo, "pyrex", "ray_tracing.py")).read()
    tree = ast.parse(src)
    cls = _cls(tree, "SpecializedRayTracePath")
    out = ["--import Ice\n--import Ray\n"
           "/-! GENERATED by harness/extract/ray_formulas.py from pyrex/ray_tracing.py - do not edit.\n"
           "`SpecializedRayTracePath._int_terms` and the three indefinite z-integrals, translated node by node;\n"
           "`Proofs/RayFormulaBridge.lean` proves them equal to the hand-written definitions of `twin/Ray.body`. -/\n"
           "namespace RayGen\n\n"]
    terms = int_terms(_func(cls, "_int_terms"), out)
    for py, lean in (("_distance_integral", "distance_integral"), ("_pathlen_integral", "pathlen_integral"),
                     ("_tof_integral", "tof_integral")):
        integral(_func(cls, py), lean, terms, out)
    out.append("\nend RayGen\n")
    return {TWIN_REL: "".join(out)}


if __name__ == "__main__":
    import sys
    print(generate(sys.argv[1] if len(sys.argv) > 1 else "/repo")[TWIN_REL])
