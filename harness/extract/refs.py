"""C20 translator: every reference from pyrex's source into numpy / scipy / h5py / the standard library,
and the table of names that exist in the installed distributions.

generate(repo) -> {"PyrexVerif/Gen/Refs.lean": ..., "PyrexVerif/Gen/Env.lean": ...}

Refs: for each `Name.attr.attr…` chain whose root is bound by an `import` (or `from … import`) of an
external module, the pair (module path, first non-module attribute) it needs, with file:line and a
`guarded` flag (inside `try/except (ImportError|AttributeError|Exception)` or inside the body of an
`except (ImportError|AttributeError|ModuleNotFoundError)` fallback handler, the right operand of
`getattr(mod, "x", None) or mod.y`, or under `if hasattr(...)`).
Env: for every external module object touched, `dir()` of the installed module.
Fails closed: an import form or alias shape it does not understand raises.
"""
import ast
import importlib
import os
import sys
import types

STDLIB = set(sys.stdlib_module_names)
THIRD = {"numpy", "scipy", "h5py"}
# optional third-party packages and the files documented as needing them
OPTIONAL = {"PySpice": ["pyrex/custom/pyspice.py"], "matplotlib": []}
INTERNAL = {"pyrex"}

# names that did not exist at the lower end of the declared range
# (numpy>=1.17, scipy>=1.4, h5py>=3.0, python>=3.6) - modelled knowledge, see DESIGN.md C20
TOO_NEW = [
    ("numpy", "trapezoid"),          # numpy 2.0
    ("numpy", "concat"), ("numpy", "permute_dims"), ("numpy", "pow"), ("numpy", "acos"), ("numpy", "asin"),
    ("numpy", "atan"), ("numpy", "atan2"), ("numpy", "bool"),   # numpy 2.0 array-API aliases
    ("numpy", "cumulative_sum"), ("numpy", "unstack"),           # numpy 2.1
    ("numpy.random", "default_rng"),  # exists since 1.17: listed only if removed below
    ("math", "prod"), ("math", "isqrt"), ("math", "comb"), ("math", "dist"),      # python 3.8
    ("functools", "cached_property"), ("functools", "cache"),                     # python 3.8 / 3.9
    ("importlib", "metadata"),                                                    # python 3.8
    ("scipy.integrate", "trapezoid"), ("scipy.integrate", "simpson"),             # scipy 1.6
    ("scipy.signal", "ShortTimeFFT"),
]
TOO_NEW = [t for t in TOO_NEW if t != ("numpy.random", "default_rng")]


def declared_requirements(repo):
    """top-level names of install_requires in setup.py (fail closed if it cannot be read)"""
    import re
    tree = ast.parse(open(os.path.join(repo, "setup.py")).read())
    for node in ast.walk(tree):
        if isinstance(node, ast.keyword) and node.arg == "install_requires":
            vals = ast.literal_eval(node.value)
            return sorted(re.split(r"[<>=!~ \[;]", v.strip())[0].replace("-", "_").lower() for v in vals)
    raise ValueError("install_requires not found in setup.py")


def declared_python(repo):
    """(major, minor) lower bound of python_requires in setup.py"""
    import re
    tree = ast.parse(open(os.path.join(repo, "setup.py")).read())
    for node in ast.walk(tree):
        if isinstance(node, ast.keyword) and node.arg == "python_requires":
            m = re.search(r">=\s*(\d+)\.(\d+)", ast.literal_eval(node.value))
            if m:
                return int(m.group(1)), int(m.group(2))
    raise ValueError("python_requires lower bound not found in setup.py")


def syntax_check(src, version):
    """None if the source parses with the grammar of the given Python version (as far as ast's feature_version
    models it: assignment expressions, positional-only parameters, pattern matching, parenthesised context
    managers, exception groups, type statements, ...), else the SyntaxError message"""
    try:
        ast.parse(src, feature_version=version)
        return None
    except SyntaxError as e:
        return "line %s: %s" % (e.lineno, e.msg)


ARRAY_MAKERS = {"array", "asarray", "asanyarray", "zeros", "ones", "empty", "full", "arange", "linspace",
                "logspace", "concatenate", "cumsum", "diff", "where", "zeros_like", "ones_like", "full_like",
                "atleast_1d", "ravel", "sort", "unique", "copy", "broadcast_to", "roll", "interp", "abs", "real",
                "imag", "sqrt", "exp", "log", "sin", "cos", "cross", "dot", "outer", "stack", "vstack", "hstack"}


def is_external(root):
    top = root.split(".")[0]
    return top in THIRD or top in STDLIB or top in OPTIONAL


class FileRefs(ast.NodeVisitor):
    def __init__(self, rel):
        self.rel = rel
        self.alias = {}          # local name -> dotted external path
        self.imports = []        # (module, line, guarded)
        self.from_imports = []   # (module, name, line, guarded)
        self.refs = []           # (dotted root path, [attrs], line, guarded)
        self.kwcalls = []        # (dotted root path, [attrs], [keyword names], line, guarded)
        self.guard = 0
        self.guard_attr = 0      # inside a try whose handlers catch AttributeError
        self.guard_imp = 0       # inside a try whose handlers catch ImportError / ModuleNotFoundError
        self.unbound = []        # (root name, [attrs], line): library-looking root name that is not bound in the module
        self.assigned = set()

    # --- guards
    def visit_Try(self, node):
        # the handler must catch what the body's failure RAISES: a missing attribute raises AttributeError, a missing
        # module or a missing name in `from m import x` raises ImportError; `except ImportError:` around an attribute
        # access guards nothing
        guarded = False          # catches everything (bare / Exception): guards attribute references and imports
        g_attr = g_imp = False
        for h in node.handlers:
            names = []
            t = h.type
            if t is None:
                guarded = True
            else:
                for e in (t.elts if isinstance(t, ast.Tuple) else [t]):
                    names.append(getattr(e, "id", getattr(e, "attr", "")))
                if {"Exception", "BaseException"} & set(names):
                    guarded = True
                if "AttributeError" in names:
                    g_attr = True
                if {"ImportError", "ModuleNotFoundError"} & set(names):
                    g_imp = True
        if guarded:
            self.guard += 1
        self.guard_attr += (1 if g_attr else 0)
        self.guard_imp += (1 if g_imp else 0)
        for s in node.body:
            self.visit(s)
        if guarded:
            self.guard -= 1
        self.guard_attr -= (1 if g_attr else 0)
        self.guard_imp -= (1 if g_imp else 0)
        for h in node.handlers:
            # the body of an `except ImportError / AttributeError / ModuleNotFoundError` handler is the version-fallback
            # idiom (`try: new name / except AttributeError: old name`): it only runs where the primary name is missing,
            # so its references are guarded too; handlers of any other exception type (OSError, ValueError, ...) are
            # ordinary code and stay unguarded
            t = h.type
            hn = set()
            if t is not None:
                for e in (t.elts if isinstance(t, ast.Tuple) else [t]):
                    hn.add(getattr(e, "id", getattr(e, "attr", "")))
            fallback = bool(hn) and hn <= {"ImportError", "AttributeError", "ModuleNotFoundError"}
            if fallback:
                self.guard += 1
            self.visit(h)
            if fallback:
                self.guard -= 1
        for s in node.orelse + node.finalbody:
            self.visit(s)

    def visit_If(self, node):
        g = any(isinstance(n, ast.Call) and getattr(n.func, "id", "") == "hasattr" for n in ast.walk(node.test))
        self.visit(node.test)
        if g:
            self.guard += 1
        for s in node.body:
            self.visit(s)
        if g:
            self.guard -= 1
        for s in node.orelse:
            self.visit(s)

    def visit_BoolOp(self, node):
        first = node.values[0]
        g = (isinstance(node.op, ast.Or) and isinstance(first, ast.Call)
             and getattr(first.func, "id", "") == "getattr" and len(first.args) == 3)
        self.visit(first)
        if g:
            self.guard += 1
        for v in node.values[1:]:
            self.visit(v)
        if g:
            self.guard -= 1

    # --- imports
    def visit_Import(self, node):
        for a in node.names:
            top = a.name.split(".")[0]
            if top in INTERNAL:
                continue
            self.imports.append((a.name, node.lineno, self.guard > 0 or self.guard_imp > 0))
            if a.asname:
                self.alias[a.asname] = a.name
            else:
                self.alias[top] = top

    def visit_ImportFrom(self, node):
        if node.level > 0 or (node.module or "").split(".")[0] in INTERNAL:
            return
        mod = node.module
        for a in node.names:
            if a.name == "*" and mod.split(".")[0] in OPTIONAL:
                self.from_imports.append((mod, "*", node.lineno, self.guard > 0 or self.guard_imp > 0))
                continue
            if a.name == "*":
                raise ValueError("%s:%d star import from external module" % (self.rel, node.lineno))
            self.from_imports.append((mod, a.name, node.lineno, self.guard > 0 or self.guard_imp > 0))
            self.alias[a.asname or a.name] = mod + "." + a.name

    # --- light local type inference: names bound only to results of numpy array constructors
    def _is_maker_call(self, v):
        if not isinstance(v, ast.Call):
            return False
        f = v.func
        return (isinstance(f, ast.Attribute) and isinstance(f.value, ast.Name) and f.value.id in self.alias
                and self.alias[f.value.id] == "numpy" and f.attr in ARRAY_MAKERS)

    def visit_FunctionDef(self, node):
        binds = {}
        for n in ast.walk(node):
            targets = []
            if isinstance(n, ast.Assign):
                targets = [(t, n.value) for t in n.targets]
            elif isinstance(n, (ast.AugAssign, ast.AnnAssign)) and n.value is not None:
                targets = [(n.target, n.value)]
            elif isinstance(n, (ast.For, ast.comprehension)):
                targets = [(n.target, None)]
            elif isinstance(n, ast.With):
                targets = [(i.optional_vars, None) for i in n.items if i.optional_vars is not None]
            for t, v in targets:
                for nm in ast.walk(t):
                    if isinstance(nm, ast.Name):
                        ok = isinstance(t, ast.Name) and v is not None and self._is_maker_call(v)
                        binds.setdefault(nm.id, []).append((getattr(n, "lineno", getattr(t, "lineno", 0)), ok))
        arrays = {k: min(l for l, _ in v) for k, v in binds.items() if v and all(ok for _, ok in v)}
        for n in ast.walk(node):
            if isinstance(n, ast.Attribute) and isinstance(n.value, ast.Name) and n.value.id in arrays \
                    and n.lineno > arrays[n.value.id] and isinstance(n.ctx, ast.Load):
                self.refs.append(("numpy.ndarray", [n.attr], n.lineno, self.guard > 0 or self.guard_attr > 0))
        self.generic_visit(node)

    visit_AsyncFunctionDef = visit_FunctionDef

    # --- references
    def visit_Attribute(self, node):
        # `<numpy array constructor>(...).attr`: the attribute must exist on numpy.ndarray
        if isinstance(node.value, ast.Call):
            f = node.value.func
            parts = []
            m = f
            while isinstance(m, ast.Attribute):
                parts.append(m.attr)
                m = m.value
            if isinstance(m, ast.Name) and m.id in self.alias and self.alias[m.id] == "numpy" \
                    and len(parts) == 1 and parts[0] in ARRAY_MAKERS:
                self.refs.append(("numpy.ndarray", [node.attr], node.lineno, self.guard > 0 or self.guard_attr > 0))
        chain = []
        n = node
        while isinstance(n, ast.Attribute):
            chain.append(n.attr)
            n = n.value
        if isinstance(n, ast.Name) and n.id in self.alias:
            chain.reverse()
            self.refs.append((self.alias[n.id], chain, node.lineno, self.guard > 0 or self.guard_attr > 0))
        else:
            if isinstance(n, ast.Name) and n.id in LIBRARY_ROOT_NAMES and isinstance(n.ctx, ast.Load):
                chain.reverse()
                self.unbound.append((n.id, chain, node.lineno))      # decided after the whole module was seen
            self.visit(n)

    def _dynamic_import(self, node):
        f = node.func
        name = None
        if isinstance(f, ast.Name) and f.id == "__import__":
            name = "__import__"
        elif isinstance(f, ast.Attribute) and f.attr == "import_module" and isinstance(f.value, ast.Name) \
                and self.alias.get(f.value.id, "").split(".")[0] == "importlib":
            name = "import_module"
        if name and node.args and isinstance(node.args[0], ast.Constant) and isinstance(node.args[0].value, str):
            mod = node.args[0].value
            if mod.split(".")[0] not in INTERNAL and not mod.startswith("."):
                self.imports.append((mod, node.lineno, self.guard > 0 or self.guard_imp > 0))

    def _keyword_call(self, node):
        kws = [k.arg for k in node.keywords if k.arg is not None]
        if not kws:
            return
        chain, n = [], node.func
        while isinstance(n, ast.Attribute):
            chain.append(n.attr)
            n = n.value
        if isinstance(n, ast.Name) and n.id in self.alias and chain:
            chain.reverse()
            self.kwcalls.append((self.alias[n.id], chain, kws, node.lineno, self.guard > 0 or self.guard_attr > 0))

    def visit_Call(self, node):
        self._dynamic_import(node)
        self._keyword_call(node)
        # getattr(mod, "name", default) is a guarded reference; getattr(mod, "name") an unguarded one
        if getattr(node.func, "id", "") == "getattr" and len(node.args) >= 2 \
                and isinstance(node.args[0], ast.Name) and node.args[0].id in self.alias \
                and isinstance(node.args[1], ast.Constant) and isinstance(node.args[1].value, str):
            self.refs.append((self.alias[node.args[0].id], [node.args[1].value], node.lineno,
                              self.guard > 0 or len(node.args) == 3))
            for a in node.args[2:]:
                self.visit(a)
            return
        self.generic_visit(node)


def resolve_module(path):
    """import the longest importable prefix of the dotted path -> (module object, module path, rest)"""
    parts = path.split(".")
    mod, used = None, 0
    for i in range(1, len(parts) + 1):
        try:
            mod = importlib.import_module(".".join(parts[:i]))
            used = i
        except Exception:
            break
    return mod, ".".join(parts[:used]), parts[used:]



FRESH_SCRIPT = r"""
import sys, json, types, importlib
spec = json.load(sys.stdin)
for m in spec["imports"]:
    try:
        importlib.import_module(m)
    except Exception:
        pass
out = {}
for path in spec["paths"]:
    parts = path.split(".")
    cur = sys.modules.get(parts[0])
    ok = isinstance(cur, types.ModuleType)
    for a in parts[1:]:
        if not ok:
            break
        try:
            cur = getattr(cur, a)      # plain attribute access, as the source does it (module __getattr__ included)
        except Exception:
            ok = False
            break
        ok = isinstance(cur, types.ModuleType)
    if ok:
        out[path] = sorted(set(dir(cur)))
sigs = {}
import inspect
for full in spec.get("callees", []):
    cur = sys.modules.get(full[0])
    ok = cur is not None
    for a in full[1:]:
        if not ok:
            break
        try:
            cur = getattr(cur, a)
        except Exception:
            ok = False
    if not ok or not callable(cur):
        continue
    try:
        sg = inspect.signature(cur)
    except Exception:
        continue                       # builtins / ufuncs without an introspectable signature: not decided
    names = [p.name for p in sg.parameters.values() if p.kind in (p.POSITIONAL_OR_KEYWORD, p.KEYWORD_ONLY)]
    sigs[".".join(full)] = [names, any(p.kind == p.VAR_KEYWORD for p in sg.parameters.values())]
cms = {}
for full in spec.get("cms", []):
    cur = sys.modules.get(full[0])
    if cur is None and full[0] in dir(__builtins__):
        cur = __builtins__
        full = ["builtins"] + list(full)
    ok = cur is not None
    for a in full[1:]:
        if not ok:
            break
        try:
            cur = getattr(cur, a)
        except Exception:
            ok = False
    key = ".".join(full[1:] if full[0] == "builtins" else full)
    if not ok:
        cms[key] = [False, "does not resolve"]
    elif isinstance(cur, type):
        has = hasattr(cur, "__enter__") and hasattr(cur, "__exit__")
        cms[key] = [has, "class %s %s __enter__/__exit__" % (cur.__name__, "defines" if has else "has no")]
    elif inspect.isgeneratorfunction(getattr(cur, "__wrapped__", None)):
        cms[key] = [True, "contextlib.contextmanager function"]
    else:
        cms[key] = [False, "a function whose result type is not known to the translator"]
json.dump({"modules": out, "signatures": sigs, "cms": cms}, sys.stdout)
"""


def fresh_modules(import_list, paths, callees=(), cms=()):
    """{module path: dir()} for every path that is reachable BY ATTRIBUTE ACCESS in a fresh interpreter which has
    executed exactly the package's own external import statements.  A sub-module such as numpy.lib.recfunctions exists
    as an attribute only once somebody imported it; resolving it with import_module here would make the reference
    look fine although a fresh process fails on it."""
    import json as _json
    import subprocess
    p = subprocess.run([sys.executable, "-W", "ignore", "-c", FRESH_SCRIPT],
                       input=_json.dumps({"imports": sorted(import_list), "paths": sorted(paths),
                                          "callees": sorted(list(c) for c in callees),
                                          "cms": sorted(list(c) for c in cms)}),
                       capture_output=True, text=True, timeout=600)
    if p.returncode != 0:
        raise ValueError("fresh-interpreter module resolution failed: " + p.stderr[-400:])
    r = _json.loads(p.stdout)
    if cms:
        return r["modules"], r["signatures"], r["cms"]
    return r["modules"], r["signatures"]



LIBRARY_ROOT_NAMES = {"numpy", "np", "scipy", "sp", "h5py"}


def names_bound_in(tree):
    """every name bound anywhere in the module (imports, assignments, definitions, parameters, loop/with/except targets)"""
    out = set()
    for n in ast.walk(tree):
        if isinstance(n, (ast.Import, ast.ImportFrom)):
            for a in n.names:
                out.add((a.asname or a.name).split(".")[0])
        elif isinstance(n, (ast.FunctionDef, ast.AsyncFunctionDef, ast.ClassDef)):
            out.add(n.name)
        elif isinstance(n, ast.Name) and isinstance(n.ctx, (ast.Store, ast.Del)):
            out.add(n.id)
        elif isinstance(n, ast.arg):
            out.add(n.arg)
        elif isinstance(n, ast.ExceptHandler) and n.name:
            out.add(n.name)
    return out

def _mentions_available(test):
    for n in ast.walk(test):
        if (isinstance(n, ast.Name) and n.id == "__available__") or (isinstance(n, ast.Attribute) and n.attr == "__available__"):
            return True
    return False


def _bound_names(stmts):
    out = set()
    for st in stmts:
        for n in ast.walk(st):
            if isinstance(n, (ast.FunctionDef, ast.ClassDef, ast.AsyncFunctionDef)):
                out.add(n.name)
            elif isinstance(n, ast.Name) and isinstance(n.ctx, ast.Store):
                out.add(n.id)
            elif isinstance(n, (ast.Import, ast.ImportFrom)):
                for a in n.names:
                    if a.name != "*":
                        out.add((a.asname or a.name).split(".")[0])
    return out


def optional_only_names(tree):
    """module-level names that are bound ONLY inside an `if …__available__:` block (they do not exist when the optional
    dependency is absent)"""
    inside, outside = set(), set()
    for st in tree.body:
        if isinstance(st, ast.If) and _mentions_available(st.test):
            inside |= _bound_names(st.body)
            outside |= _bound_names(st.orelse)
        elif isinstance(st, (ast.FunctionDef, ast.ClassDef, ast.AsyncFunctionDef)):
            outside.add(st.name)
        else:
            outside |= _bound_names([st])
    return inside - outside


def optional_leaks(rel, tree, only_here, only_by_module, alias_of_internal):
    """uses, in code that runs without the optional dependency, of names that exist only with it: (name, function, line).
    A use is fine inside `if …__available__:` or after a leading `if not …__available__: raise` of the same function."""
    leaks = []

    def visit_func(fn):
        guarded_from = None
        for i, st in enumerate(fn.body):
            if isinstance(st, ast.If) and _mentions_available(st.test) and any(isinstance(x, ast.Raise) for x in st.body):
                guarded_from = st.lineno
                break
        local = {a.arg for a in fn.args.args + fn.args.kwonlyargs} | _bound_names(fn.body)

        def walk(node, guarded):
            if isinstance(node, ast.If) and _mentions_available(node.test):
                for x in node.body:
                    walk(x, True)
                for x in node.orelse:
                    walk(x, guarded)
                return
            if isinstance(node, ast.Name) and isinstance(node.ctx, ast.Load) and not guarded:
                if node.id in only_here and node.id not in local and not (guarded_from and node.lineno > guarded_from):
                    leaks.append((node.id, fn.name, node.lineno))
            if isinstance(node, ast.Attribute) and isinstance(node.value, ast.Name) and not guarded:
                m = alias_of_internal.get(node.value.id)
                if m and node.attr in only_by_module.get(m, ()) and not (guarded_from and node.lineno > guarded_from):
                    leaks.append((node.value.id + "." + node.attr, fn.name, node.lineno))
            for c in ast.iter_child_nodes(node):
                walk(c, guarded)
        for st in fn.body:
            walk(st, False)

    def top(stmts, in_optional):
        for st in stmts:
            if isinstance(st, ast.If) and _mentions_available(st.test):
                top(st.orelse, in_optional)
                continue                      # definitions inside the optional block only exist with the dependency
            if isinstance(st, (ast.FunctionDef, ast.AsyncFunctionDef)):
                visit_func(st)
            elif isinstance(st, ast.ClassDef):
                top(st.body, in_optional)
    top(tree.body, False)
    return leaks

# library functions documented, over the whole declared range, to return an object usable in a `with` statement
CM_FUNCTIONS = {"open", "io.open", "tarfile.open", "gzip.open", "bz2.open", "lzma.open", "codecs.open", "os.fdopen",
                "os.scandir", "tempfile.NamedTemporaryFile", "tempfile.TemporaryFile", "tempfile.SpooledTemporaryFile",
                "threading.Lock", "threading.RLock", "urllib.request.urlopen"}


def _dotted(node):
    parts = []
    while isinstance(node, ast.Attribute):
        parts.append(node.attr)
        node = node.value
    if isinstance(node, ast.Name):
        return [node.id] + parts[::-1]
    return None


def own_context_classes(trees):
    """names of the package's own classes that define (or inherit, by base-class NAME within the package) both
    __enter__ and __exit__"""
    defs = {}
    for t in trees.values():
        for n in ast.walk(t):
            if isinstance(n, ast.ClassDef):
                meths = {m.name for m in n.body if isinstance(m, (ast.FunctionDef, ast.AsyncFunctionDef))}
                bases = [(_dotted(b) or ["?"])[-1] for b in n.bases]
                defs.setdefault(n.name, []).append((meths, bases))
    def has(name, meth, seen=()):
        if name in seen or name not in defs:
            return False
        # every definition of that name must provide it (two classes of one name: be conservative)
        return all(meth in meths or any(has(b, meth, seen + (name,)) for b in bases) for meths, bases in defs[name])
    return {n for n in defs if has(n, "__enter__") and has(n, "__exit__")}


def with_items(rel, tree, alias, bound, own_cm):
    """every `with` item of the module: (line, expression text, how it is decided, candidate library path or None).
    `how` is 'listed' (a documented context-manager function), 'own' (a class of the package that defines the protocol),
    'library' (decided against the installed object in a fresh interpreter) or 'unknown' (the type of the object is not
    known to the translator: an attribute or method result of some other object, a local variable, …)."""
    out = []
    for n in ast.walk(tree):
        if not isinstance(n, (ast.With, ast.AsyncWith)):
            continue
        for it in n.items:
            e = it.context_expr
            text = ast.unparse(e)
            if len(text) > 80:
                text = text[:77] + "..."
            how, cand = "unknown", None
            if isinstance(e, ast.Call):
                d = _dotted(e.func)
                if d is not None:
                    if d[0] in alias:
                        full = alias[d[0]].split(".") + d[1:]
                        if ".".join(full) in CM_FUNCTIONS:
                            how = "listed"
                        elif is_external(full[0]):
                            how, cand = "library", full
                    elif len(d) == 1 and d[0] == "open" and "open" not in bound:
                        how = "listed"
                    elif d[-1] in own_cm:
                        how = "own"
            out.append((n.lineno, text, how, cand))
    return out


def dtype_literals(tree, alias):
    """numpy type names written as STRING literals: `dtype='...'` keywords, `.astype('...')`, `np.dtype('...')`,
    `np.<maker>(..., '...')` is not guessed.  -> [(line, literal)]"""
    out = []
    for n in ast.walk(tree):
        if not isinstance(n, ast.Call):
            continue
        for kw in n.keywords:
            if kw.arg == "dtype" and isinstance(kw.value, ast.Constant) and isinstance(kw.value.value, str):
                out.append((n.lineno, kw.value.value))
        if isinstance(n.func, ast.Attribute) and n.func.attr in ("astype", "view") and n.args \
                and isinstance(n.args[0], ast.Constant) and isinstance(n.args[0].value, str):
            out.append((n.lineno, n.args[0].value))
        d = _dotted(n.func)
        if d and d[0] in alias and (alias[d[0]].split(".") + d[1:]) == ["numpy", "dtype"] and n.args \
                and isinstance(n.args[0], ast.Constant) and isinstance(n.args[0].value, str):
            out.append((n.lineno, n.args[0].value))
    return sorted(set(out))


def dtype_understood(name):
    """does the installed numpy understand this type name"""
    import numpy
    try:
        numpy.dtype(name)
        return True
    except Exception:
        return False


def lean_str(s):
    return '"' + s.replace("\\", "\\\\").replace('"', '\\"') + '"'


def generate(repo):
    pkg = os.path.join(repo, "pyrex")
    files = []
    for root, dirs, fs in os.walk(pkg):
        dirs[:] = [d for d in dirs if d != "__pycache__"]
        for f in fs:
            if f.endswith(".py"):
                files.append(os.path.join(root, f))
    files.sort()
    if len(files) < 20:
        raise ValueError("unexpectedly few source files under %s" % pkg)
    refs, imports, env, unresolved_roots = [], [], {}, []
    pyver = declared_python(repo)
    syntax = []
    declared = declared_requirements(repo)
    if not set(declared) >= {"numpy", "scipy", "h5py"}:
        raise ValueError("unexpected install_requires: %s" % declared)
    visitors = []
    for path in files:
        rel = os.path.relpath(path, repo)
        src = open(path).read()
        syntax.append((rel, syntax_check(src, pyver)))
        tree = ast.parse(src, filename=rel)
        v = FileRefs(rel)
        v.visit(tree)
        bound = names_bound_in(tree)
        for nm, chain, line in v.unbound:
            if nm not in bound:
                # `scipy.constants.N_A` in a module that no longer binds `scipy`: NameError at run time
                refs.append(("<name not bound in this module>", nm, rel, line, False))
        visitors.append((rel, v))
    # names that exist only when an optional dependency is installed must not be used by code that runs without it
    trees = {}
    for path in files:
        rel = os.path.relpath(path, repo)
        trees[rel] = ast.parse(open(path).read(), filename=rel)
    only = {rel: optional_only_names(t) for rel, t in trees.items()}
    mod_of = {rel[:-3].replace(os.sep, ".").replace(".__init__", ""): rel for rel in trees}
    opt_leaks = []
    for rel, t in trees.items():
        alias_internal = {}
        for n in ast.walk(t):
            if isinstance(n, ast.Import):
                for a in n.names:
                    if a.name in mod_of and a.asname:
                        alias_internal[a.asname] = mod_of[a.name]
            elif isinstance(n, ast.ImportFrom) and n.module:
                for a in n.names:
                    full = n.module + "." + a.name
                    if full in mod_of:
                        alias_internal[a.asname or a.name] = mod_of[full]
        opt_leaks += [(rel,) + l for l in optional_leaks(rel, t, only[rel], only, alias_internal)]
    opt_leaks = sorted(set(opt_leaks))
    # what a fresh interpreter can reach by attribute access after the package's own (unguarded or guarded) imports
    ext_imports, cand = set(), set()
    for rel, v in visitors:
        for mod, line, g in v.imports:
            if is_external(mod) and mod.split(".")[0] not in OPTIONAL:
                ext_imports.add(mod)
        for mod, name, line, g in v.from_imports:
            if is_external(mod) and mod.split(".")[0] not in OPTIONAL:
                ext_imports.add(mod)
        for root, chain, line, g in v.refs:
            if is_external(root) and root.split(".")[0] not in OPTIONAL and root != "numpy.ndarray":
                full = root.split(".") + list(chain)
                for k in range(1, len(full) + 1):
                    cand.add(".".join(full[:k]))
    cand |= set(ext_imports)
    for m in list(ext_imports):
        ps = m.split(".")
        for k in range(1, len(ps) + 1):
            cand.add(".".join(ps[:k]))
    callees = set()
    for rel, v in visitors:
        for root, chain, kws, line, g in v.kwcalls:
            if is_external(root) and root.split(".")[0] not in OPTIONAL:
                callees.add(tuple(root.split(".") + list(chain)))
    dtype_rows = []
    for rel, v in visitors:
        for line, lit in dtype_literals(trees[rel], v.alias):
            dtype_rows.append((rel, line, lit, dtype_understood(lit)))
    own_cm = own_context_classes(trees)
    w_rows = []
    for rel, v in visitors:
        for line, text, how, c in with_items(rel, trees[rel], v.alias, names_bound_in(trees[rel]), own_cm):
            w_rows.append((rel, line, text, how, c))
    cm_cands = {tuple(c) for _, _, _, how, c in w_rows if how == "library"}
    if cm_cands:
        fresh, signatures, cm_verdict = fresh_modules(ext_imports, cand, callees, cm_cands)
    else:
        (fresh, signatures), cm_verdict = fresh_modules(ext_imports, cand, callees), {}
    with_table = []
    for rel, line, text, how, c in sorted(w_rows, key=lambda r: (r[0], r[1], r[2])):
        if how == "library":
            okc, why = cm_verdict.get(".".join(c), [False, "not evaluated"])
            with_table.append((rel, line, text, "library: " + why, bool(okc)))
        else:
            with_table.append((rel, line, text, how, how in ("listed", "own")))
    kwrefs = []
    for rel, v in visitors:
        for root, chain, kws, line, g in v.kwcalls:
            if is_external(root) and root.split(".")[0] not in OPTIONAL:
                callee = ".".join(root.split(".") + list(chain))
                for kw in kws:
                    kwrefs.append((callee, kw, rel, line, g))
    kwrefs = sorted(set(kwrefs))
    for rel, v in visitors:
        for mod, line, g in v.imports:
            top = mod.split(".")[0]
            optional = top in OPTIONAL
            imports.append((mod, rel, line, g, optional, top in STDLIB or top.lower() in declared))
        for mod, name, line, g in v.from_imports:
            top = mod.split(".")[0]
            imports.append((mod, rel, line, g, top in OPTIONAL, top in STDLIB or top.lower() in declared))
            if is_external(mod) and mod.split(".")[0] not in OPTIONAL:
                refs.append((mod, name, rel, line, g))
        for root, chain, line, g in v.refs:
            if not is_external(root) or root.split(".")[0] in OPTIONAL:
                continue
            # walk through sub-modules, the first non-module attribute is the obligation
            if root == "numpy.ndarray":
                refs.append((root, chain[0], rel, line, g))
                env.setdefault(root, "ndarray")
                continue
            full = root.split(".") + list(chain)
            if full[0] not in fresh:
                refs.append((root, chain[0] if chain else "", rel, line, g))
                continue
            # walk through the sub-modules a fresh interpreter reaches by attribute access; the first attribute that
            # is not such a module is the obligation (a sub-module nobody imported is NOT reachable: numpy.lib.recfunctions)
            k = 1
            while k < len(full) and ".".join(full[:k + 1]) in fresh:
                k += 1
            curpath = ".".join(full[:k])
            if k < len(full):
                refs.append((curpath, full[k], rel, line, g))
            env.setdefault(curpath, fresh[curpath])
    # environment: dir() of every module touched + importable modules
    for mod, rel, line, g, opt, decl in imports:
        if mod.split(".")[0] in OPTIONAL:
            continue
        if mod in fresh:
            env.setdefault(mod, fresh[mod])
    import numpy as _np
    env_tab = {k: (sorted(set(dir(_np.ndarray))) if k == "numpy.ndarray" else list(m)) for k, m in env.items()}
    importable = sorted(env_tab)
    refs = sorted(set(refs))
    imports = sorted(set(imports))
    if len(refs) < 100:
        raise ValueError("unexpectedly few external references (%d): extractor broken?" % len(refs))

    out = []
    out.append("/-! GENERATED by harness/extract/refs.py from the working tree of /repo - do not edit.\n"
               "Every reference of pyrex's source into numpy/scipy/h5py/stdlib (C20). -/\n")
    out.append("namespace Gen.Refs\n")
    out.append("structure Ref where\n  module : String\n  attr : String\n  file : String\n  line : Nat\n  guarded : Bool\nderiving Repr\n")
    out.append("structure Imp where\n  module : String\n  file : String\n  line : Nat\n  guarded : Bool\n  optional : Bool\n  declared : Bool\nderiving Repr\n")
    out.append("def refs : List Ref := [\n" + ",\n".join(
        "  ⟨%s, %s, %s, %d, %s⟩" % (lean_str(m), lean_str(a), lean_str(f), l, "true" if g else "false")
        for m, a, f, l, g in refs) + "]\n")
    out.append("def imports : List Imp := [\n" + ",\n".join(
        "  ⟨%s, %s, %d, %s, %s, %s⟩" % (lean_str(m), lean_str(f), l, "true" if g else "false", "true" if o else "false",
                                           "true" if d else "false")
        for m, f, l, g, o, d in imports) + "]\n")
    out.append("structure KwRef where\n  callee : String\n  keyword : String\n  file : String\n  line : Nat\n  guarded : Bool\nderiving Repr\n")
    out.append("/-- every keyword argument passed by name to a callable of numpy/scipy/h5py/stdlib -/\n")
    out.append("def kwrefs : List KwRef := [\n" + ",\n".join(
        "  ⟨%s, %s, %s, %d, %s⟩" % (lean_str(c), lean_str(k), lean_str(f), l, "true" if g else "false")
        for c, k, f, l, g in kwrefs) + "]\n")
    out.append("/-- uses, in code that runs WITHOUT an optional dependency, of module-level names that are bound only inside an\n"
               "`if …__available__:` block (file, name, function, line); must be empty -/\n")
    out.append("def optionalLeaks : List (String × String × String × Nat) := [%s]\n" % ", ".join(
        "(%s, %s, %s, %d)" % (lean_str(f), lean_str(n), lean_str(fn), l) for f, n, fn, l in opt_leaks))
    out.append("structure WithItem where\n  file : String\n  line : Nat\n  expr : String\n  how : String\n  resolved : Bool\nderiving Repr\n")
    out.append("/-- every item of every `with` statement of the package: is the object it enters KNOWN to support the context-manager\n"
               "protocol (`__enter__`/`__exit__`) in the installed libraries - a documented context-manager function, a class of the\n"
               "installed library or of the package that defines the protocol; `resolved = false` for anything else (the result of a\n"
               "method of some other object, a variable, …: the translator cannot type it) -/\n")
    out.append("def withItems : List WithItem := [\n" + ",\n".join(
        "  ⟨%s, %d, %s, %s, %s⟩" % (lean_str(f), l, lean_str(x), lean_str(h), "true" if r else "false")
        for f, l, x, h, r in with_table) + "]\n")
    out.append("/-- numpy type names the source writes as STRING literals (`dtype='…'`, `.astype('…')`, `np.dtype('…')`): (file, line,\n"
               "literal, does `numpy.dtype(literal)` of the installed numpy understand it) - a name that exists only as a string is\n"
               "an interface of the library all the same (`'float_'` went with `np.float_`) -/\n")
    out.append("def dtypeLiterals : List (String × Nat × String × Bool) := [%s]\n" % ", ".join(
        "(%s, %d, %s, %s)" % (lean_str(f), l, lean_str(x), "true" if k else "false") for f, l, x, k in sorted(dtype_rows)))
    out.append("/-- how many module-level names are bound only under an optional-dependency guard (non-vacuity) -/\n")
    out.append("def optionalOnlyNames : Nat := %d\n" % sum(len(v) for v in only.values()))
    out.append("/-- lower bound of python_requires in setup.py -/\n")
    out.append("def declaredPython : Nat × Nat := (%d, %d)\n" % pyver)
    out.append("/-- per source file: does it parse with the grammar of the declared minimum Python (message if not) -/\n")
    out.append("def syntaxTable : List (String × Option String) := [\n" + ",\n".join(
        "  (%s, %s)" % (lean_str(f), "none" if m is None else "some " + lean_str(m)) for f, m in sorted(syntax)) + "]\n")
    out.append("/-- install_requires of setup.py -/\n")
    out.append("def declaredRequirements : List String := [%s]\n" % ", ".join(lean_str(d) for d in declared))
    out.append("/-- files documented as needing an optional dependency -/\n")
    out.append("def optionalFiles : List String := [%s]\n" % ", ".join(
        lean_str(f) for fs in OPTIONAL.values() for f in fs))
    out.append("/-- names absent at the lower end of the declared dependency range (modelled knowledge) -/\n")
    out.append("def tooNew : List (String × String) := [%s]\n" % ", ".join(
        "(%s, %s)" % (lean_str(m), lean_str(a)) for m, a in TOO_NEW))
    out.append("end Gen.Refs\n")
    refs_text = "".join(out)

    out = []
    out.append("/-! GENERATED by harness/extract/refs.py from the INSTALLED numpy/scipy/h5py/stdlib - do not edit.\n"
               "`dir()` of every external module object that pyrex's source touches (C20). -/\n")
    out.append("namespace Gen.Env\n")
    for i, k in enumerate(importable):
        out.append("def names%d : List String := [%s]\n" % (i, ", ".join(lean_str(n) for n in env_tab[k])))
    out.append("def modules : List (String × List String) := [\n" + ",\n".join(
        "  (%s, names%d)" % (lean_str(k), i) for i, k in enumerate(importable)) + "]\n")
    out.append("/-- parameter names (usable as keywords) and `**kwargs` flag of every called library callable whose signature the\n"
               "INSTALLED library exposes to `inspect.signature`; callables without one (builtins, ufuncs) are absent -/\n")
    out.append("def signatures : List (String × List String × Bool) := [\n" + ",\n".join(
        "  (%s, [%s], %s)" % (lean_str(c), ", ".join(lean_str(n) for n in names), "true" if vk else "false")
        for c, (names, vk) in sorted(signatures.items())) + "]\n")
    out.append("end Gen.Env\n")
    return {"PyrexVerif/Gen/Refs.lean": refs_text, "PyrexVerif/Gen/Env.lean": "".join(out)}


if __name__ == "__main__":
    r = generate(sys.argv[1] if len(sys.argv) > 1 else "/repo")
    for k, v in r.items():
        print(k, len(v))
