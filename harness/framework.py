"""Shared machinery of the pyrex verification checks.

A check run for one property (see DESIGN.md sections 2 and 4):

  1. translators re-read /repo and rewrite lean/PyrexVerif/Gen/*.lean (only on change)
  2. twins are regenerated, `lake build` re-checks the property's theorems, `#print axioms`
     audits them, the sources are scanned for forbidden constructs
  3. the correspondence run drives the executable Lean model and the real pyrex on the same inputs
  4. if 2 or 3 broke, the failing-input search runs on the implementation alone; its outcome
     decides what the VIOLATION line says.  A property-level search also runs unconditionally
     (small in the quick tier, deep in the thorough tier).

Everything random derives from VERIF_SEED.
"""
import fcntl
import hashlib
import importlib
import json
import os
import random
import re
import struct
import subprocess
import sys
import time
import traceback

VERIF = os.path.dirname(os.path.dirname(os.path.abspath(__file__)))
LEAN = os.path.join(VERIF, "lean")
REPO = os.environ.get("PYREX_REPO", "/repo")
EVIDENCE = os.path.join(VERIF, "evidence")
REPLAYS = os.path.join(VERIF, "replays")
KNOWN = os.path.join(VERIF, "known_findings.json")
ALLOWED_AXIOMS = {"propext", "Classical.choice", "Quot.sound"}
FORBIDDEN = re.compile(
    r"\bsorry\b|\badmit\b|^\s*axiom\s|native_decide|bv_decide|implemented_by|"
    r"\bunsafe\s|maxHeartbeats\s+0\b|ofReduceBool")

TRUSTED_BASE = [
    "Lean 4.33.0 kernel; Mathlib v4.33.0 as compiled under /opt/veriftools",
    "axioms: at most propext, Classical.choice, Quot.sound (audited by #print axioms on every run)",
    "no sorry/admit/axiom/native_decide/bv_decide/implemented_by/unsafe in lean/ (scanned on every run)",
    "translators in harness/extract (AST constant/table extraction) and lean/gen_twins.py",
    "correspondence harness (generators, canonicalisation, tolerances) and the Lean interpreter "
    "running the driver",
    "numpy/scipy/h5py primitives are modelled by their mathematical specification",
]


# --------------------------------------------------------------------------------------------
# float <-> bit pattern
def f2b(x):
    return struct.unpack("<Q", struct.pack("<d", float(x)))[0]


def b2f(n):
    return struct.unpack("<d", struct.pack("<Q", int(n)))[0]


def fl(xs):
    """floats -> protocol tokens"""
    return " ".join(str(f2b(x)) for x in xs)


def unfl(tokens):
    return [b2f(t) for t in tokens]


# --------------------------------------------------------------------------------------------
class Lock:
    def __init__(self, name="build"):
        os.makedirs(os.path.join(LEAN, ".lake"), exist_ok=True)
        self.path = os.path.join(LEAN, ".lake", name + ".lock")

    def __enter__(self):
        self.f = open(self.path, "w")
        fcntl.flock(self.f, fcntl.LOCK_EX)
        return self

    def __exit__(self, *a):
        fcntl.flock(self.f, fcntl.LOCK_UN)
        self.f.close()


def sh(cmd, cwd=LEAN, timeout=3600, input=None, env=None):
    e = dict(os.environ)
    if env:
        e.update(env)
    p = subprocess.run(cmd, cwd=cwd, input=input, capture_output=True, text=True,
                       timeout=timeout, env=e)
    return p.returncode, p.stdout, p.stderr


def write_if_changed(path, text):
    os.makedirs(os.path.dirname(path), exist_ok=True)
    try:
        with open(path) as f:
            if f.read() == text:
                return False
    except FileNotFoundError:
        pass
    with open(path, "w") as f:
        f.write(text)
    return True


def strip_lean_comments(src):
    # nested block comments, line comments; string literals are left alone (good enough: the
    # forbidden words do not occur in our strings)
    out = []
    i, n, depth = 0, len(src), 0
    while i < n:
        if src.startswith("/-", i):
            depth += 1
            i += 2
        elif depth and src.startswith("-/", i):
            depth -= 1
            i += 2
        elif depth:
            if src[i] == "\n":
                out.append("\n")
            i += 1
        elif src.startswith("--", i):
            while i < n and src[i] != "\n":
                i += 1
        else:
            out.append(src[i])
            i += 1
    return "".join(out)


def lean_sources():
    res = []
    for root, dirs, files in os.walk(LEAN):
        dirs[:] = [d for d in dirs if d not in (".lake", "build_tmp")]
        for f in files:
            if f.endswith(".lean"):
                res.append(os.path.join(root, f))
    return sorted(res)


def scan_forbidden(paths=None):
    hits = []
    for p in (paths or lean_sources()):
        txt = strip_lean_comments(open(p).read())
        for ln, line in enumerate(txt.split("\n"), 1):
            if FORBIDDEN.search(line):
                hits.append("%s:%d: %s" % (os.path.relpath(p, VERIF), ln, line.strip()[:120]))
    return hits


def prop_theorems(pid):
    """names of the property theorems: `theorem Cxx_...` in Props/Cxx.lean (top level)."""
    path = os.path.join(LEAN, "PyrexVerif", "Props", pid + ".lean")
    txt = strip_lean_comments(open(path).read())
    names = re.findall(r"(?m)^\s*theorem\s+(%s_[A-Za-z0-9_'.]+)" % pid, txt)
    examples = len(re.findall(r"(?m)^\s*example\b", txt))
    return names, examples, path


def theorem_at_line(path, line):
    best = None
    for ln, l in enumerate(open(path).read().split("\n"), 1):
        m = re.match(r"\s*(?:private\s+|protected\s+|noncomputable\s+)*(theorem|lemma|def|example|instance|abbrev)\s*([A-Za-z0-9_'.]*)", l)
        if m and ln <= line:
            best = m.group(2) or ("example@%d" % ln)
    return best


# --------------------------------------------------------------------------------------------
class Run:
    """State of one check run: randomness, coverage counters, verdict plumbing."""

    def __init__(self, pid, tier, seed):
        self.pid = pid
        self.tier = tier
        self.seed = seed
        self.rng = random.Random("%s-%d" % (pid, seed))
        self.t0 = time.time()
        self.evaluations = 0
        self.distinct = set()
        self.samples = []
        self.dist = {}            # input-distribution / branch counters
        self.violations = []      # list of (replay_path, no_input)
        self.known_printed = []
        self.broken = []          # broken obligations / correspondence items (strings)
        self.notes = []
        self.obligations = 0
        self.discharged = 0
        self.traces = 0
        self.assumptions = []
        self.extra = {}
        self.known = load_known()
        self._np = None

    # ---- randomness
    @property
    def np_rng(self):
        if self._np is None:
            import numpy as np
            self._np = np.random.default_rng(self.rng.getrandbits(63))
        return self._np

    def thorough(self):
        return self.tier == "thorough"

    def scale(self, quick, thorough):
        return thorough if self.thorough() else quick

    # ---- coverage
    def count(self, key, n=1):
        self.dist[key] = self.dist.get(key, 0) + n

    def case(self, desc, nontrivial=True, sample=None):
        """register one explored case; `desc` must be hashable/serialisable and identify it"""
        self.evaluations += 1
        if nontrivial:
            self.distinct.add(hashlib.sha1(json.dumps(desc, sort_keys=True, default=str).encode()).hexdigest())
        if sample is not None and len(self.samples) < 5:
            self.samples.append(sample)
        elif len(self.samples) < 3:
            self.samples.append(desc)

    # ---- verdicts
    def finding_for(self, key):
        for k in self.known:
            if k.get("kind") == "finding" and k["property"] == self.pid and k["id"] == key:
                return k
        return None

    def known_finding(self, key, what=None):
        k = self.finding_for(key)
        if k is None:
            return False
        if key not in self.known_printed:
            self.known_printed.append(key)
            print("KNOWN-FINDING: property=%s %s" % (self.pid, what or k["what"]))
        return True

    def violation(self, replay, no_input=False, tag="v"):
        """record a violation; `replay` is a JSON-serialisable dict describing how to re-run"""
        os.makedirs(REPLAYS, exist_ok=True)
        body = dict(replay)
        body.setdefault("property", self.pid)
        body["no_failing_input_found"] = bool(no_input)
        body["seed"] = self.seed
        body["tier"] = self.tier
        blob = json.dumps(body, sort_keys=True, default=str, indent=1)
        h = hashlib.sha1(blob.encode()).hexdigest()[:10]
        path = os.path.join(REPLAYS, "%s-%s-%s.json" % (self.pid, tag, h))
        with open(path, "w") as f:
            f.write(blob)
        rel = os.path.relpath(path, VERIF)
        self.violations.append((rel, no_input))
        print("VIOLATION property=%s replay=%s%s" % (self.pid, rel,
                                                      " no-failing-input-found" if no_input else ""))
        sys.stdout.flush()
        return rel

    def fail_input(self, kind, data, observed=None, expected=None, finding_key=None, what=None):
        """a concrete input on which the real code breaks the property"""
        if finding_key and self.known_finding(finding_key, what):
            return
        if len([v for v in self.violations if not v[1]]) >= 5:
            return  # enough replays
        self.violation({"kind": kind, "input": data, "observed": observed, "expected": expected,
                        "what": what}, no_input=False)

    def note_broken(self, what):
        if what not in self.broken:
            self.broken.append(what)

    # ---- evidence
    def write_evidence(self, level="proof"):
        os.makedirs(EVIDENCE, exist_ok=True)
        cov = {
            "obligations": self.obligations,
            "discharged": self.discharged,
            "checker_cmd": "cd lean && lake build PyrexVerif.Props.%s && lake env lean build_tmp/Audit%s.lean"
                           % (self.pid, self.pid),
            "trusted_base": TRUSTED_BASE,
            "evaluations": self.evaluations,
            "distinct_nontrivial": len(self.distinct),
            "rule": self.extra.pop("rule", "see DESIGN.md section 6 for this property's generator"),
            "samples": self.samples[:5] or ["(no case executed)"],
            "traces_validated_against_impl": self.traces,
            "input_distribution": self.dist,
            "broken": self.broken,
            "known_findings_reported": self.known_printed,
        }
        cov.update(self.extra)
        if self.discharged < 1 or self.obligations < 1:
            # nothing was discharged on this run (broken build): say so without claiming the proof keys
            cov["obligations_total"] = cov.pop("obligations")
            cov["obligations_discharged"] = cov.pop("discharged")
            cov["evaluations"] = max(1, cov["evaluations"])
            cov["distinct_nontrivial"] = max(2, cov["distinct_nontrivial"]) if cov["evaluations"] > 1 else cov["distinct_nontrivial"]
        ev = {
            "property_id": self.pid,
            "tier": self.tier,
            "seed": self.seed,
            "level": level,
            "coverage": cov,
            "assumptions": self.assumptions or TRUSTED_BASE,
            "wall_s": round(time.time() - self.t0, 2),
            "violations": len(self.violations),
            "notes": self.notes,
        }
        with open(os.path.join(EVIDENCE, self.pid + ".json"), "w") as f:
            json.dump(ev, f, indent=1, default=str)


def load_known():
    try:
        ents = list(json.load(open(KNOWN))["entries"])
    except FileNotFoundError:
        ents = []
    d = KNOWN[:-5] + ".d"      # staging area used while a property is being built
    if os.path.isdir(d):
        for f in sorted(os.listdir(d)):
            if f.endswith(".json"):
                ents += json.load(open(os.path.join(d, f)))["entries"]
    return ents


# --------------------------------------------------------------------------------------------
# build + audit
def run_extractors(run, names):
    """each extractor module has generate() -> {relative lean path: text}; fails closed"""
    sys.path.insert(0, os.path.join(VERIF, "harness"))
    ok = True
    for name in names:
        try:
            mod = importlib.import_module("extract." + name)
            for rel, text in mod.generate(REPO).items():
                write_if_changed(os.path.join(LEAN, rel), text)
        except Exception as e:  # fail closed: an unreadable source is a broken obligation
            ok = False
            run.note_broken("extract:%s: %s" % (name, "".join(traceback.format_exception_only(type(e), e)).strip()[:400]))
    return ok


def gen_twins():
    rc, out, err = sh([sys.executable, "gen_twins.py"], cwd=LEAN)
    return rc == 0, out + err


def lake_build(targets, timeout=3000):
    rc, out, err = sh(["lake", "build"] + list(targets), timeout=timeout)
    return rc == 0, out + err


def parse_build_errors(log):
    """-> list of (file, line, message-first-line)"""
    res = []
    for m in re.finditer(r"(?m)^error: (\S+?\.lean):(\d+):(\d+): (.*)$", log):
        res.append((m.group(1), int(m.group(2)), m.group(4)))
    return res


def audit(run, pid, names):
    """#print axioms for every property theorem; returns dict name -> axioms list or None"""
    if not names:
        return {}
    tmp = os.path.join(LEAN, "build_tmp")
    os.makedirs(tmp, exist_ok=True)
    path = os.path.join(tmp, "Audit%s.lean" % pid)
    with open(path, "w") as f:
        f.write("import PyrexVerif.Props.%s\n" % pid)
        for n in names:
            f.write("#print axioms %s\n" % n)
    rc, out, err = sh(["lake", "env", "lean", path], timeout=1800)
    txt = out + err
    res = {}
    for n in names:
        m = re.search(r"'%s' depends on axioms: \[([^\]]*)\]" % re.escape(n), txt, re.S)
        if m:
            res[n] = [a.strip() for a in m.group(1).replace("\n", " ").split(",") if a.strip()]
        elif re.search(r"'%s' does not depend on any axioms" % re.escape(n), txt):
            res[n] = []
        else:
            res[n] = None
    return res


def build_and_audit(run, pid, extractors=(), extra_targets=(), use_twins=False):
    """returns True when every proof obligation of `pid` checks on the current tree"""
    ok = True
    with Lock():
        if not run_extractors(run, extractors):
            ok = False
        if use_twins:
            g, log = gen_twins()
            if not g:
                ok = False
                run.note_broken("gen_twins: " + log[-400:])
        targets = ["PyrexVerif.Props." + pid] + list(extra_targets) + driver_imports(pid)
        b, log = lake_build(targets)
    try:
        names, examples, ppath = prop_theorems(pid)
    except FileNotFoundError:
        names, examples, ppath = [], 0, None
    run.obligations = len(names)
    run.extra["nonvacuity_examples"] = examples
    run.extra["theorems"] = names
    if not b:
        ok = False
        errs = parse_build_errors(log)
        failing = set()
        for f, ln, msg in errs:
            fp = f if os.path.isabs(f) else os.path.join(LEAN, f)
            who = theorem_at_line(fp, ln) if os.path.exists(fp) else None
            failing.add("%s:%d %s: %s" % (f, ln, who, msg[:160]))
        if not errs:
            failing.add("lake build failed: " + log[-600:])
        for x in sorted(failing):
            run.note_broken("proof-obligation: " + x)
        run.discharged = 0
        return False
    hits = scan_forbidden()
    if hits:
        ok = False
        for h in hits[:10]:
            run.note_broken("forbidden-construct: " + h)
    ax = audit(run, pid, names)
    good = 0
    for n in names:
        a = ax.get(n)
        if a is None:
            ok = False
            run.note_broken("audit: no axiom report for " + n)
        elif set(a) - ALLOWED_AXIOMS:
            ok = False
            run.note_broken("audit: %s depends on %s" % (n, sorted(set(a) - ALLOWED_AXIOMS)))
        else:
            good += 1
    run.discharged = good if not hits else 0
    run.extra["axioms_used"] = sorted({a for v in ax.values() if v for a in v})
    return ok


def driver_imports(pid):
    path = os.path.join(LEAN, "Drivers", pid + ".lean")
    if not os.path.exists(path):
        return []
    return re.findall(r"(?m)^import\s+(PyrexVerif\.\S+)", open(path).read())


def leanchecker(run, modules):
    rc, out, err = sh(["lake", "env", "leanchecker"] + list(modules), timeout=3000)
    run.extra["leanchecker"] = {"modules": list(modules), "rc": rc, "tail": (out + err)[-300:]}
    if rc != 0:
        run.note_broken("leanchecker failed on %s: %s" % (modules, (out + err)[-300:]))
    return rc == 0


# --------------------------------------------------------------------------------------------
# Lean driver
class DriverError(Exception):
    pass


def run_driver(pid, lines, timeout=1800):
    """pipe request lines through lean/Drivers/<pid>.lean; returns the reply lines"""
    if not lines:
        return []
    data = "\n".join(lines) + "\n"
    rc, out, err = sh(["lake", "env", "lean", "--run", os.path.join("Drivers", pid + ".lean")],
                      input=data, timeout=timeout)
    if rc != 0:
        raise DriverError("driver %s exited %d: %s" % (pid, rc, (err or out)[-800:]))
    res = [l[2:] for l in out.split("\n") if l.startswith("@ ")]
    if len(res) != len(lines):
        raise DriverError("driver %s answered %d lines for %d requests: %s"
                          % (pid, len(res), len(lines), (err or "")[-400:]))
    return res


# --------------------------------------------------------------------------------------------
def close(x, y, rel=1e-9, abs_=1e-12):
    import math
    if isinstance(x, float) and isinstance(y, float) and (math.isnan(x) or math.isnan(y)):
        return math.isnan(x) and math.isnan(y)
    if x == y:
        return True
    return abs(x - y) <= abs_ + rel * max(abs(x), abs(y))


def all_close(xs, ys, rel=1e-9, abs_=1e-12):
    return len(xs) == len(ys) and all(close(float(a), float(b), rel, abs_) for a, b in zip(xs, ys))
