#!/usr/bin/env python3
"""Regenerates the machine-maintained tables of DESIGN.md (between the BEGIN/END markers):
per-property status (theorem counts, partial theorems, known findings) and the seeded-change results."""
import json
import os
import re
import sys

VERIF = os.path.dirname(os.path.dirname(os.path.abspath(__file__)))
sys.path.insert(0, os.path.join(VERIF, "harness"))
import framework as fw  # noqa


def status_table():
    rows = ["| id | theorems (`Cxx_*`) | of which `_partial` | non-vacuity examples | known findings | translators |",
            "|----|-----|-----|-----|-----|-----|"]
    known = fw.load_known()
    for i in range(1, 21):
        pid = "C%02d" % i
        try:
            names, ex, _ = fw.prop_theorems(pid)
        except FileNotFoundError:
            rows.append("| %s | not built | | | | |" % pid)
            continue
        partial = [n for n in names if "partial" in n]
        ks = sorted({k["id"] for k in known if k.get("kind") == "finding" and k["property"] == pid},
                    key=lambda s: int(s[1:]))
        mod = open(os.path.join(VERIF, "harness", "props", pid + ".py")).read()
        m = re.search(r"(?m)^EXTRACTORS\s*=\s*(\[[^\]]*\])", mod)
        rows.append("| %s | %d | %s | %d | %s | %s |" % (pid, len(names), ", ".join("`%s`" % p for p in partial) or "–", ex,
                                                       ", ".join(ks) or "–", (m.group(1) if m else "[]").replace("|", "/")))
    return "\n".join(rows)


def seeded_table():
    path = os.path.join(VERIF, "seeded", "RESULTS.json")
    res = json.load(open(path)) if os.path.exists(path) else {}
    rows = ["| seeded change | property | what it does | needs to manifest | demo fails with change / passes without | check verdict | concrete replay |",
            "|----|----|----|----|----|----|----|"]
    tot = caught = conc_n = obsolete = 0
    missed = []
    for name in sorted(n for n in os.listdir(os.path.join(VERIF, "seeded")) if os.path.isdir(os.path.join(VERIF, "seeded", n))):
        meta = json.load(open(os.path.join(VERIF, "seeded", name, "meta.json")))
        r = res.get(name, {})
        chk = [v for k, v in r.items() if k.startswith("check_") and isinstance(v, dict)]
        verdict = "obsolete (see meta.json)" if meta.get("obsolete") else "not run yet" if not chk else ("VIOLATION" if any(c["rc"] == 1 for c in chk) else "**missed**")
        conc = "yes" if any(c.get("concrete_replay") for c in chk) else ("no" if chk else "")
        demo = "%s / %s" % ("yes" if r.get("demo_with_change_rc") == 1 else "?", "yes" if r.get("demo_on_clean_tree_rc") == 0 else "?")
        rows.append("| %s | %s | %s | %s | %s | %s | %s |" % (name, meta["property"], meta.get("what", "").replace("|", "/"),
                                                            meta.get("needs", "").replace("|", "/"), demo, verdict, conc))
        if meta.get("obsolete"):
            obsolete += 1
        else:
            tot += 1
            if verdict == "VIOLATION":
                caught += 1
                conc_n += conc == "yes"
            else:
                missed.append(name)
    head = ("**Summary (last run of each change against the final checks):** %d seeded changes are kept, %d are obsolete "
            "(neutralised by a repair; see their meta.json); of the remaining %d, %d make the property's check print VIOLATION "
            "(%d with a concrete replay, %d as a broken obligation only) and %d do not: %s.\n"
            % (tot + obsolete, obsolete, tot, caught, conc_n, caught - conc_n, len(missed), ", ".join(missed) or "none"))
    return head + "\n" + "\n".join(rows)


def benign_table():
    d = os.path.join(VERIF, "benign")
    path = os.path.join(d, "RESULTS.json")
    res = json.load(open(path)) if os.path.exists(path) else {}
    rows = ["| rewrite | kind | files | checks run | outcome | what no longer checked (if any) |",
            "|----|----|----|----|----|----|"]
    if not os.path.isdir(d):
        return "\n".join(rows)
    for name in sorted(n for n in os.listdir(d) if os.path.isdir(os.path.join(d, n))):
        meta = json.load(open(os.path.join(d, name, "meta.json")))
        r = res.get(name, {})
        chk = {k[6:]: v for k, v in r.items() if k.startswith("check_") and isinstance(v, dict)}
        why = "; ".join("%s: %s" % (k, next((l.strip()[8:140] for l in v["lines"] if l.strip().startswith("broken:")), "?"))
                        for k, v in chk.items() if v["rc"] != 0)
        rows.append("| %s | %s | %s | %s | %s | %s |" % (name, meta.get("what", ""), ", ".join(f.replace("pyrex/", "") for f in meta.get("files", [])),
                                                      " ".join(sorted(chk)) or "not run yet", r.get("outcome", r.get("error", "")),
                                                      why.replace("|", "/")))
    return "\n".join(rows)


def summary_last_column(s):
    """section 0 table: the last cell of each `| Cxx |` row lists the repairs and findings of that property"""
    known = fw.load_known()
    out = []
    in0 = False
    for line in s.split("\n"):
        if line.startswith("## 0. Summary"):
            in0 = True
        elif line.startswith("## 1. "):
            in0 = False
        m = re.match(r"^\| (C\d\d) \|", line) if in0 else None
        if m:
            pid = m.group(1)
            num = lambda k: int(k["id"][1:])
            fx = sorted((k for k in known if k.get("kind") == "fixed" and k["property"] == pid), key=num)
            fi = sorted((k for k in known if k.get("kind") == "finding" and k["property"] == pid), key=num)
            cell = "; ".join(x for x in ("repaired: " + ", ".join(k["id"] for k in fx) if fx else "",
                                         "known findings: " + ", ".join(k["id"] for k in fi) if fi else "") if x) or "holds"
            cells = line.rstrip().rstrip("|").split("|")
            cells[-1] = " " + cell + " "
            line = "|".join(cells) + "|"
        out.append(line)
    return "\n".join(out)


def main():
    p = os.path.join(VERIF, "DESIGN.md")
    s = summary_last_column(open(p).read())
    for tag, fn in (("STATUS", status_table), ("SEEDED", seeded_table), ("BENIGN", benign_table)):
        b, e = "<!-- BEGIN %s -->" % tag, "<!-- END %s -->" % tag
        if b in s:
            s = s[:s.index(b) + len(b)] + "\n" + fn() + "\n" + s[s.index(e):]
    open(p, "w").write(s)


if __name__ == "__main__":
    main()
