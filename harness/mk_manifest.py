#!/usr/bin/env python3
"""Regenerates /verif/MANIFEST.json from the property modules present in harness/props.
Every property of properties.jsonl without a module is listed under not_applicable with the reason
recorded in PENDING below (kept current by hand)."""
import ast
import json
import os

VERIF = os.path.dirname(os.path.dirname(os.path.abspath(__file__)))
PENDING = {}  # property id -> reason it is not claimed


def module_meta(path):
    tree = ast.parse(open(path).read())
    meta = {}
    for node in tree.body:
        if isinstance(node, ast.Assign) and len(node.targets) == 1 and isinstance(node.targets[0], ast.Name):
            if node.targets[0].id in ("LEVEL", "LEVEL_TEXT", "LEVEL_NOTE", "TECHNIQUE", "DESIGN_REF"):
                try:
                    meta[node.targets[0].id] = ast.literal_eval(node.value)
                except Exception:
                    pass
    return meta


def main():
    props = [json.loads(l) for l in open(os.path.join(VERIF, "properties.jsonl"))]
    checks, na = [], []
    for p in props:
        pid = p["id"]
        mod = os.path.join(VERIF, "harness", "props", pid + ".py")
        if not os.path.exists(mod):
            na.append({"property_id": pid,
                       "reason": PENDING.get(pid, "not claimed yet: model, theorems and correspondence check "
                                                   "for this property are not built (see DESIGN.md section 6)")})
            continue
        m = module_meta(mod)
        checks.append({
            "property_id": pid,
            "quick_cmd": "/venv/bin/python -W ignore harness/check.py %s --tier quick" % pid,
            "thorough_cmd": "/venv/bin/python -W ignore harness/check.py %s --tier thorough" % pid,
            "evidence_file": "evidence/%s.json" % pid,
            "replay_cmd_template": "/venv/bin/python -W ignore harness/check.py %s --replay {path}" % pid,
            "engine": "lean4-proof+correspondence",
            "level_claimed": {
                "category": m.get("LEVEL", "proof"),
                "text": m.get("LEVEL_TEXT", "Lean 4 theorems about a model of the code, tied to the source by a "
                                            "differential (correspondence) run on every check"),
                "design_ref": m.get("DESIGN_REF", "DESIGN.md section 6, " + pid),
            },
            "level_note": m.get("LEVEL_NOTE", "trusted: Lean kernel, standard axioms, the harness; see DESIGN.md section 7"),
            "technique": m.get("TECHNIQUE", "Lean 4 theorems over an executable model + differential correspondence run"),
        })
    man = {
        "version": 1,
        "setup_cmd": "cd lean && /venv/bin/python gen_twins.py && /venv/bin/python gen_root.py && lake build",
        "hooks": {
            "guard": "PYREX_VERIF",
            "enable": "no hooks are needed: checks import /repo in-process, feed numpy.random from the harness "
                      "and inspect HDF5 files with h5py",
            "baseline_off_cmd": "cd /repo && /venv/bin/python -m pytest -ra -q -p no:cacheprovider --timeout=900 "
                                "--continue-on-collection-errors",
            "source_commits": [],
            "add_only": True,
        },
        "engines": [{
            "name": "lean4-proof+correspondence",
            "path": "lean/ + harness/check.py",
            "serves_properties": [c["property_id"] for c in checks],
            "kind_free_text": "Lean 4 (4.33.0 + Mathlib) theorems about executable models; translators regenerate "
                              "tables from /repo; a differential run drives model and implementation on the same inputs",
        }],
        "checks": checks,
        "not_applicable": na,
        "notes": "See DESIGN.md. Known findings: known_findings.json. Seeded mutations: seeded/.",
    }
    with open(os.path.join(VERIF, "MANIFEST.json"), "w") as f:
        json.dump(man, f, indent=1)
    print("checks:", [c["property_id"] for c in checks], "unclaimed:", [x["property_id"] for x in na])


if __name__ == "__main__":
    main()
