"""C01 - every ray-trace solution is a true ray joining its two endpoints.

Float twin of lean/twin/Ray.body against pyrex.ray_tracing (Specialized* and Basic* classes);
launch angles found by brentq are treated as certificates; independent RK4 oracle for the search."""
import math
import warnings

import numpy as np

import framework as fw

LEVEL = "proof"
USE_TWINS = True
EXTRACTORS = ["ray_constants", "ray_formulas"]
CHECKER_MODULES = ["PyrexVerif.Proofs.RayBasic", "PyrexVerif.Proofs.RayDeriv", "PyrexVerif.Proofs.RayFTC", "PyrexVerif.Proofs.RayPath", "PyrexVerif.Proofs.RayCut", "PyrexVerif.Proofs.RayFormulaBridge",
                   "PyrexVerif.Proofs.RayTrap"]
TECHNIQUE = ("Lean 4 theorems over the real-number reading of a twin model (HasDerivAt + fundamental theorem of "
             "calculus for the closed-form ray integrals) + constants translator + Float-twin differential run "
             "with root-finder results checked as certificates + independent RK4 ray-ODE oracle")
RULE = ("ices {Antarctic, Arasim, Greenland, random (n0,k,a)} x endpoint pairs drawn in labelled classes "
        "(shallow/shallow, deep/deep, across z_uniform, near-vertical incl. the K3 region, exactly vertical pairs "
        "(rho == 0, both orders), an endpoint exactly on the top / bottom of the valid range or on z_uniform, equal "
        "depths, within 1% of direct_r_max / indirect_r_max, source above / below receiver) x dz in {0.1,1,5} x "
        "{SpecializedRayTracer, BasicRayTracer} x endpoint containers drawn independently for source and receiver from "
        "{tuple, list, float ndarray (fractional values), int64 / int32 ndarray, tuple / list of Python ints (whole "
        "values)} - mixed integer x fractional pairs included, the reference being the caller's own float copy x "
        "caller-side reuse of the endpoint buffers {none, overwritten in place right after construction, overwritten "
        "after `solutions` was read and before any path property is}; ices incl. a top of the valid range below 0 and "
        "non-default / None index_above, index_below; an endpoint outside the valid range (no solutions allowed); the "
        "same endpoints traced back to back in every ice model; one tracer object re-used by reassigning from_point / "
        "to_point / dz (query-reassign-query sequences of three geometries, first geometry cycling through the "
        "classes); paths of the previous case re-read after the next tracer was solved (several live handles); one ice "
        "object re-parameterised in place (n0, k, a, valid_range assigned on an AntarcticIce / GreenlandIce / the "
        "package default ice) between two traces, second geometry with beta between the old and new surface index, "
        "compared with a freshly constructed ice; plus "
        "formula-level requests (z, beta, deep) for the three "
        "closed forms in all three branches and tracer-level requests (r functions at random angles, angle "
        "conversion, expected_solutions); non-trivial = the tracer returned a solution or the formula request "
        "has gamma>0; distinct = distinct (ice, endpoints, tracer, dz, solution) / (ice, op, arguments) tuples")
LEVEL_TEXT = ("theorems over R for every exponential ice (0<k, a>0, n>0 on the segment): Snell invariant and launch/"
              "reception invariant; the three closed forms are antiderivatives of tan(theta), sec(theta), n sec(theta)/c "
              "(shallow branch) and of the uniform-index integrands (deep branch, with the 1e-5 index bound); closed "
              "form = line integral on every segment above z_uniform *including up to the turning depth* (improper "
              "integral, via the FTC for non-negative derivatives), below z_uniform, and across it (int_diff "
              "bookkeeping); turning/reflection dichotomy; direct rays never turn; launch-angle conversion keeps beta "
              "and reverses the vertical sense; composite-trapezoid error bound for monotone integrands and its "
              "instance for the numeric direct path; the numeric indirect path incl. a bound on the piece cut off "
              "by z_turn_proximity (O(sqrt dz) at a refractive turn-over, O(dz) at a surface reflection); "
              "near-vertical branch values and bound; regenerated constants; formula bridge (the expressions of "
              "_int_terms and of every branch of the three indefinite integrals, translated node by node from the "
              "source, equal the model definitions). "
              "The same model text run on Float agrees with pyrex on every sampled input, and every brentq root is "
              "certified against the model's r function")
LEVEL_NOTE = ("floating-point rounding is not modelled (tolerance run; the amplified cancellation in log_term_1 is "
              "budgeted explicitly and reported as known finding K9 where it exceeds 1 mm); brentq is untrusted search "
              "whose results are certified; the deep-ice branch (z<z_uniform) integrates a uniform index n0: theorems "
              "state its integrands and the 1e-5 relative index bound, not a bound on the resulting path error (the "
              "search budgets it to first order); no _partial theorem remains (C01_basic_indirect_error[_reflect] bound "
              "the numeric indirect path including the cut-off piece; they are stated for the integrand "
              "tan(arcsin(beta/n(z))) and arbitrary positive cell counts, C01_basicIndirectR_unfold shows the model's "
              "_indirect_r has that form with f = basicTan); _z_int_uniform_correction, z_integral and the tracer "
              "methods are multi-statement and tied by correspondence only, not by the formula translator; "
              "near-vertical branch |beta|<=beta_tolerance is a stated approximation (known finding K3; in the search K3 "
              "only explains a horizontal miss <= r(beta_tolerance), a length/tof deficit <= sec(theta_max)-1 and a "
              "direction error <= beta_tolerance/n_min - vertical sense of the directions, arrival at the receiver "
              "depth, classification and the vertical line integrals are checked inside the K3 band and for rho == 0 "
              "like everywhere else); known "
              "findings K7 (BasicRayTracer._indirect_r jumps when a trapezoid leg changes its cell count), K8 "
              "(SpecializedRayTracer link_range interpolation next to max_angle) are recorded, their input classes are "
              "recognised from the implementation alone and any miss outside them is a violation; state across calls: a tracer/path "
              "must answer for the endpoints it was constructed with (compared with a tracer built from private copies "
              "and with RK4 from the original source) and must not write into the caller's buffers; a "
              "re-used tracer (attributes reassigned) must answer like a fresh one, and earlier paths must keep their "
              "values when later tracers are solved; known finding K26 (uniform-index treatment below "
              "z_uniform: unbounded ray error for long near-horizontal deep rays; C01_deep_branch_not_exact proves the "
              "inexactness, the search reports residues inside the first-order bound as K26, beyond it as violations) "
              "and K27 (numeric indirect path: length/tof deficit from z_turn_proximity and from legs that get no "
              "trapezoid cell, deficit-only allowance); hypotheses of the theorems that exclude inputs: 0<k, 0<a "
              "(not an ice otherwise: the code returns nothing or raises, probed), n>0 on the segment (physical), "
              "beta>tolerance (else C01_near_vertical_branch/K3), beta<=n at the upper end (ray exists; brentq bracket), "
              "cell counts >= 1 (0-cell legs: K7/K27), dz>0 (dz<=0: raises or nothing, probed); the whole valid range is "
              "sampled; where index(z1)/index(z0) rounds to 1 for different depths or an index rounds to n0 the "
              "tracers raise ValueError('... NaN') / OverflowError and return nothing (crash_class: exactly these "
              "exception types are accepted in exactly this class, same mechanism as K11/K17); a rare ValueError NaN "
              "of the numeric tracer next to the shadow boundary and BasicRayTracer with |z_from - z_to| < dz "
              "(returns no solutions) return no path and are counted, not claimed")
ASSUMPTIONS = ["scipy.optimize.brentq terminates; its result is only used after the certificate check",
               "np.linspace / trapz(trapezoid) follow their mathematical specification",
               "the RK4 oracle (step 0.5 m in arc length, substeps of 8 mm around turning points, bisection onto "
               "the receiver depth) is accurate to 1e-6 m on the sampled rays (checked by step halving in the deep "
               "tier)",
               "search budgets: first-order bound of the uniform-index approximation below z_uniform, rounding-"
               "amplification model of log_term_1 (8 eps (A+B)^2/(beta (n0-n))^2), monotone-trapezoid bound x1.5 "
               "plus the z_turn_proximity cut for the numeric tracer"]

C = 299792458.0
# Values of the source constants at the time the known findings were recorded.  The *search* (oracle budgets
# and finding classifiers) uses these pinned values, never the current ones of the implementation: widening
# beta_tolerance or lowering uniformity_factor in the source must show up as misses outside the recorded classes.
# (The model side is regenerated from the source, and Props/C01.lean `C01_constants` pins the same values.)
PINNED_BETA_TOLERANCE = 0.005
PINNED_UNIFORMITY_FACTOR = 0.99999
PINNED_LINK_RANGE = 1e-6


# ------------------------------------------------------------------------------------------------
# inputs
def _pyrex():
    warnings.filterwarnings("ignore")
    import logging
    logging.getLogger("pyrex").setLevel(logging.CRITICAL)      # pyrex logs an error before re-raising
    import pyrex  # noqa: F401
    from pyrex import ray_tracing, ice_model
    return ray_tracing, ice_model


def ices(run, nrandom):
    rt, im = _pyrex()
    out = [("antarctic", im.AntarcticIce()), ("arasim", im.ArasimIce()), ("greenland", im.GreenlandIce())]
    for _ in range(nrandom):
        n0 = run.rng.uniform(1.5, 2.0)
        k = run.rng.uniform(0.2, min(0.6, n0 - 1.05))
        a = 10 ** run.rng.uniform(-2.2, -1.4)
        lo = -run.rng.uniform(1500, 3500)
        if run.rng.random() < 0.2:
            lo = -run.rng.uniform(250, 600)       # shallow valid range: depth_with_index clamps z_uniform to lo
        # top of the valid range at or below 0, declared indices outside the range default / None / custom
        hi = run.rng.choice([0, 0, -round(run.rng.uniform(5, 60), 1)])
        ab = run.rng.choice([1, 1, None, 1.2])
        be = run.rng.choice([None, None, round(n0, 4)])
        out.append(("random", im.AntarcticIce(n0=round(n0, 4), k=round(k, 4), a=round(a, 5),
                                              valid_range=(round(lo), hi), index_above=ab, index_below=be)))
    return out


def ice_toks(ice):
    opt = lambda v: "-" if v is None else str(fw.f2b(v))
    return "%s %s %s" % (fw.fl([ice.n0, ice.k, ice.a, ice.valid_range[0], ice.valid_range[1]]),
                         opt(ice._index_above), opt(ice._index_below))


def ice_desc(name, ice):
    return [name, ice.n0, ice.k, ice.a, ice.valid_range[0], ice.valid_range[1], ice._index_above, ice._index_below]


def make_ice(d):
    rt, im = _pyrex()
    if len(d) >= 8:
        return im.AntarcticIce(n0=d[1], k=d[2], a=d[3], valid_range=(d[4], d[5]), index_above=d[6], index_below=d[7])
    return im.AntarcticIce(n0=d[1], k=d[2], a=d[3], valid_range=(d[4], d[5]))


def z_uniform(ice, uf=PINNED_UNIFORMITY_FACTOR):
    return float(ice.depth_with_index(ice.n0 * uf))


def z_uniform_impl(ice):
    rt, im = _pyrex()
    return float(ice.depth_with_index(ice.n0 * rt.SpecializedRayTracePath.uniformity_factor))


GEOM_CLASSES = ["shallow", "deep", "across", "near_vertical", "k3_region", "near_direct_max", "near_indirect_max",
                "equal_depth", "vertical", "bounds", "outside", "deep_far", "basic_turn_near"]


def crash_class(ice, z_from, z_to):
    """inputs on which the unchanged tracers raise instead of returning paths: the index at an endpoint is not
    distinguishable from n0 in double precision (depth_with_index gives -inf -> OverflowError in the numeric
    tracer) or index(z1)/index(z0) rounds to 1 for different depths (max_angle = pi/2, alpha = 0 -> ValueError
    'function value ... is NaN' from brentq).  No path is returned, so the property is not broken; the search
    accepts exactly ValueError / OverflowError in exactly this class."""
    with np.errstate(all="ignore"):
        na, nb = float(ice.index(z_from)), float(ice.index(z_to))
    return na == float(ice.n0) or nb == float(ice.n0) or (z_from != z_to and na == nb) \
        or min(na, nb) / max(na, nb) == 1.0


def geometry(run, ice, cls_name):
    """-> (z_from, z_to, rho) or None when the class cannot be realised"""
    rt, im = _pyrex()
    lo, hi = ice.valid_range
    # below this depth n(z) is not distinguishable from n0 in double precision (n0 - n < 1e-13 n0): there
    # max_angle = arcsin(n(z1)/n(z0)) rounds to pi/2 and the Specialized tracer divides by alpha = 0
    # (it raises ValueError: no path is returned, outside the claim; see LEVEL_NOTE)
    # (hypothesis audit) the whole valid range is sampled, the depths where n(z) rounds to n0 included: the
    # tracers work there in general; they crash exactly in `crash_class` below, which the search recognises
    top = hi - 3
    rng = run.rng
    if cls_name == "outside":
        # one endpoint outside the valid range (above the top / below the bottom): no solutions may be returned
        zin = rng.uniform(max(lo + 5, -1500), top)
        zout = rng.choice([hi + rng.uniform(0.01, 50), float(ice.valid_range[0]) - rng.uniform(0.01, 50)])
        za, zb = (zin, zout) if rng.random() < 0.5 else (zout, zin)
        return float(za), float(zb), float(rng.uniform(10, 800))
    zu = z_uniform(ice)
    rng = run.rng
    if cls_name == "shallow":
        za, zb = rng.uniform(max(zu, lo) + 5, top), rng.uniform(max(zu, lo) + 5, top)
        rho = rng.uniform(10, 1500)
    elif cls_name == "deep":
        if zu - 20 < lo + 20:
            return None
        za, zb = rng.uniform(lo + 10, zu - 10), rng.uniform(lo + 10, zu - 10)
        rho = rng.uniform(10, 3000)
    elif cls_name == "across":
        if zu - 20 < lo + 20:
            return None
        za, zb = rng.uniform(lo + 10, zu - 10), rng.uniform(zu + 10, top)
        rho = rng.uniform(10, 3000)
    elif cls_name == "near_vertical":
        za, zb = rng.uniform(-1500, top), rng.uniform(-1500, top)
        za, zb = max(za, lo + 5), max(zb, lo + 5)
        if abs(za - zb) < 20:
            zb = za - 40 if za - 40 > lo else za + 40
        rho = abs(za - zb) * rng.uniform(0.004, 0.03)      # above the K3 region (0.0029 |dz|), both paths
        rho += (abs(za) + abs(zb)) * 0.0035 * rng.choice([0, 1])
    elif cls_name == "k3_region":
        za, zb = rng.uniform(-1200, min(-50, top)), rng.uniform(-1200, min(-50, top))
        za, zb = max(za, lo + 5), max(zb, lo + 5)
        if abs(za - zb) < 20:
            zb = za - 40 if za - 40 > lo else za + 40
        rho = abs(za - zb) * rng.uniform(0.0002, 0.0025)
    elif cls_name in ("near_direct_max", "near_indirect_max"):
        za, zb = rng.uniform(max(lo + 10, -1200), top), rng.uniform(max(lo + 10, -600), top)
        if abs(za - zb) < 12:
            zb = za - 30 if za - 30 > lo else za + 30
        t = rt.SpecializedRayTracer((0, 0, za), (100., 0, zb), ice)
        rmax = t.direct_r_max if cls_name == "near_direct_max" else t.indirect_r_max
        if rmax is None or not np.isfinite(rmax) or rmax > 6000 or rmax < 5:
            return None
        rho = float(rmax) * (1 + rng.choice([-1, 1]) * rng.uniform(0.0005, 0.01))
    elif cls_name == "vertical":
        # exactly vertically aligned endpoints (same x and y, rho == 0.0), both orders (the swap below)
        za, zb = rng.uniform(max(lo + 5, -1800), top), rng.uniform(max(lo + 5, -1800), top)
        if abs(za - zb) < 20:
            zb = za - 40 if za - 40 > lo else za + 40
        rho = 0.0
    elif cls_name == "bounds":
        # an endpoint exactly on a distinguished depth: top / bottom of the valid range, z_uniform
        special = rng.choice([float(hi), float(ice.valid_range[0]), z_uniform_impl(ice)])
        za = special
        zb = rng.uniform(max(lo + 5, -1500), top)
        if abs(za - zb) < 20:
            zb = zb - 40 if zb - 40 > lo else zb + 40
        rho = rng.uniform(10, 800)
        if rng.random() < 0.5:
            za, zb = zb, za
        return float(za), float(round(zb, 3)) if za == special else float(zb), float(rho)
    elif cls_name == "deep_far":
        # long, nearly horizontal rays between deep points (incl. equal deep depths): where the uniform-index
        # treatment below z_uniform matters most (known finding K26)
        if zu - 20 < lo + 20:
            return None
        za = rng.uniform(max(lo + 10, zu - 1500), zu - 10)
        zb = za if rng.random() < 0.3 else min(zu - 5, max(lo + 5, za + rng.uniform(-200, 200)))
        rho = 10 ** rng.uniform(math.log10(3e3), math.log10(4e4))
        if rng.random() < 0.3:
            rho = rng.uniform(50, 3000)
    elif cls_name == "basic_turn_near":
        # numeric tracer, ray turning over within a few dz above the higher endpoint (known finding K27)
        dzc = rng.choice([0.1, 1, 5])
        if max(lo + 60, -600, zu + 20) >= top - 30:
            return None
        z1 = rng.uniform(max(lo + 60, -600, zu + 20), top - 30)
        ztn = z1 + rng.uniform(0.2, 5) * dzc
        beta = ice.n0 - ice.k * math.exp(ice.a * ztn)
        z0 = z1 - rng.uniform(0.5, 40)
        rho = turn_leg(ice, beta, z0, ztn, "tan") + turn_leg(ice, beta, z1, ztn, "tan")
        if not rho < 2.0e4:
            return None
        za, zb = z0, z1
    elif cls_name == "equal_depth":
        # shallow only: in (numerically) uniform deep ice a ray between equal depths turns with
        # alpha = n0^2 - beta^2 ~ 1e-8, where every closed form is rounding noise
        za = rng.uniform(max(lo + 10, zu + 5, -800), top)
        zb = za
        rho = rng.uniform(10, 600)
    else:
        raise ValueError(cls_name)
    if rng.random() < 0.5:
        za, zb = zb, za
    if max(za, zb) > hi or min(za, zb) < ice.valid_range[0]:
        return None
    return float(round(za, 3)), float(round(zb, 3)), float(rho)


def endpoints(run, z_from, z_to, rho):
    phi = run.rng.uniform(-math.pi, math.pi)
    x0, y0 = run.rng.uniform(-500, 500), run.rng.uniform(-500, 500)
    A = (x0, y0, z_from)
    B = (x0 + rho * math.cos(phi), y0 + rho * math.sin(phi), z_to)
    return A, B


def tracer_classes():
    rt, im = _pyrex()
    return {"specialized": rt.SpecializedRayTracer, "basic": rt.BasicRayTracer}


CONTAINERS = ["tuple", "ndarray", "ndarray", "list", "intarray", "int32array", "inttuple", "intlist"]
INT_KINDS = ("intarray", "int32array", "inttuple", "intlist")
ALIAS_MODES = [None, "after_init", "after_solutions"]


def make_container(kind, P):
    if kind == "ndarray":
        return np.array(P, dtype=float)
    if kind == "intarray":
        return np.array([int(round(v)) for v in P], dtype=np.int64)
    if kind == "int32array":
        return np.array([int(round(v)) for v in P], dtype=np.int32)
    if kind == "inttuple":
        return tuple(int(round(v)) for v in P)          # Python ints
    if kind == "intlist":
        return [int(round(v)) for v in P]
    if kind == "list":
        return [float(v) for v in P]
    return tuple(float(v) for v in P)


def scramble(buf, P):
    """what a caller recycling one position buffer does: overwrite it in place with another point in the ice"""
    new = (P[0] + 13, P[1] - 7, min(0.5 * P[2] - 1, -1))
    if isinstance(buf, tuple):
        return
    for i in range(3):
        is_int = (isinstance(buf, np.ndarray) and buf.dtype.kind == "i") or (isinstance(buf, list) and isinstance(buf[i], int))
        buf[i] = int(new[i]) if is_int else new[i]


def solve(tname, A, B, ice, dz, alias=None, container="tuple"):
    """run the implementation; -> (tracer, [paths], (from_buffer, to_buffer)).
    `container`: how the endpoints are handed over - one kind for both or a pair (source kind, receiver kind)
    out of tuple / list / float ndarray (fractional values) and int64 / int32 ndarray, tuple / list of Python
    ints (the caller's values are then whole numbers); mixed pairs matter: a silent cast of one endpoint to
    the other's dtype would truncate it;
    `alias`: None, or the moment at which the harness overwrites the caller-side buffers in place -
    'after_init' (before anything is evaluated) or 'after_solutions' (after `solutions` was read, before any
    path property is).  The tracer's answers must be those of the endpoints it was constructed with."""
    cls = tracer_classes()[tname]
    kinds = tuple(container) if isinstance(container, (tuple, list)) else (container, container)
    bufs = (make_container(kinds[0], A), make_container(kinds[1], B))
    t = cls(bufs[0], bufs[1], ice, dz=dz)
    if alias == "after_init":
        scramble(bufs[0], A)
        scramble(bufs[1], B)
    with np.errstate(all="ignore"):
        sols = list(t.solutions)
    if alias == "after_solutions":
        scramble(bufs[0], A)
        scramble(bufs[1], B)
    return t, sols, bufs


def path_snapshot(sols):
    out = []
    for p in sols:
        with np.errstate(all="ignore"):
            out.append([float(p.theta0), float(p.path_length), float(p.tof)] + list(map(float, p.emitted_direction))
                       + list(map(float, p.received_direction)) + list(map(float, p.from_point))
                       + list(map(float, p.to_point)) + [1.0 if p.direct else 0.0])
    return out


def alias_check(run, inp0, t, sols, bufs, A, B, alias, container, ref):
    """state kept across calls: the tracer and its paths answer for the endpoints they were constructed with,
    whatever the caller does to its own buffers afterwards, and they never write into the caller's buffers.
    `ref` = (tracer, paths) built from private copies.  -> True when everything is as it must be"""
    A0, B0 = np.array(A, dtype=float), np.array(B, dtype=float)
    objs = [("tracer", t)] + [("solutions[%d]" % i, p) for i, p in enumerate(sols)]
    for nm, o in objs:
        if not (np.array_equal(np.asarray(o.from_point, dtype=float), A0)
                and np.array_equal(np.asarray(o.to_point, dtype=float), B0)):
            run.fail_input("aliasing", inp0, observed={"object": nm, "from_point": list(map(float, o.from_point)),
                                                       "to_point": list(map(float, o.to_point))},
                           expected={"from_point": list(A0), "to_point": list(B0)},
                           what="%s does not hold the endpoints the caller passed in (float copy of the arguments; "
                                "containers %s, caller-side overwrite: %s)" % (nm, container, alias))
            return False
    if alias is None and bufs[0] is not None and not (isinstance(bufs[0], tuple) and isinstance(bufs[1], tuple)):
        if not (np.array_equal(np.asarray(bufs[0], dtype=float), A0)
                and np.array_equal(np.asarray(bufs[1], dtype=float), B0)):
            run.fail_input("caller-buffer-modified", inp0, observed=[list(map(float, b)) for b in bufs],
                           expected=[list(A0), list(B0)], what="the tracer wrote into the caller's endpoint buffers")
            return False
    if ref is not None:
        t_ref, sols_ref = ref
        if len(sols) != len(sols_ref):
            run.fail_input("aliasing", inp0, observed=len(sols), expected=len(sols_ref),
                           what="number of solutions differs from a tracer built from private copies of the endpoints")
            return False
        for i, (p, q) in enumerate(zip(sols, sols_ref)):
            with np.errstate(all="ignore"):
                got = [float(p.theta0), float(p.path_length), float(p.tof)] + list(map(float, p.emitted_direction)) \
                    + list(map(float, p.received_direction)) + [float(p.beta), float(p.z_turn)]
                exp = [float(q.theta0), float(q.path_length), float(q.tof)] + list(map(float, q.emitted_direction)) \
                    + list(map(float, q.received_direction)) + [float(q.beta), float(q.z_turn)]
            if not fw.all_close(got, exp, 1e-12, 1e-15) or bool(p.direct) != bool(q.direct):
                run.fail_input("aliasing", inp0,
                               observed={"solution": i, "theta0,len,tof,emitted,received,beta,z_turn": got},
                               expected={"from_private_copies": exp},
                               what="path properties read after the caller overwrote its endpoint buffers (%s, %s) "
                                    "differ from those of a tracer built from private copies" % (container, alias))
                return False
    return True


# ------------------------------------------------------------------------------------------------
# K3: the near-vertical branch of the Specialized tracer
def beta_tol():
    rt, im = _pyrex()
    return float(rt.SpecializedRayTracePath.beta_tolerance)


def vertical_r(ice, z_from, z_to, direct, beta):
    """independent quadrature (Gauss-Legendre in z) of the radial distance of a near-vertical ray"""
    xs, ws = np.polynomial.legendre.leggauss(40)
    n = lambda z: ice.n0 - ice.k * np.exp(ice.a * z)

    def seg(a, b):
        m, h = 0.5 * (a + b), 0.5 * (b - a)
        z = m + h * xs
        return abs(h) * float(np.sum(ws * beta / np.sqrt(n(z) ** 2 - beta ** 2)))
    hi = ice.valid_range[1]
    if direct:
        return seg(z_from, z_to)
    return seg(z_from, hi) + seg(z_to, hi)


def k3_slacks(ice, z_from, z_to, direct):
    """what known finding K3 can explain (and nothing more): inside the K3 class both rho and the true radial
    distance of the returned ray lie in [0, r(beta_tolerance)], so the horizontal miss is at most that; path
    length and tof are the vertical ones, short of the true ones by at most the factor sec(theta_max) - 1 with
    sin(theta_max) = beta_tolerance / n_min; direction components are off by at most beta_tolerance / n_min.
    -> (d_r, d_len, d_tof, d_direction)"""
    tol = PINNED_BETA_TOLERANCE
    hi = ice.valid_range[1]
    top = max(z_from, z_to) if direct else hi
    n_min = float(ice.n0 - ice.k * math.exp(ice.a * top))
    lvert = abs(z_to - z_from) if direct else (hi - z_from) + (hi - z_to)
    sec_excess = 1.0 / math.sqrt(1.0 - (tol / n_min) ** 2) - 1.0
    return (vertical_r(ice, z_from, z_to, direct, tol) * (1 + 1e-6) + 1e-6, 1.01 * lvert * sec_excess + 1e-9,
            1.01 * lvert * ice.n0 / C * sec_excess + 1e-17, 1.01 * tol / n_min)


def in_k3_class(ice, z_from, z_to, rho, direct):
    """input class of known finding K3 (Specialized tracer only): the endpoints are so nearly above one
    another that the true ray has |beta| <= beta_tolerance"""
    tol = PINNED_BETA_TOLERANCE
    return rho <= vertical_r(ice, z_from, z_to, direct, tol) * (1 + 1e-6)


# ------------------------------------------------------------------------------------------------
# RK4 oracle: the ray ODE in arc length, independent of every closed form / z-integral
def rk4_trace(ice, z_from, theta0, z_to, direct, h=0.5, smax=2.0e5):
    """Integrate dr/ds = sin th, dz/ds = cos th, dth/ds = -(dn/dz) sin th / n, dT/ds = n/c from the source in
    direction theta0 until the ray arrives at depth z_to (direct: first crossing; indirect: first crossing after
    the ray turned over or was reflected at the top of the ice).
    -> dict(r, s, tof, theta, turned, reflected, z_top) or dict(fail=reason)"""
    n0, k, a = float(ice.n0), float(ice.k), float(ice.a)
    hi = float(ice.valid_range[1])
    exp, sin, cos = math.exp, math.sin, math.cos

    def f(y):
        e = k * exp(a * y[1])
        n = n0 - e
        st = sin(y[2])
        return (st, cos(y[2]), a * e * st / n, n / C)

    def step(y, hh):
        k1 = f(y)
        k2 = f((y[0] + hh / 2 * k1[0], y[1] + hh / 2 * k1[1], y[2] + hh / 2 * k1[2], 0.0))
        k3 = f((y[0] + hh / 2 * k2[0], y[1] + hh / 2 * k2[1], y[2] + hh / 2 * k2[2], 0.0))
        k4 = f((y[0] + hh * k3[0], y[1] + hh * k3[1], y[2] + hh * k3[2], 0.0))
        return tuple(y[i] + hh / 6 * (k1[i] + 2 * k2[i] + 2 * k3[i] + k4[i]) for i in range(4))

    def land(y, hh, g):
        """partial step length in (0, hh] at which g(state) crosses zero (g(y)<0<=g(step(y,hh)) or reverse)"""
        lo_, hi_ = 0.0, hh
        g0 = g(y)
        for _ in range(60):
            mid = 0.5 * (lo_ + hi_)
            if (g(step(y, mid)) < 0) == (g0 < 0):
                lo_ = mid
            else:
                hi_ = mid
            if hi_ - lo_ < 1e-13:
                break
        return 0.5 * (lo_ + hi_)

    y = (0.0, float(z_from), float(theta0), 0.0)
    s = 0.0
    phase = 1 if direct else 0        # 0: indirect, before turning; 1: heading for z_to
    turned = reflected = False
    z_top = y[1]
    going_up = cos(theta0) > 0
    if not direct and not going_up:
        return {"fail": "indirect ray launched downward"}
    if direct and z_from == z_to:
        return {"fail": "direct ray between equal depths"}
    if phase == 0 and y[1] >= hi:
        # the source sits on the top boundary: an upward (indirect) ray is reflected on the spot
        y = (y[0], hi, math.pi - y[2], y[3])
        reflected = True
        z_top = hi
        phase = 1
        if z_to >= hi:
            return {"fail": "indirect ray between two points on the top boundary"}
    while s < smax:
        y2 = step(y, h)
        if phase == 0:
            if y2[1] >= hi or cos(y2[2]) <= 0:
                # the ray reaches the top of the ice or turns over inside this step: redo the step in
                # substeps so that a grazing ray is classified correctly (surface first, then turn-over)
                hs = h / 64
                for _sub in range(130):       # the event lies within this step; never march on in substeps
                    ys = step(y, hs)
                    if ys[1] >= hi:               # top of the ice: reflect exactly there
                        hh = land(y, hs, lambda u: u[1] - hi)
                        y = step(y, hh)
                        s += hh
                        y = (y[0], hi, math.pi - y[2], y[3])
                        reflected = True
                        z_top = hi
                        if z_to >= hi:            # receiver on the top boundary: arrives at the reflection point
                            return {"r": y[0], "s": s, "tof": y[3], "theta": y[2], "turned": turned,
                                    "reflected": reflected, "z_top": z_top}
                        break
                    if cos(ys[2]) <= 0:           # refractive turn-over below the surface
                        turned = True
                        z_top = max(z_top, ys[1], y[1])
                        y = ys
                        s += hs
                        break
                    z_top = max(z_top, ys[1])
                    y = ys
                    s += hs
                else:
                    continue                  # event not reproduced in substeps: go on with full steps
                phase = 1
                continue
            z_top = max(z_top, y2[1])
            y = y2
            s += h
            continue
        # phase 1: heading for z_to
        if direct and (cos(y2[2]) > 0) != going_up:
            # the ray turns over inside this step: a grazing direct ray may still reach the receiver depth
            # first - redo the step in substeps, looking for the arrival before the turn-over
            hs = h / 64
            for _ in range(64):
                ys = step(y, hs)
                if (y[1] - z_to) * (ys[1] - z_to) <= 0 and y[1] != z_to:
                    hh = land(y, hs, lambda u: u[1] - z_to)
                    y = step(y, hh)
                    s += hh
                    return {"r": y[0], "s": s, "tof": y[3], "theta": y[2], "turned": turned,
                            "reflected": reflected, "z_top": z_top}
                if (cos(ys[2]) > 0) != going_up:
                    break
                y = ys
                s += hs
            return {"fail": "direct ray turned over before reaching the receiver depth", "s": s, "z": y[1]}
        if (y[1] - z_to) * (y2[1] - z_to) <= 0 and y[1] != z_to:
            hh = land(y, h, lambda u: u[1] - z_to)
            y = step(y, hh)
            s += hh
            return {"r": y[0], "s": s, "tof": y[3], "theta": y[2], "turned": turned, "reflected": reflected,
                    "z_top": z_top}
        if direct and y2[1] > hi:
            return {"fail": "direct ray left the ice before reaching the receiver depth", "s": s}
        if y2[1] < float(ice.valid_range[0]) - 1:
            return {"fail": "ray left the ice through the bottom", "s": s}
        y = y2
        s += h
    return {"fail": "ray did not reach the receiver depth within %.0f m" % smax}


# ------------------------------------------------------------------------------------------------
# error budgets (search tolerances)
def deep_slack(ice, z_from, z_to, beta, direct):
    """bound on the radial error of the uniform-index treatment below z_uniform: there the code uses n0 for
    n(z) = n0 - k e^{az}, so tan(theta) is off by <= d(tan)/dn * k e^{az}; integrate over the deep part.
    Returns (dr, dlen, dtof) slacks."""
    zu = z_uniform(ice)
    lo = ice.valid_range[0]
    hi_ = float(ice.valid_range[1])
    segs = [(min(z_from, z_to), max(z_from, z_to))] if direct else [(z_from, hi_), (z_to, hi_)]
    tot = 0.0
    for a_, b_ in segs:
        if a_ < zu:
            top = min(b_, zu)
            tot += ice.k / ice.a * (math.exp(ice.a * top) - math.exp(ice.a * a_))    # integral of (n0-n) dz
    if tot == 0.0:
        return 0.0, 0.0, 0.0
    nmin = ice.n0 * PINNED_UNIFORMITY_FACTOR
    g = max(nmin ** 2 - beta ** 2, 1e-12)
    dtan = beta * nmin / g ** 1.5          # |d/dn  beta/sqrt(n^2-beta^2)|
    dsec = beta ** 2 / g ** 1.5            # |d/dn  n/sqrt(n^2-beta^2)|
    dtof = abs(2 * nmin * g - nmin ** 3) / g ** 1.5 / C + 1 / C
    return tot * dtan, tot * dsec, tot * dtof


def float_slack(ice, z_from, z_to, beta, direct):
    """floating-point error budget of the Specialized closed forms (not an approximation of the model, only of
    IEEE arithmetic): (i) log_term_1 = (n0 n - beta^2) - sqrt(alpha gamma) cancels to beta^2 (n0-n)^2 / (A+B);
    its relative rounding error is ~ eps (A+B)^2 / (beta^2 (n0-n)^2), largest at the deepest shallow
    evaluation point (z_uniform when the path crosses it); (ii) at the turning depth gamma is 0 up to rounding,
    and sqrt amplifies that to sqrt(eps).  -> (dr, dlen, dtof)"""
    eps = 2.3e-16
    n0, k, a = ice.n0, ice.k, ice.a
    hi = ice.valid_range[1]
    zu = z_uniform(ice)
    alpha = max(n0 ** 2 - beta ** 2, 1e-300)
    sa = math.sqrt(alpha)
    n = lambda z: n0 - k * math.exp(a * z)
    turning = (not direct) and beta >= n(hi)
    zt = math.log((n0 - beta) / k) / a if turning else hi
    if direct:
        legs = [(min(z_from, z_to), max(z_from, z_to))]
    else:
        legs = [(z_from, zt), (z_to, zt)]
    pts = []
    for lo_, hi_ in legs:
        if hi_ < zu:
            continue                     # entirely deep: no shallow closed form evaluated
        pts.append(max(lo_, zu))
        pts.append(hi_)
        if lo_ < zu:
            pts.append(zu)
    rel = 0.0
    for z in pts:
        nz = n(z)
        g = max(nz * nz - beta * beta, 0.0)
        AB = n0 * nz - beta * beta + math.sqrt(alpha * g)
        true_log1 = beta * beta * (n0 - nz) ** 2 / AB
        err = 8 * eps * AB                                  # rounding of A - B
        if turning and abs(z - zt) < 1e-9:
            err += math.sqrt(alpha * 8 * eps * beta * beta)     # gamma(z_turn) = O(eps beta^2) instead of 0
        rel += min(err / max(true_log1, 1e-300), 1.0)
    b = max(abs(beta), 1e-300)
    dr = b / (sa * a) * rel
    dl = n0 / (sa * a) * rel
    dt = n0 * n0 / (sa * a * C) * rel
    # alpha = n0^2 - beta^2 is itself a cancelling difference for nearly horizontal rays in deep ice
    rel_a = 4 * eps * n0 * n0 / alpha
    span = sum(abs(hi_ - lo_) for lo_, hi_ in legs)
    dr += b / sa * span * rel_a
    dl += n0 / sa * span * rel_a
    dt += n0 * n0 / (sa * C) * span * rel_a
    if turning:
        # z_turn = log((n0 - beta)/k)/a: n0 - beta is a cancelling difference in (numerically) uniform deep ice
        dzt = 4 * eps * n0 / (max(n0 - b, 1e-300) * a)
        dr += 2 * b / sa * dzt
        dl += 2 * n0 / sa * dzt
        dt += 2 * n0 * n0 / (sa * C) * dzt
    if turning:
        sg = math.sqrt(8 * eps) * b                      # sqrt(gamma) at the turning depth
        dl += 2 * sg / (b * a)
        dt += 2 * (sg + n0 * sg / b) / (a * C)
    return dr, dl, dt


def point_slack(ice, z, beta):
    """amplified-rounding budget (dist, path, tof) of one evaluation of the shallow closed forms at depth z"""
    eps = 2.3e-16
    n0, k, a = ice.n0, ice.k, ice.a
    alpha = n0 ** 2 - beta ** 2
    if alpha <= 0 or beta == 0:
        return 0.0, 0.0, 0.0
    nz = n0 - k * math.exp(a * z)
    g = max(nz * nz - beta * beta, 0.0)
    AB = n0 * nz - beta * beta + math.sqrt(alpha * g)
    true_log1 = beta * beta * (n0 - nz) ** 2 / AB if AB > 0 else 0.0
    rel = min(8 * eps * abs(AB) / max(true_log1, 1e-300), 1.0)
    sa = math.sqrt(alpha)
    return abs(beta) / (sa * a) * rel, n0 / (sa * a) * rel, n0 * n0 / (sa * a * C) * rel


def basic_cells(ice, z_from, z_to, low_angle, dz):
    """cell counts of the two trapezoid legs of BasicRayTracer._indirect_r at a given angle"""
    z0, z1 = min(z_from, z_to), max(z_from, z_to)
    with np.errstate(all="ignore"):
        zt = float(ice.depth_with_index(float(ice.index(z0)) * math.sin(low_angle)))
    ze = zt - dz / 10
    return int(abs((ze - z0) / dz)), int(abs((ze - z1) / dz))


def in_k7_class(ice, z_from, z_to, theta0, dz):
    """input class of known finding K7 (Basic tracer, indirect solutions): the number of trapezoid cells of a
    leg of `_indirect_r` changes at the returned angle, i.e. the root finder sits on a jump of the r function"""
    low = low_angle(ice, z_from, z_to, theta0)
    return basic_cells(ice, z_from, z_to, low - 1e-9, dz) != basic_cells(ice, z_from, z_to, low + 1e-9, dz)


def link_range():
    return PINNED_LINK_RANGE


def low_angle(ice, z_from, z_to, theta0):
    """inverse of the conversion in _get_launch_angle / direct_angle: angle at the lower endpoint"""
    if z_from <= z_to:
        return theta0            # the source is the lower endpoint: no conversion was applied
    s = math.sin(theta0) * float(ice.index(z_from)) / float(ice.index(min(z_from, z_to)))
    return math.asin(max(-1.0, min(1.0, s)))


def in_k8_class(ice, z_from, z_to, theta0):
    """input class of known finding K8 (Specialized tracer, indirect solutions): the launch angle at the lower
    endpoint lies within link_range of max_angle, where `_indirect_r` is a linear interpolation"""
    z0, z1 = min(z_from, z_to), max(z_from, z_to)
    ma = math.asin(min(1.0, float(ice.index(z1)) / float(ice.index(z0))))
    return low_angle(ice, z_from, z_to, theta0) > ma - link_range() * (1 + 1e-3)


def turn_leg(ice, beta, za, zt, which):
    """integral over [za, zt] of tan / sec / n sec / c of the ray with invariant beta that turns at zt
    (n(zt) = beta): Gauss-Legendre after z = zt - u^2, which removes the inverse-square-root singularity"""
    xs, ws = np.polynomial.legendre.leggauss(48)
    U = math.sqrt(max(zt - za, 0.0))
    u = 0.5 * U * (xs + 1)
    z = zt - u * u
    nz = ice.n0 - ice.k * np.exp(ice.a * z)
    g = np.maximum(nz * nz - beta * beta, 1e-300)
    w = {"tan": beta, "sec": nz, "tof": nz * nz / C}[which]
    return float(np.sum(ws * 0.5 * U * 2 * u * w / np.sqrt(g)))


def k27_allowance(ice, z_from, z_to, theta0, dz):
    """known finding K27: what the z_turn_proximity cut of the numeric indirect path can explain - a DEFICIT of
    path length / tof of at most the part of both legs inside [z_turn - dz/10, z_turn] (the trapezoid sums
    themselves over-estimate: the integrands are convex).  -> (d_len, d_tof) or None when the ray reflects"""
    n = lambda z: ice.n0 - ice.k * math.exp(ice.a * z)
    beta = n(z_from) * math.sin(theta0)
    if beta < n(ice.valid_range[1]) or beta >= ice.n0:
        return None
    zt = math.log((ice.n0 - beta) / ice.k) / ice.a
    ze = zt - dz / 10
    al, at = 2 * turn_leg(ice, beta, ze, zt, "sec"), 2 * turn_leg(ice, beta, ze, zt, "tof")
    for z in (z_from, z_to):
        if int(abs(ze - z) / dz) == 0:
            # a leg shorter than dz gets no trapezoid cell at all: it is omitted completely
            al += abs(turn_leg(ice, beta, min(z, ze), zt, "sec") - turn_leg(ice, beta, ze, zt, "sec"))
            at += abs(turn_leg(ice, beta, min(z, ze), zt, "tof") - turn_leg(ice, beta, ze, zt, "tof"))
    return al, at


def in_k27_class(ice, z_from, z_to, theta0, dz):
    """input class of known finding K27 (Basic tracer, indirect solutions): refractive turn-over below the
    surface with the higher endpoint within 5 dz of the turning depth - the ray is nearly horizontal over a short
    upper leg, where the path omitted by z_turn_proximity is not compensated by the trapezoid over-estimate"""
    n = lambda z: ice.n0 - ice.k * math.exp(ice.a * z)
    beta = n(z_from) * math.sin(theta0)
    if beta < n(ice.valid_range[1]) or beta >= ice.n0:
        return False
    zt = math.log((ice.n0 - beta) / ice.k) / ice.a
    return zt - max(z_from, z_to) <= 5 * dz


def basic_budget(ice, z_from, z_to, theta0, direct, dz):
    """discretisation error bounds for the numeric tracer from the monotone-trapezoid theorem
    (h |f(b)-f(a)| / 2 per leg) plus, for indirect paths, the part cut off by z_turn_proximity.
    -> (dr, dlen, dtof)"""
    n = lambda z: ice.n0 - ice.k * math.exp(ice.a * z)
    beta = n(z_from) * math.sin(theta0)
    ftan = lambda z: beta / math.sqrt(max(n(z) ** 2 - beta ** 2, 1e-300))
    fsec = lambda z: n(z) / math.sqrt(max(n(z) ** 2 - beta ** 2, 1e-300))
    ftof = lambda z: n(z) ** 2 / math.sqrt(max(n(z) ** 2 - beta ** 2, 1e-300)) / C
    out = [0.0, 0.0, 0.0]

    def leg(a_, b_):
        m = int(abs(b_ - a_) / dz)
        if m == 0:
            # a leg shorter than dz gets no cell at all (np.linspace with one sample): the numeric scheme drops
            # it, the discretisation error is the whole leg (< dz * max f)
            for i, fn in enumerate((ftan, fsec, ftof)):
                out[i] += abs(b_ - a_) * max(fn(a_), fn(b_))
            return
        h = abs(b_ - a_) / m
        # composite trapezoid rule on a function of bounded variation: |T - integral| <= h V(f) / 2 (the
        # monotone bound h |f(b) - f(a)| / 2 is the special case; tan and sec are monotone in z, but
        # n sec(theta) = n^2/sqrt(n^2 - beta^2) is not - it turns where n^2 = 2 beta^2 - so its variation is
        # measured on a fine grid instead of being read off the end points)
        zs_ = [a_ + (b_ - a_) * j / 400.0 for j in range(401)]
        for i, fn in enumerate((ftan, fsec, ftof)):
            vals = [fn(z_) for z_ in zs_]
            out[i] += h * sum(abs(v2 - v1) for v1, v2 in zip(vals, vals[1:])) / 2
    if direct:
        leg(z_from, z_to)
        return tuple(out)
    hi = ice.valid_range[1]
    nhi = n(hi)
    p = dz / 10
    if beta >= nhi:
        zt = math.log((ice.n0 - beta) / ice.k) / ice.a
    else:
        zt = hi
    ze = zt - p
    leg(z_from, ze)
    leg(z_to, ze)
    # the cut-off part [ze, zt], twice
    if beta >= nhi:
        # n(z) - beta >= |n'(zt)| (zt - z) e^{-a p}... use gamma >= 2 beta |n'(zt)| (zt - z) * e^{-a p}
        slope = ice.k * ice.a * math.exp(ice.a * ze)
        cut = 2 * math.sqrt(p) / math.sqrt(2 * beta * slope)      # integral of 1/sqrt(gamma) over the cut
        out[0] += 2 * beta * cut
        out[1] += 2 * n(ze) * cut
        out[2] += 2 * n(ze) ** 2 * cut / C
    else:
        out[0] += 2 * p * ftan(hi)
        out[1] += 2 * p * fsec(hi)
        out[2] += 2 * p * ftof(hi)
    return tuple(out)


# ------------------------------------------------------------------------------------------------
# correspondence
def _cmp(run, what, req, got, exp, rel, abs_=1e-12):
    if got is None or len(got) != len(exp) or not all(
            fw.close(float(g), float(e), rel, abs_) for g, e in zip(got, exp)):
        run.note_broken("correspondence: %s request=[%s] model=%s impl=%s" % (what, req, got, list(exp)))
        return False
    return True


def formula_requests(run, name, ice):
    """(z, beta, deep) requests for _int_terms and the three indefinite integrals in all three branches"""
    rt, im = _pyrex()
    P = rt.SpecializedRayTracePath
    tol = float(P.beta_tolerance)
    it = ice_toks(ice)
    lo, hi = ice.valid_range
    items = []
    for j in range(run.scale(6, 40)):
        kind = run.rng.choice(["shallow", "shallow", "small", "edge", "beyond", "deep"])
        # the shallow closed forms are only ever evaluated at z >= z_uniform (below it the code takes the deep
        # branch; far below, log_term_1 rounds to <= 0 and both sides are -inf / NaN): sample the reachable part
        zu_f = max(lo, z_uniform_impl(ice))
        z = run.rng.uniform(max(lo, -1800), hi) if kind == "deep" else run.rng.uniform(min(zu_f, hi - 1), hi)
        nz = ice.n0 - ice.k * math.exp(ice.a * z)
        if kind == "small":
            beta = run.rng.uniform(0, tol * 0.999)
        elif kind == "edge":
            beta = run.rng.choice([tol, float(np.nextafter(tol, 1)), tol * 1.01, tol * 1.5])
        elif kind == "beyond":
            beta = nz * run.rng.uniform(1.0001, 1.05)       # gamma < 0: clamped
            if beta >= ice.n0:
                beta = nz * 0.5
                kind = "shallow"
        else:
            beta = nz * run.rng.uniform(0.02, 0.9995)
        deep = kind == "deep"
        run.count("formula_" + kind)
        with np.errstate(all="ignore"):
            terms = [float(v) for v in P._int_terms(z, beta, ice)]
            ints = [float(P._distance_integral(z, beta, ice, deep=deep)),
                    float(P._pathlen_integral(z, beta, ice, deep=deep)),
                    float(P._tof_integral(z, beta, ice, deep=deep))]
        # log_term_1 suffers cancellation (it is O(beta^2 (n0-n)^2)): its tolerance is absolute
        items.append(("terms %s %s" % (it, fw.fl([z, beta])), terms, (name, "terms", z, beta),
                      [1e-12, 1e-12, 1e-9, None, 1e-12]))
        if kind != "beyond":
            items.append(("ints %s %s" % (it, fw.fl([z, beta, 1.0 if deep else 0.0])), ints,
                          (name, "ints", z, beta, deep),
                          ("fint", (0.0, 0.0, 0.0) if deep else point_slack(ice, z, beta))))
    # definite integrals with the uniform-ice correction, all side combinations
    zu = z_uniform_impl(ice)
    for j in range(run.scale(6, 30)):
        if zu - 20 > lo + 20:
            z0 = run.rng.choice([run.rng.uniform(lo + 5, zu - 5), run.rng.uniform(zu + 5, hi)])
            z1 = run.rng.choice([run.rng.uniform(lo + 5, zu - 5), run.rng.uniform(zu + 5, hi)])
        else:
            z0, z1 = run.rng.uniform(lo + 5, hi), run.rng.uniform(lo + 5, hi)
        nmin = ice.n0 - ice.k * math.exp(ice.a * max(z0, z1))
        beta = nmin * run.rng.uniform(0.02, 0.999)
        if run.rng.random() < 0.15:
            beta = run.rng.uniform(0, tol)
        run.count("zint_%s_%s" % ("deep" if z0 < zu else "shallow", "deep" if z1 < zu else "shallow"))
        with np.errstate(all="ignore"):
            vals = [float(P._z_int_uniform_correction(z0, z1, zu, beta, ice, fn))
                    for fn in (P._distance_integral, P._pathlen_integral, P._tof_integral)] + [zu]
        ps = [point_slack(ice, zz, beta) for zz in (max(z0, zu), max(z1, zu), zu)]
        items.append(("zint %s %s" % (it, fw.fl([z0, z1, beta])), vals, (name, "zint", z0, z1, beta),
                      ("fint", tuple(sum(p_[i] for p_ in ps) for i in range(3)) + (0.0,))))
    return items


def tracer_requests(run, name, ice, tname, A, B, dz, t):
    """tracer-level requests: geometry, r functions at random angles, angle conversion, expected_solutions"""
    it = ice_toks(ice)
    zf, zt = float(A[2]), float(B[2])
    items = []
    with np.errstate(all="ignore"):
        ma = float(t.max_angle)
        if tname == "specialized":
            items.append(("tracer %s %s" % (it, fw.fl([zf, zt])),
                          [float(t.z0), float(t.z1), ma, float(t.z_uniform), float(t.direct_r_max)],
                          (name, "tracer", zf, zt), "tracer"))
        for j in range(2):
            ang = run.rng.uniform(0.01, 0.999) * ma
            if tname == "specialized":
                ex = [float(t._direct_r(ang)), float(t._indirect_r(ang))]
                b_ = math.sin(ang) * float(t.n0)
                sl = [float_slack(ice, float(t.z0), float(t.z1), b_, True)[0],
                      float_slack(ice, float(t.z0), float(t.z1), b_, False)[0]]
                items.append(("specr %s %s" % (it, fw.fl([zf, zt, ang])), ex, (name, "specr", zf, zt, ang),
                              ("rfun", sl)))
            else:
                ex = [float(t._direct_r(ang)), float(t._indirect_r(ang)), float(t.direct_r_max)]
                items.append(("basicr %s %s" % (it, fw.fl([zf, zt, ang, dz])), ex,
                              (name, "basicr", zf, zt, ang, dz), "rfun"))
        # angle conversion through the real direct_angle / indirect_angle_2 with the root finder replaced
        ang = run.rng.uniform(0.01, 0.999) * ma
        cls = type(t)
        t2 = cls(A, B, ice, dz=dz)
        t2.angle_search = lambda true_r, r_function, min_angle, max_angle, **kw: ang
        t2._lazy_expected_solutions = [True, False, True]
        try:
            ex = [float(t2.direct_angle), float(t2.indirect_angle_2)]
            items.append(("conv %s %s" % (it, fw.fl([zf, zt, ang])), ex, (name, "conv", zf, zt, ang), "conv"))
        except Exception:
            pass
    # expected_solutions table, given the implementation's own maxima
    drm, irm = t.direct_r_max, t.indirect_r_max
    if drm is not None and irm is not None and np.isfinite(drm) and np.isfinite(irm):
        cf = 1.0 if ice.contains(A) else 0.0
        ct = 1.0 if ice.contains(B) else 0.0
        rho = float(t.rho)
        items.append(("expected %s %s" % (it, fw.fl([cf, ct, rho, float(drm), float(irm)])),
                      [bool(b) for b in t.expected_solutions], (name, "expected", zf, zt, rho, tname, dz), "flags"))
    return items


def case_list(run, quick_n, thorough_n, basic_every):
    """the labelled geometry cases of one run: (name, ice, class, zf, zt, rho, tracer, dz)"""
    nrand = run.scale(3, 12)
    il = ices(run, nrand)
    cases = []
    n = run.scale(quick_n, thorough_n)
    i = 0
    for rep in range(n):
        for cname in GEOM_CLASSES:
            if cname == "deep_far" and rep % 3:
                continue
            name, ice = il[i % len(il)]
            i += 1
            g = geometry(run, ice, cname)
            if g is None:
                run.count("class_unrealisable_" + cname)
                continue
            zf, zt, rho = g
            dz = run.rng.choice([0.1, 1, 5])
            if cname == "basic_turn_near":
                cases.append((name, ice, cname, zf, zt, rho, "basic", dz))
                continue
            cases.append((name, ice, cname, zf, zt, rho, "specialized", dz))
            if (i + rep) % basic_every == 0:
                cases.append((name, ice, cname, zf, zt, rho, "basic", dz))
        # the same endpoints (same depths to the last bit) in every ice model, back to back: state shared
        # between tracer objects must not leak from one ice model into the next
        if rep % 3 == 0:
            g = geometry(run, il[0][1], run.rng.choice(["shallow", "across", "near_vertical"]))
            if g is not None:
                zf, zt, rho = g
                dz = run.rng.choice([1, 5])
                tn = "basic" if rep % 2 else "specialized"
                for name, ice in il:
                    # inside this ice too, and above the depth where its index is indistinguishable from n0
                    # (see geometry(): outside the claim)
                    if max(ice.valid_range[0], math.log(1e-13 * ice.n0 / ice.k) / ice.a) <= min(zf, zt) \
                            and max(zf, zt) <= ice.valid_range[1]:
                        cases.append((name, ice, "same_geometry_other_ice", zf, zt, rho, tn, dz))
    return cases


def correspondence(run):
    ok = True
    reqs, exps, descs, kinds = [], [], [], []

    def add(items):
        for rq, ex, d, kd in items:
            reqs.append(rq); exps.append(ex); descs.append(d); kinds.append(kd)

    for name, ice in ices(run, run.scale(2, 10)):
        add(formula_requests(run, name, ice))

    sols_info = []
    n_corr_cases = 0
    for name, ice, cname, zf, zt, rho, tname, dz in case_list(run, 15, 120, 3):
        A, B = endpoints(run, zf, zt, rho)
        if cname == "outside":
            # an endpoint outside the valid range: the decision table must say "no solutions"
            t = tracer_classes()[tname](A, B, ice, dz=dz)
            with np.errstate(all="ignore"):
                flags = [bool(b) for b in t.expected_solutions]
            cf, ct = (1.0 if ice.contains(A) else 0.0), (1.0 if ice.contains(B) else 0.0)
            add([("expected %s %s" % (ice_toks(ice), fw.fl([cf, ct, float(rho), 1e9, 1e9])), flags,
                  (name, "expected-outside", zf, zt, rho, tname, dz), "flags")])
            run.count("geom_outside")
            continue
        n_corr_cases += 1
        alias = "after_solutions" if n_corr_cases % 4 == 0 else None
        container = "ndarray" if n_corr_cases % 2 == 0 else "tuple"
        run.count("corr_container_%s_alias_%s" % (container, alias))
        try:
            t, sols, bufs = solve(tname, A, B, ice, dz, alias=alias, container=container)
        except Exception as e:  # a crash on valid input is reported by the search, not here
            run.count("impl_exception_" + type(e).__name__)
            run.notes.append("implementation raised %s: %s for %s %s->%s dz=%s ice=%s"
                             % (type(e).__name__, e, tname, A, B, dz, ice_desc(name, ice)))
            continue
        run.count("geom_%s" % cname)
        run.count("tracer_%s_dz%s" % (tname, dz))
        run.count("source_%s" % ("above" if zf > zt else "below" if zf < zt else "level"))
        run.count("nsolutions_%d" % len(sols))
        add(tracer_requests(run, name, ice, tname, A, B, dz, t))
        it = ice_toks(ice)
        rho_i = float(t.rho)
        phi = math.atan2(B[1] - A[1], B[0] - A[0])
        for p in sols:
            th = float(p.theta0)
            d = 1.0 if p.direct else 0.0
            with np.errstate(all="ignore"):
                ex = [rho_i, float(p.path_length), float(p.tof)] + [float(v) for v in p.emitted_direction] + \
                     [float(v) for v in p.received_direction] + [float(p.z_turn), float(p.beta)]
            if tname == "specialized":
                rq = "spec %s %s" % (it, fw.fl([zf, zt, th, phi, d]))
            else:
                rq = "basic %s %s" % (it, fw.fl([zf, zt, th, phi, d, dz]))
            k3 = tname == "specialized" and in_k3_class(ice, zf, zt, rho_i, bool(p.direct))
            k8 = tname == "specialized" and not p.direct and in_k8_class(ice, zf, zt, th)
            if k8:
                # certificate of the K8 class: the model's link-range r function (not the true one) gives rho
                low = low_angle(ice, zf, zt, th)
                add([("specr %s %s" % (it, fw.fl([zf, zt, low])), [float("nan"), rho_i],
                      (name, "k8cert", zf, zt, low), "k8cert")])
            k7 = None
            if tname == "basic" and not p.direct and in_k7_class(ice, zf, zt, th, dz):
                # r function of the implementation on both sides of the returned angle
                low = low_angle(ice, zf, zt, th)
                with np.errstate(all="ignore"):
                    k7 = (float(t._indirect_r(low - 1e-9)), float(t._indirect_r(low + 1e-9)))
            slack = (0.0, 0.0, 0.0)
            if tname == "specialized":
                slack = float_slack(ice, zf, zt, float(p.beta), bool(p.direct))
            add([(rq, ex, (name, tname, zf, zt, rho_i, dz, bool(p.direct)),
                  ("path", tname, "K3" if k3 else "K8" if k8 else None, cname, k7, slack))])

    replies = fw.run_driver("C01", reqs)
    for rq, ex, rp, d, kd in zip(reqs, exps, replies, descs, kinds):
        got = None
        if rp != "bad-op":
            got = rp.split() if kd == "flags" else fw.unfl(rp.split())
        shown = " ".join(str(fw.b2f(tk)) if tk.isdigit() else tk for tk in rq.split()[1:])
        shown = rq.split()[0] + " " + shown
        if kd == "flags":
            good = got is not None and [g == "1" for g in got] == list(ex)
            run.case(d, nontrivial=True)
            if good:
                run.traces += 1
            else:
                ok = False
                run.note_broken("correspondence: expected_solutions request=[%s] model=%s impl=%s" % (shown, got, ex))
            continue
        if isinstance(kd, list):       # per-component tolerances (terms)
            good = got is not None and len(got) == len(ex)
            if good:
                for g, e, tl in zip(got, ex, kd):
                    if tl is None:     # log_term_1: cancellation, absolute tolerance
                        good = good and (fw.close(g, e, 1e-6, 1e-13))
                    else:
                        good = good and fw.close(g, e, tl * 1000, 1e-15)
            run.case(d, nontrivial=ex[2] > 0, sample={"op": "terms", "z": d[2], "beta": d[3], "impl": ex})
            if good:
                run.traces += 1
            else:
                ok = False
                run.note_broken("correspondence: _int_terms request=[%s] model=%s impl=%s" % (shown, got, ex))
            continue
        if kd == "k8cert":
            run.case(d, nontrivial=True)
            run.count("k8_solutions")
            # slope of the interpolation is (link_dist - direct_r_max)/link_range ~ 1e6 m/rad: angle rounding
            # of 1e-12 rad moves r by ~1e-6 * few m
            # (for a turn-over in numerically uniform deep ice alpha = n0^2 - beta^2 is rounding noise and so
            # is the r function of model and implementation alike: tolerance widened by that noise, counted)
            kk = [float(fw.b2f(tk)) for tk in rq.split()[1:4]]
            nz0 = kk[0] - kk[1] * math.exp(kk[2] * min(d[2], d[3]))
            alpha_ = max(kk[0] ** 2 - (nz0 * math.sin(d[4])) ** 2, 1e-300)
            noise = min(1.0, 1e3 * 4 * 2.3e-16 * kk[0] ** 2 / alpha_)
            if noise > 1e-3:
                run.count("k8cert_alpha_noise_region")
            if got is not None and len(got) == 2 and abs(got[1] - ex[1]) <= 1e-5 * max(1.0, ex[1]) + noise * ex[1]:
                run.traces += 1
            else:
                ok = False
                run.note_broken("correspondence: K8-class input but the link-range r function of the model does not "
                                "give rho; request=[%s] model=%s rho=%r" % (shown, got, ex[1]))
            continue
        if kd == "tracer":
            # direct_r_max is evaluated at max_angle, where alpha = n0^2 - n(z1)^2 is a cancelling difference
            zhi = max(d[2], d[3])
            kk = (float(fw.b2f(rq.split()[1])), float(fw.b2f(rq.split()[2])), float(fw.b2f(rq.split()[3])))
            nz1 = kk[0] - kk[1] * math.exp(kk[2] * zhi)
            rel_a = 1e-7 + 64 * 2.3e-16 * kk[0] ** 2 / max(kk[0] ** 2 - nz1 ** 2, 1e-300)
            good = got is not None and len(got) == len(ex) and fw.all_close(got[:4], ex[:4], 1e-9, 1e-9) \
                and fw.close(got[4], ex[4], rel_a, 1e-7)
            run.case(d, nontrivial=True)
            if good:
                run.traces += 1
            else:
                ok = False
                run.note_broken("correspondence: tracer request=[%s] model=%s impl=%s" % (shown, got, ex))
            continue
        if isinstance(kd, tuple) and kd[0] == "fint":
            # closed forms: same operations in the same order; differences come from libm (exp/log) only,
            # amplified by the cancellation in log_term_1 (budget attached to the request)
            sl = list(kd[1]) + [0.0] * (len(ex) - len(kd[1]))
            base = [1e-9, 1e-9, 1e-17, 1e-9]
            good = got is not None and len(got) == len(ex) and all(
                (math.isnan(g) and math.isnan(e)) or fw.close(g, e, 1e-7, base[i] + sl[i])
                for i, (g, e) in enumerate(zip(got, ex)))
            run.case(d, nontrivial=True)
            if good:
                run.traces += 1
            else:
                ok = False
                run.note_broken("correspondence: %s request=[%s] model=%s impl=%s budget=%s" % (d[1], shown, got, ex, sl))
            continue
        if isinstance(kd, tuple) and kd[0] == "rfun":
            # Specialized r functions: 1e-7 relative + the amplified-rounding budget of the closed forms
            good = got is not None and len(got) == len(ex) and all(
                (math.isnan(g) and math.isnan(e)) or fw.close(g, e, 1e-7, 1e-6 + sl)
                for g, e, sl in zip(got, ex, kd[1]))
            run.case(d, nontrivial=True)
            if good:
                run.traces += 1
            else:
                ok = False
                run.note_broken("correspondence: rfun request=[%s] model=%s impl=%s budget=%s" % (shown, got, ex, kd[1]))
            continue
        if kd in ("ints", "zint", "tracer", "rfun", "conv"):
            # closed forms: same operations in the same order; differences come from libm (exp/log) only,
            # amplified by the cancellation in log_term_1 at small beta -> 1e-7 relative + small absolute
            rel, ab = {"ints": (1e-7, 1e-9), "zint": (1e-7, 1e-7), "tracer": (1e-7, 1e-7), "rfun": (1e-7, 1e-6),
                       "conv": (1e-10, 1e-12)}[kd]
            ex2 = list(ex)
            if kd in ("ints", "zint"):
                # tof values are ~1e-6 s: give them their own absolute scale
                good = got is not None and len(got) == len(ex2) and all(
                    fw.close(g, e, rel, ab * (1e-8 if i == 2 else 1.0)) for i, (g, e) in enumerate(zip(got, ex2)))
            else:
                good = got is not None and len(got) == len(ex2) and all(
                    (math.isnan(g) and math.isnan(e)) or fw.close(g, e, rel, ab) for g, e in zip(got, ex2))
            run.case(d, nontrivial=True)
            if good:
                run.traces += 1
            else:
                ok = False
                run.note_broken("correspondence: %s request=[%s] model=%s impl=%s" % (kd, shown, got, ex))
            continue
        # path-level comparison + certificate
        _, tname, ktag, cname, k7, slack = kd
        k3 = ktag == "K3"
        run.case(d, nontrivial=True, sample={"ice": d[0], "tracer": tname, "z_from": d[2], "z_to": d[3],
                                              "rho": d[4], "dz": d[5], "direct": d[6], "class": cname,
                                              "impl_len_tof": ex[1:3]})
        if got is None or len(got) != len(ex):
            ok = False
            run.note_broken("correspondence: path request=[%s] model=%s impl=%s" % (shown, rp, ex))
            continue
        rho_i = ex[0]
        prel = 1e-7 if tname == "specialized" else 1e-9
        # absolute slack of length / tof: amplified libm differences in the closed forms (see float_slack)
        pabs = [1e-9 + slack[1], 1e-17 + slack[2]] + [1e-9] * 9
        good = all(fw.close(g, e, prel, ab) for g, e, ab in zip(got[1:], ex[1:], pabs))
        if not good:
            ok = False
            run.note_broken("correspondence: path attributes request=[%s] model(len,tof,emitted,received,z_turn,beta)=%s impl=%s"
                            % (shown, got[1:], ex[1:]))
            continue
        # certificate: the model's r function at the returned launch angle reproduces rho
        r_model = got[0]
        if ktag == "K8":
            run.traces += 1          # certificate of this class: the k8cert request
            continue
        ctol = 1e-6 * max(1.0, rho_i) + slack[0]
        if k3 and abs(r_model - rho_i) > ctol:
            # known finding K3: the returned angle is the tolerance-boundary angle
            run.count("k3_solutions")
            tol = beta_tol()
            if not abs(abs(ex[10]) - tol) <= 1e-6 * tol:
                ok = False
                run.note_broken("correspondence: K3-class input but beta=%r is not the tolerance boundary; request=[%s]"
                                % (ex[10], shown))
            else:
                run.traces += 1
            continue
        if k7 is not None and abs(r_model - rho_i) > ctol:
            # known finding K7: brentq sits on a jump of the numeric r function; the certificate is replaced by
            # "the jump brackets rho"
            run.count("k7_solutions")
            if min(k7) - ctol <= rho_i <= max(k7) + ctol:
                run.traces += 1
            else:
                ok = False
                run.note_broken("correspondence: K7-class input but rho=%r is not inside the jump %r; request=[%s]"
                                % (rho_i, k7, shown))
            continue
        if abs(r_model - rho_i) <= ctol:
            run.traces += 1
            run.count("certified_" + tname)
        else:
            ok = False
            run.note_broken("correspondence: certificate |r_model(theta0) - rho| = %.3e > %.1e; request=[%s] r_model=%r rho=%r"
                            % (abs(r_model - rho_i), ctol, shown, r_model, rho_i))
    return ok


# ------------------------------------------------------------------------------------------------
# known finding K3
K3_INPUT = {"from": (0.0, 0.0, -500.0), "to": (0.5, 0.0, -100.0)}


def k3_still_fails():
    rt, im = _pyrex()
    ice = im.AntarcticIce()
    t = rt.SpecializedRayTracer(K3_INPUT["from"], K3_INPUT["to"], ice)
    bad = []
    for p in t.solutions:
        res = rk4_trace(ice, -500.0, float(p.theta0), -100.0, bool(p.direct), h=0.25)
        if "fail" in res or abs(res["r"] - 0.5) > 0.05:
            bad.append((bool(p.direct), float(p.theta0), res.get("r")))
    return bad


K7_INPUT = {"from": (0.0, 0.0, -354.267), "to": (1226.8556811466658, 0.0, -163.218), "dz": 1.0}


def k7_still_fails():
    rt, im = _pyrex()
    ice = im.AntarcticIce()
    t = rt.BasicRayTracer(K7_INPUT["from"], K7_INPUT["to"], ice, dz=K7_INPUT["dz"])
    bad = []
    with np.errstate(all="ignore"):
        sols = list(t.solutions)
    for p in sols:
        th = float(p.theta0)
        res = rk4_trace(ice, K7_INPUT["from"][2], th, K7_INPUT["to"][2], bool(p.direct), h=0.25)
        low = low_angle(ice, K7_INPUT["from"][2], K7_INPUT["to"][2], th)
        with np.errstate(all="ignore"):
            r_self = float(t._direct_r(low) if p.direct else t._indirect_r(low))
        rho = K7_INPUT["to"][0]
        # not a root of the tracer's own r function, and the launched ray misses by more than 5 m per unit dz
        # (the numeric tracer's observed accuracy is 0.2-2 m at dz=1)
        if abs(r_self - rho) > 1e-6 * rho and ("fail" in res or abs(res["r"] - rho) > 5.0 * K7_INPUT["dz"]):
            if in_k7_class(ice, K7_INPUT["from"][2], K7_INPUT["to"][2], th, K7_INPUT["dz"]):
                bad.append((bool(p.direct), th, res.get("r")))
    return bad


K8_INPUT = {"from": (0.0, 0.0, -150.0), "to": (494.04243343447547, 0.0, -200.0)}


def k8_still_fails():
    rt, im = _pyrex()
    ice = im.AntarcticIce()
    t = rt.SpecializedRayTracer(K8_INPUT["from"], K8_INPUT["to"], ice)
    bad = []
    for p in t.solutions:
        th = float(p.theta0)
        res = rk4_trace(ice, -150.0, th, -200.0, bool(p.direct), h=0.25)
        if not p.direct and in_k8_class(ice, -150.0, -200.0, th) and \
                ("fail" in res or abs(res["r"] - K8_INPUT["to"][0]) > 0.05):
            bad.append((bool(p.direct), th, res.get("r")))
    return bad


K9_INPUT = {"from": (321.3168355584073, 490.75187976730615, -837.4410957477894),
            "to": (318.7988756881773, 479.4945170871826, -310.6648470604698)}


def k9_still_fails():
    """path length of the direct solution changes by > 0.1 m when the receiver moves by 1e-9 m"""
    rt, im = _pyrex()
    ice = im.ArasimIce()
    B = K9_INPUT["to"]
    ls = []
    for dx in (0.0, 1e-9):
        t = rt.SpecializedRayTracer(K9_INPUT["from"], (B[0] + dx, B[1], B[2]), ice)
        sols = [p for p in t.solutions if p.direct]
        if not sols:
            return None
        ls.append(float(sols[0].path_length))
    return abs(ls[0] - ls[1]) if abs(ls[0] - ls[1]) > 0.1 else None


def k26_still_fails():
    """(0,0,-1000)->(30000,0,-900) in AntarcticIce, direct solution of the Specialized tracer: the launched ray
    reaches the receiver depth more than 1 km away from the receiver"""
    rt, im = _pyrex()
    ice = im.AntarcticIce()
    t = rt.SpecializedRayTracer((0, 0, -1000.), (30000., 0, -900.), ice)
    far = False
    for p in t.solutions:
        if p.direct:
            res = rk4_trace(ice, -1000.0, float(p.theta0), -900.0, True, h=2.0, smax=1.0e5)
            far = "fail" in res or abs(res["r"] - 30000.0) > 1000.0
    # second recorded input (short pair, relayed by the C03 audit): GreenlandIce, both endpoints just below
    # z_uniform = -410.4 m, rho = 27.96 m, 0.3 m apart in depth: the launched ray misses by 2.3 m
    ice2 = im.GreenlandIce()
    A = (438.4364097618236, -430.2656341067369, -417.8831960146711)
    B = (425.10359246806445, -405.6917693131539, -417.5831960146711)
    t2 = rt.SpecializedRayTracer(A, B, ice2)
    short = False
    for p in t2.solutions:
        if p.direct:
            res = rk4_trace(ice2, A[2], float(p.theta0), B[2], True, h=0.05, smax=500.0)
            short = "fail" in res or abs(res["r"] - float(t2.rho)) > 1.0
    return far or short


def k27_still_fails():
    """BasicRayTracer((0,0,-170),(430,0,-195), dz=1): the turning solution reports a path shorter than the chord"""
    rt, im = _pyrex()
    ice = im.AntarcticIce()
    t = rt.BasicRayTracer((0, 0, -170.), (430., 0, -195.), ice, dz=1)
    with np.errstate(all="ignore"):
        sols = list(t.solutions)
    chord = math.hypot(430.0, 25.0)
    return any((not p.direct) and float(p.path_length) < chord - 1.0 for p in sols)


def known_probes(run):
    bad = k3_still_fails()
    if bad:
        run.extra["K3_probe"] = {"input": K3_INPUT, "launched_ray_lands_at_r": bad}
        run.known_finding("K3")
    bad = k7_still_fails()
    if bad:
        run.extra["K7_probe"] = {"input": K7_INPUT, "launched_ray_lands_at_r": bad}
        run.known_finding("K7")
    bad = k8_still_fails()
    if bad:
        run.extra["K8_probe"] = {"input": K8_INPUT, "launched_ray_lands_at_r": bad}
        run.known_finding("K8")
    if k26_still_fails():
        run.known_finding("K26")
    if k27_still_fails():
        run.known_finding("K27")
    jit = k9_still_fails()
    if jit:
        run.extra["K9_probe"] = {"input": K9_INPUT, "path_length_jitter_m": jit}
        run.known_finding("K9")


# ------------------------------------------------------------------------------------------------
# search: RK4 oracle on the implementation alone
def check_solution(run, name, ice, cname, A, B, tname, dz, t, p, h, extra=None):
    zf, zt = float(A[2]), float(B[2])
    rho = float(t.rho)
    th = float(p.theta0)
    direct = bool(p.direct)
    inp = {"ice": ice_desc(name, ice), "from": list(map(float, A)), "to": list(map(float, B)), "tracer": tname,
           "dz": dz, "class": cname, "solution": "direct" if direct else "indirect", "theta0": th}
    if extra:
        inp.update(extra)
    k3 = tname == "specialized" and in_k3_class(ice, zf, zt, rho, direct)
    k7 = tname == "basic" and not direct and in_k7_class(ice, zf, zt, th, dz)
    k8 = tname == "specialized" and not direct and in_k8_class(ice, zf, zt, th)
    k27 = tname == "basic" and not direct and not k7 and in_k27_class(ice, zf, zt, th, dz)
    fk = "K3" if k3 else "K7" if k7 else "K8" if k8 else None
    if fk:
        run.count("search_%s_class" % fk.lower())
    # self-consistency: the returned angle is a root of the tracer's own r function (brentq is untrusted)
    low = low_angle(ice, zf, zt, th)
    with np.errstate(all="ignore"):
        r_self = float(t._direct_r(low) if direct else t._indirect_r(low))
    # (Basic tracer only: the Specialized r function is noisy at the 1e-3 m level from cancellation in
    # log_term_1 - see float_slack - so re-evaluating it is not a sharper test than the RK4 budget below)
    if tname == "basic" and not abs(r_self - rho) <= 1e-6 * max(1.0, rho):
        run.fail_input("not-a-root", inp, observed={"r_function_at_returned_angle": r_self}, expected={"rho": rho},
                       what="the returned launch angle is not a root of the tracer's own r function "
                            "(r(theta)=%.6f, rho=%.6f)" % (r_self, rho), finding_key=fk)
        return
    with np.errstate(all="ignore"):
        L, tof = float(p.path_length), float(p.tof)
        em = np.array(p.emitted_direction, dtype=float)
        rc = np.array(p.received_direction, dtype=float)
    # reported emitted direction = (theta0, azimuth of the receiver)
    phi = math.atan2(B[1] - A[1], B[0] - A[0])
    e_exp = np.array([math.sin(th) * math.cos(phi), math.sin(th) * math.sin(phi), math.cos(th)])
    if not np.allclose(em, e_exp, atol=1e-12) or not (0 <= th <= math.pi):
        run.fail_input("emitted-direction", inp, observed=list(em), expected=list(e_exp),
                       what="emitted direction is not (theta0, azimuth towards the receiver)")
        return
    # the reported path length is used only to cap the march (3x), never as the oracle's answer
    res = rk4_trace(ice, zf, th, zt, direct, h=h if rho < 5000 else max(h, 2.0),
                    smax=min(4.0e5, 3 * abs(L) + 2000.0) if math.isfinite(L) else 4.0e5)
    # sense of the directions (holds in every class, the K3 band and exactly vertical pairs included): a direct
    # ray heads vertically towards the receiver at both ends, an indirect ray starts upward and arrives downward
    if direct:
        sgn = 1.0 if zt > zf else -1.0
        sense_ok = zt != zf and em[2] * sgn > 0 and rc[2] * sgn >= -1e-9
        want = "vertical components of emitted and received direction have the sign of z_to - z_from (%+d)" % sgn
    else:
        sense_ok = em[2] > 0 and rc[2] <= 1e-9
        want = "emitted direction points upward, received direction downward"
    if not sense_ok:
        run.fail_input("direction-sense", inp,
                       observed={"emitted": list(em), "received": list(rc), "rk4_from_source": res},
                       expected=want, what="the reported directions do not have the vertical sense of a %s ray "
                       "from z=%g to z=%g" % ("direct" if direct else "indirect", zf, zt))
        return
    if "fail" in res:
        # K3 only explains a small horizontal miss, never a ray that does not reach the receiver depth
        key = fk if fk != "K3" else None
        if key is None and tname == "specialized" and "did not reach" in res["fail"]:
            beta_ = float(ice.index(zf)) * math.sin(th)
            if 3 * deep_slack(ice, zf, zt, beta_, direct)[0] > 1e3:
                key = "K26"     # a turn-over in numerically uniform deep ice takes > smax of path
        run.fail_input("no-arrival", inp, observed=res, expected="ray arrives at the receiver depth",
                       what="launched in the reported direction the ray never reaches the receiver: " + res["fail"],
                       finding_key=key)
        return
    beta = float(ice.index(zf)) * math.sin(th)
    if tname == "specialized":
        dr, dl, dt = deep_slack(ice, zf, zt, beta, direct)
        fr, fl_, ft = float_slack(ice, zf, zt, beta, direct)
        tol_r = 2e-6 * max(1.0, rho) + 3 * dr + fr + 2e-6
        tol_l = 1e-7 * L + 3 * dl + fl_ + 2e-6
        tol_t = 1e-7 * tof + 3 * dt + ft + 1e-14
        # known finding K26: where the first-order bound of the uniform-index treatment below z_uniform is not
        # negligible (> 1 cm: long near-horizontal rays in deep ice) a residue inside that bound is reported as
        # KNOWN-FINDING K26; beyond the bound it is a violation like everywhere else
        if fk is None and 3 * dr > 1e-2:
            run.count("search_k26_class")
            t_r, t_l, t_t = tol_r - 3 * dr + 1e-2, tol_l - 3 * dl + 1e-2, tol_t - 3 * dt + 1e-2 / C
            if abs(res["r"] - rho) > t_r or abs(res["s"] - L) > t_l or abs(res["tof"] - tof) > t_t:
                if abs(res["r"] - rho) <= tol_r and abs(res["s"] - L) <= tol_l and abs(res["tof"] - tof) <= tol_t:
                    run.fail_input("deep-approximation", inp,
                                   observed={"miss": res["r"] - rho, "dlen": res["s"] - L, "dtof": res["tof"] - tof},
                                   expected={"first_order_bound_r_len_tof": [3 * dr, 3 * dl, 3 * dt]},
                                   what="residue inside the first-order bound of the uniform-index treatment below "
                                        "z_uniform", finding_key="K26")
        # known finding K9 (registered under C02, also visible here): where the amplified-rounding budget of
        # log_term_1 is not negligible (> 1 mm) a residue inside that budget is reported as KNOWN-FINDING K9;
        # beyond the budget it is a violation like everywhere else
        if fk is None and max(fr, fl_) > 1e-3:
            run.count("search_k9_class")
            t_r, t_l, t_t = tol_r - fr + 1e-3, tol_l - fl_ + 1e-3, tol_t - ft + 1e-3 / C
            if abs(res["r"] - rho) > t_r or abs(res["s"] - L) > t_l or abs(res["tof"] - tof) > t_t:
                if abs(res["r"] - rho) <= tol_r and abs(res["s"] - L) <= tol_l and abs(res["tof"] - tof) <= tol_t:
                    run.fail_input("rounding-noise", inp,
                                   observed={"miss": res["r"] - rho, "dlen": res["s"] - L, "dtof": res["tof"] - tof},
                                   expected={"budget_r_len_tof": [fr, fl_, ft]},
                                   what="residue inside the amplified-rounding budget of log_term_1", finding_key="K9")
    else:
        dr, dl, dt = basic_budget(ice, zf, zt, th, direct, dz)
        tol_r = 1e-6 * max(1.0, rho) + 1.5 * dr + 1e-5
        tol_l = 1e-7 * L + 1.5 * dl + 1e-5
        tol_t = 1e-7 * tof + 1.5 * dt + 1e-13
        if k27:
            # known finding K27: a length / tof DEFICIT above 0.5 % is reported, and it is explained only up to
            # the path omitted inside z_turn_proximity; anything else keeps the bounds above
            run.count("search_k27_class")
            al, at = k27_allowance(ice, zf, zt, th, dz)
            d_len, d_tof = res["s"] - L, res["tof"] - tof
            if d_len > 5e-3 * res["s"] or d_tof > 5e-3 * res["tof"]:
                if d_len <= 1.05 * al + 1e-6 and d_tof <= 1.05 * at + 1e-15:
                    run.fail_input("turn-proximity-deficit", inp,
                                   observed={"path_length": L, "rk4_arc_length": res["s"], "tof": tof,
                                             "rk4_tof": res["tof"]},
                                   expected={"omitted_within_z_turn_proximity_len_tof": [al, at]},
                                   what="path length / tof short by the part of the ray inside z_turn_proximity",
                                   finding_key="K27")
                else:
                    run.fail_input("path-length", inp, observed={"path_length": L, "tof": tof},
                                   expected={"rk4_arc_length": res["s"], "rk4_tof": res["tof"],
                                             "k27_allowance": [al, at]},
                                   what="path length / tof deficit of a turning numeric path exceeds what "
                                        "z_turn_proximity omits")
                    return
    # in the K3 class the finding explains residues up to k3_slacks(...) and nothing beyond them
    k3r, k3l, k3t, k3d = k3_slacks(ice, zf, zt, direct) if k3 else (0.0, 0.0, 0.0, 0.0)

    def key_for(err, tol, extra):
        """finding key under which a residue `err` may be reported, or False when it is within tolerance"""
        if abs(err) <= tol:
            return False
        if k3:
            return "K3" if abs(err) <= tol + extra else None
        return fk
    miss = res["r"] - rho
    kf = key_for(miss, tol_r, k3r)
    if kf is not False:
        run.fail_input("arrival-miss", inp, observed={"r_at_receiver_depth": res["r"], "miss": miss},
                       expected={"rho": rho, "tolerance": tol_r, "k3_allowance": k3r},
                       what="the ray launched in the reported direction misses the receiver by %.3g m" % miss,
                       finding_key=kf)
        if kf is None or not k3:
            return
    kf = key_for(res["s"] - L, tol_l, k3l)
    if kf is not False:
        run.fail_input("path-length", inp, observed={"path_length": L}, expected={"rk4_arc_length": res["s"],
                       "tolerance": tol_l, "k3_allowance": k3l},
                       what="reported path length is not the arc length of the ray", finding_key=kf)
        if kf is None or not k3:
            return
    kf = key_for(res["tof"] - tof, tol_t, k3t)
    if kf is not False:
        run.fail_input("tof", inp, observed={"tof": tof}, expected={"rk4_integral_n_ds_over_c": res["tof"],
                       "tolerance": tol_t, "k3_allowance": k3t},
                       what="reported time of flight is not the integral of n ds / c", finding_key=kf)
        if kf is None or not k3:
            return
    # Snell at both ends + reported received direction is the ray's direction at arrival
    n_from, n_to = float(ice.index(zf)), float(ice.index(zt))
    b0 = n_from * math.hypot(em[0], em[1])
    b1 = n_to * math.hypot(rc[0], rc[1])
    if not abs(b0 - b1) <= 1e-9:
        run.fail_input("snell", inp, observed={"n_sin_launch": b0, "n_sin_reception": b1},
                       what="n sin(theta) differs between launch and reception")
        return
    r_exp = np.array([math.sin(res["theta"]) * math.cos(phi), math.sin(res["theta"]) * math.sin(phi),
                      math.cos(res["theta"])])
    # direction tolerance: angle error from the same budgets (d theta ~ d r / path scale), generous but far
    # below a flipped sign
    if not np.allclose(rc, r_exp, atol=1e-4 + 10 * tol_r / max(L, 1.0) + 2 * k3d):
        run.fail_input("received-direction", inp, observed=list(rc), expected=list(r_exp),
                       what="reported received direction is not the direction of the ray at arrival",
                       finding_key=fk if fk != "K3" else None)
        return
    # the first solution never turns; the second turns below the surface or reflects off it
    if direct and (res["turned"] or res["reflected"]):
        run.fail_input("direct-turns", inp, observed=res, what="direct solution turns over")
        return
    if not direct and not (res["turned"] or res["reflected"]):
        run.fail_input("indirect-does-not-turn", inp, observed=res, what="indirect solution neither turns nor reflects")
        return
    run.count("oracle_ok_%s_%s" % (tname, "direct" if direct else ("reflected" if res["reflected"] else "turned")))


def degenerate_probes(run):
    """inputs outside the property's quantifier that the theorems exclude by hypothesis (hypothesis audit): the
    implementation must reject them or return nothing - never garbage paths.
    * integration step dz <= 0 (numeric tracer): OverflowError for dz = 0, no solutions for dz < 0
    * profiles that are not an ice (k <= 0 or a <= 0; theorems assume 0 < k, 0 < a): no solutions, or
      ValueError / OverflowError from the numeric tracer
    * identical endpoints: the analytic tracer returns a zero-length path and the vertical up-and-down path"""
    rt, im = _pyrex()
    ok_exc = (ValueError, OverflowError, ZeroDivisionError)
    A, B = (3.0, -4.0, -300.0), (203.0, 50.0, -100.0)
    probes = [("dz=0", im.AntarcticIce(), "basic", 0), ("dz<0", im.AntarcticIce(), "basic", -1)]
    for kw in (dict(k=-0.2), dict(k=0.0), dict(a=-0.0132), dict(a=0.0)):
        for tn in ("specialized", "basic"):
            probes.append(("ice %s" % kw, im.AntarcticIce(**kw), tn, 1))
    for label, ice, tn, dz in probes:
        inp = {"ice": ice_desc("degenerate", ice), "from": list(A), "to": list(B), "tracer": tn, "dz": dz,
               "class": "degenerate:" + label}
        run.case(("degenerate", label, tn))
        try:
            t, sols, _ = solve(tn, A, B, ice, dz)
            outcome = "no-solutions" if not sols else "paths"
        except ok_exc as e:
            outcome = type(e).__name__
        except Exception as e:
            outcome = "other:" + type(e).__name__
        run.count("degenerate_%s_%s_%s" % (label.split()[0], tn, outcome))
        if outcome == "paths" or outcome.startswith("other:"):
            run.fail_input("degenerate-input", inp, observed=outcome,
                           expected="no solutions or ValueError / OverflowError / ZeroDivisionError",
                           what="tracer returns paths (or an undocumented exception) for %s" % label)
    # identical endpoints
    ice = im.AntarcticIce()
    P = (10.0, 20.0, -300.0)
    t, sols, _ = solve("specialized", P, P, ice, 1)
    run.case(("degenerate", "same-point"))
    inp = {"ice": ice_desc("antarctic", ice), "from": list(P), "to": list(P), "tracer": "specialized", "dz": 1,
           "class": "degenerate:same-point"}
    if len(sols) == 2:
        if not (float(sols[0].path_length) <= 1e-9 and abs(float(sols[0].tof)) <= 1e-15):
            run.fail_input("degenerate-input", inp, observed=[float(sols[0].path_length), float(sols[0].tof)],
                           expected="zero-length first path", what="first path between identical endpoints is not empty")
        check_solution(run, "antarctic", ice, "degenerate:same-point", P, P, "specialized", 1, t, sols[1], 0.5)
    elif sols:
        run.fail_input("solution-count", inp, observed=len(sols), expected="0 or 2 solutions",
                       what="tracer returned %d solutions" % len(sols))


def search(run, deep):
    degenerate_probes(run)
    n_q, n_t = (25, 300)
    cases = case_list(run, n_q if not deep else n_t, n_t, 3)
    h = 0.5
    reuse_cases(run, 24 if not deep else 200)
    reparam_cases(run, 16 if not deep else 120)
    prev = None      # (input, paths, snapshot) of the previous case: several live handles
    for name, ice, cname, zf, zt, rho, tname, dz in cases:
        if len([v for v in run.violations if not v[1]]) >= 5:
            break                      # enough concrete replays recorded
        A, B = endpoints(run, zf, zt, rho)
        if cname == "outside":
            inp_o = {"ice": ice_desc(name, ice), "from": list(map(float, A)), "to": list(map(float, B)),
                     "tracer": tname, "dz": dz, "class": cname}
            run.case((name, ice.n0, ice.k, ice.a, tname, dz, zf, zt, rho, "outside"))
            run.count("search_geom_outside")
            try:
                t, sols, _ = solve(tname, A, B, ice, dz)
                ex = bool(t.exists)
            except Exception as e:
                run.fail_input("exception", inp_o, observed="%s: %s" % (type(e).__name__, e),
                               what="tracer raises for an endpoint outside the ice instead of reporting no solutions")
                continue
            if sols or ex:
                run.fail_input("outside-ice", inp_o, observed={"solutions": len(sols), "exists": ex},
                               expected="no solutions: an endpoint lies outside the ice's valid range",
                               what="tracer returns paths although an endpoint is outside the ice")
            continue
        # how the endpoints are handed over, and whether the caller recycles its buffers afterwards
        # (source and receiver kinds are drawn independently: integer source x fractional receiver and the
        # reverse included; an integer kind means the caller's values ARE whole numbers.  A, B below are the
        # caller's own float copies of its arguments - the reference for every oracle)
        container = (run.rng.choice(CONTAINERS), run.rng.choice(CONTAINERS))
        if run.rng.random() < 0.35:
            container = (container[0], container[0])
        plain = container == ("tuple", "tuple")
        alias = run.rng.choice(ALIAS_MODES) if not plain else None
        if container[0] in INT_KINDS:
            A = tuple(float(int(round(v))) for v in A)
        if container[1] in INT_KINDS:
            B = tuple(float(int(round(v))) for v in B)
        if container[0] in INT_KINDS or container[1] in INT_KINDS:
            zf, zt = A[2], B[2]
            rho = math.hypot(B[0] - A[0], B[1] - A[1])
        extra = {"container": list(container), "alias": alias}
        inp0 = {"ice": ice_desc(name, ice), "from": list(map(float, A)), "to": list(map(float, B)),
                "tracer": tname, "dz": dz, "class": cname}
        inp0.update(extra)
        run.count("search_container_%s+%s" % container)
        run.count("search_alias_%s" % alias)
        try:
            t, sols, bufs = solve(tname, A, B, ice, dz, alias=alias, container=container)
            ref = None
            if not plain:
                ref = solve(tname, A, B, ice, dz)[:2]      # float64 copies of the caller's arguments
        except Exception as e:
            if isinstance(e, (ValueError, OverflowError)) and crash_class(ice, zf, zt):
                run.count("search_crash_class_%s" % type(e).__name__)
                continue
            if isinstance(e, ValueError) and "NaN" in str(e):
                # crash mode of the unchanged tree (brentq meets a NaN of the r function: arcsin > 1 next to
                # the shadow boundary of the numeric tracer): no path is returned, so the property (about
                # returned paths) is not broken; recorded
                run.count("search_impl_nan_exception")
                if len(run.notes) < 10:
                    run.notes.append("implementation raised %s: %s for %s" % (type(e).__name__, e, inp0))
                continue
            run.fail_input("exception", inp0, observed="%s: %s" % (type(e).__name__, e),
                           what="tracer raises on endpoints inside the ice")
            continue
        run.case((name, ice.n0, ice.k, ice.a, tname, dz, zf, zt, rho, "oracle"), nontrivial=len(sols) > 0)
        run.count("search_geom_%s" % cname)
        run.count("search_%s_nsol%d" % (tname, len(sols)))
        alias_check(run, inp0, t, sols, bufs, A, B, alias, container, ref)
        if prev is not None:
            now = path_snapshot(prev[1])
            if not (len(now) == len(prev[2]) and all(fw.all_close(a_, b_, 1e-12, 1e-15) for a_, b_ in zip(now, prev[2]))):
                run.fail_input("live-handle",
                               dict(prev[0], followed_by={"ice": ice_desc(name, ice), "tracer": tname, "dz": dz,
                                                          "from": list(map(float, A)), "to": list(map(float, B))}),
                               observed=now, expected=prev[2],
                               what="paths returned earlier changed after another tracer (%s %s->%s) was solved"
                                    % (tname, list(A), list(B)))
            prev = None
        if ref is not None:
            t = ref[0]            # geometry-dependent budgets / self-consistency from the private-copy tracer
        if len(sols) not in (0, 2):
            run.fail_input("solution-count", inp0, observed=len(sols), expected="0 or 2 solutions",
                           what="tracer returned %d solutions" % len(sols))
            continue
        if sols and (bool(sols[1].direct) or [bool(p.direct) for p in sols] !=
                     [bool(t.expected_solutions[0]), False]):
            run.fail_input("classification", inp0, observed=[bool(p.direct) for p in sols],
                           expected=[bool(t.expected_solutions[0]), False],
                           what="direct/indirect flags of the solutions do not match expected_solutions")
            continue
        for p in sols:
            check_solution(run, name, ice, cname, A, B, tname, dz, t, p, h, extra=extra)
        run.traces += len(sols)
        prev = (inp0, sols, path_snapshot(sols))
        # oracle self-check in the deep tier: halving the RK4 step must not move the arrival point
        if deep and sols and run.rng.random() < 0.1:
            p = sols[-1]
            r1 = rk4_trace(ice, zf, float(p.theta0), zt, bool(p.direct), h=h)
            r2 = rk4_trace(ice, zf, float(p.theta0), zt, bool(p.direct), h=h / 2)
            if "fail" not in r1 and "fail" not in r2:
                run.count("rk4_step_halving_checks")
                if abs(r1["r"] - r2["r"]) > 1e-6 * max(1, abs(r1["r"])):
                    run.notes.append("RK4 step halving moved r by %.2e at %s" % (abs(r1["r"] - r2["r"]), inp0))


def reuse_sequence(run, name, ice, tname, seq, h=0.5):
    """query - reassign - query on ONE tracer object: `seq` = [(A, B, dz), ...]; after each reassignment of
    from_point / to_point / dz the tracer must answer like a freshly built one (and like a true ray: RK4)."""
    cls = tracer_classes()[tname]
    A, B, dz = seq[0]
    t = cls(np.array(A, dtype=float), np.array(B, dtype=float), ice, dz=dz)
    for k, (A, B, dz) in enumerate(seq):
        inp0 = {"ice": ice_desc(name, ice), "tracer": tname, "class": "reuse", "from": list(map(float, A)),
                "to": list(map(float, B)), "dz": dz, "reuse_sequence": [[list(map(float, a)), list(map(float, b)), d]
                                                                     for a, b, d in seq[:k + 1]]}
        if k > 0:
            # assign only what changed (a caller moving one endpoint, or refining dz)
            if tuple(A) != tuple(seq[k - 1][0]):
                t.from_point = np.array(A, dtype=float)
            if tuple(B) != tuple(seq[k - 1][1]):
                t.to_point = np.array(B, dtype=float)
            if dz != seq[k - 1][2]:
                t.dz = dz
        try:
            with np.errstate(all="ignore"):
                sols = list(t.solutions)
            ref = solve(tname, A, B, ice, dz)[:2]
        except Exception as e:
            if isinstance(e, (ValueError, OverflowError)) and crash_class(ice, A[2], B[2]):
                run.count("search_crash_class_%s" % type(e).__name__)
                return
            if isinstance(e, ValueError) and "NaN" in str(e):
                run.count("search_impl_nan_exception")
                return
            run.fail_input("exception", inp0, observed="%s: %s" % (type(e).__name__, e),
                           what="re-used tracer raises on endpoints inside the ice")
            return
        run.case((name, ice.n0, ice.k, ice.a, tname, "reuse", k, tuple(A), tuple(B), dz), nontrivial=len(sols) > 0)
        run.count("search_reuse_step%d" % k)
        if not alias_check(run, inp0, t, sols, (None, None), A, B, "reuse", "ndarray", ref):
            return
        for p in sols:
            check_solution(run, name, ice, "reuse", A, B, tname, dz, ref[0], p, h,
                           extra={"reuse_sequence": inp0["reuse_sequence"]})


ICE_ATTRS = ("n0", "k", "a", "valid_range")


def reflect_or_turn_rho(ice, beta, z_from, z_to):
    """radial distance of the indirect ray with invariant beta between two depths in `ice` (independent
    quadrature): surface reflection when beta < n(hi), refractive turn-over otherwise"""
    hi = float(ice.valid_range[1])
    n_hi = ice.n0 - ice.k * math.exp(ice.a * hi)
    if beta < n_hi:
        return vertical_r(ice, z_from, z_to, False, beta)
    zt = math.log((ice.n0 - beta) / ice.k) / ice.a
    if zt <= max(z_from, z_to):
        return None
    return turn_leg(ice, beta, z_from, zt, "tan") + turn_leg(ice, beta, z_to, zt, "tan")


def reparam_sequence(run, ice, label, first, final_params, second, tname, dz, h=0.5):
    """ONE ice object: trace `first` = (A, B) with its current parameters, re-parameterise it IN PLACE
    (ice.n0 / k / a / valid_range assigned), trace `second` with it: the answers must be those of a freshly
    constructed ice model with the final parameters (compared attribute by attribute and by RK4 in the fresh
    ice); also ice.index / depth_with_index after the change against the fresh object."""
    rt, im = _pyrex()
    initial = [ice.n0, ice.k, ice.a, ice.valid_range[0], ice.valid_range[1]]
    inp0 = {"ice": ["reparam-final"] + list(final_params), "tracer": tname, "dz": dz, "class": "reparam",
            "from": list(map(float, second[0])), "to": list(map(float, second[1])),
            "reparam": {"object": label, "initial": initial, "first": [list(first[0]), list(first[1])]}}
    try:
        t1, sols1, _ = solve(tname, first[0], first[1], ice, dz)
        path_snapshot(sols1)
        with np.errstate(all="ignore"):
            ice.depth_with_index(0.9 * ice.n0), ice.index(ice.valid_range[1]), ice.index(ice.valid_range[0])
    except Exception:
        pass
    ice.n0, ice.k, ice.a = final_params[0], final_params[1], final_params[2]
    ice.valid_range = (final_params[3], final_params[4])
    fresh = im.AntarcticIce(n0=final_params[0], k=final_params[1], a=final_params[2],
                            valid_range=(final_params[3], final_params[4]))
    run.case(("reparam", label, tuple(initial), tuple(final_params), tuple(second[0]), tuple(second[1]), tname, dz))
    run.count("search_reparam_%s" % label)
    # the ice object itself
    ns = [fresh.n0 - fresh.k * math.exp(fresh.a * z) for z in (final_params[4], 0.5 * (final_params[3] + final_params[4]))]
    probes_n = [ns[0] - 0.01, ns[0] + 0.01, ns[1], fresh.n0 * 0.99999]
    with np.errstate(all="ignore"):
        got = [float(ice.depth_with_index(n)) for n in probes_n] + [float(ice.index(final_params[4])), float(ice.index(final_params[3]))]
        exp = [float(fresh.depth_with_index(n)) for n in probes_n] + [float(fresh.index(final_params[4])), float(fresh.index(final_params[3]))]
    if not fw.all_close(got, exp, 1e-12, 1e-12):
        run.fail_input("reparam-ice", inp0, observed=got, expected=exp,
                       what="depth_with_index / index of a re-parameterised ice object differ from a fresh ice model "
                            "with the same parameters")
        # (go on: the traced solutions are compared as well)
    try:
        t, sols, _ = solve(tname, second[0], second[1], ice, dz)
        ref = solve(tname, second[0], second[1], fresh, dz)[:2]
    except Exception as e:
        if isinstance(e, ValueError) and "NaN" in str(e):
            run.count("search_impl_nan_exception")
            return
        run.fail_input("exception", inp0, observed="%s: %s" % (type(e).__name__, e),
                       what="tracer raises with a re-parameterised ice object")
        return
    a_, b_ = path_snapshot(sols), path_snapshot(ref[1])
    with np.errstate(all="ignore"):
        za = [float(p.z_turn) for p in sols]
        zb = [float(p.z_turn) for p in ref[1]]
    if not (len(a_) == len(b_) and all(fw.all_close(x, y, 1e-12, 1e-15) for x, y in zip(a_, b_))
            and fw.all_close(za, zb, 1e-12, 1e-12)):
        run.fail_input("reparam", inp0, observed={"paths": a_, "z_turn": za}, expected={"paths": b_, "z_turn": zb},
                       what="solutions traced with a re-parameterised ice object (%s) differ from those of a fresh "
                            "ice model with the same parameters" % label)
        return
    for p in sols:
        check_solution(run, "reparam-final", fresh, "reparam", second[0], second[1], tname, dz, ref[0], p, h,
                       extra={"reparam": inp0["reparam"]})


def reparam_cases(run, n):
    rt, im = _pyrex()
    south_pole = [1.78, 0.43, 0.0132, -2850, 0]
    summit = [1.775, 0.448, 0.0247, -3000, 0]
    default_ice = im.ice
    saved = {k: getattr(default_ice, k) for k in ICE_ATTRS}
    try:
        for i in range(n):
            if len([v for v in run.violations if not v[1]]) >= 5:
                break
            kind = i % 4
            if kind == 0:
                ice, label, final = im.AntarcticIce(), "AntarcticIce->summit", list(summit)
            elif kind == 1:
                ice, label, final = im.GreenlandIce(), "GreenlandIce->south-pole", list(south_pole)
            elif kind == 2:
                for k_, v_ in saved.items():
                    setattr(default_ice, k_, v_)
                ice, label = default_ice, "pyrex.ice_model.ice"
                final = [round(run.rng.uniform(1.6, 1.9), 3), round(run.rng.uniform(0.25, 0.5), 3),
                         round(10 ** run.rng.uniform(-2.1, -1.6), 4), -2850, 0]
            else:
                ice, label = im.AntarcticIce(), "AntarcticIce->random"
                final = [round(run.rng.uniform(1.6, 1.9), 3), round(run.rng.uniform(0.25, 0.5), 3),
                         round(10 ** run.rng.uniform(-2.1, -1.6), 4), -round(run.rng.uniform(1500, 3000)),
                         run.rng.choice([0, 0, -20.0])]
            fresh = im.AntarcticIce(n0=final[0], k=final[1], a=final[2], valid_range=(final[3], final[4]))
            hi_new, hi_old = float(final[4]), float(ice.valid_range[1])
            n_old = ice.n0 - ice.k * math.exp(ice.a * min(hi_old, hi_new))
            n_new = final[0] - final[1] * math.exp(final[2] * hi_new)
            # second geometry: an indirect ray whose beta lies between the old and the new surface index (where a
            # stale edge value changes turning <-> reflecting), or anywhere
            zf = run.rng.uniform(-600, hi_new - 30)
            zt = run.rng.uniform(-400, hi_new - 10)
            n_top = final[0] - final[1] * math.exp(final[2] * max(zf, zt))
            lo_b, hi_b = min(n_old, n_new), max(n_old, n_new)
            beta = run.rng.uniform(lo_b, hi_b) if run.rng.random() < 0.7 else run.rng.uniform(0.3, 0.98) * n_top
            beta = min(beta, 0.995 * n_top)
            rho = reflect_or_turn_rho(fresh, beta, zf, zt)
            if rho is None or not 1.0 < rho < 2.0e4:
                continue
            A2, B2 = endpoints(run, round(zf, 3), round(zt, 3), rho)
            g1 = geometry(run, im.AntarcticIce(), run.rng.choice(["shallow", "across", "near_vertical"]))
            A1, B1 = endpoints(run, *g1) if g1 else (A2, B2)
            tname = "specialized" if i % 3 else "basic"
            reparam_sequence(run, ice, label, (A1, B1), final, (A2, B2), tname, run.rng.choice([1, 5]))
    finally:
        for k_, v_ in saved.items():
            setattr(default_ice, k_, v_)


def reuse_cases(run, n):
    il = ices(run, 2)
    for i in range(n):
        name, ice = il[i % len(il)]
        tname = "specialized" if i % 3 else "basic"
        seq = []
        dz = run.rng.choice([0.1, 1, 5]) if tname == "specialized" else run.rng.choice([1, 5])
        g = None
        while g is None:
            first = ["equal_depth", "shallow", "near_direct_max", "across", "near_vertical", "near_indirect_max",
                     "bounds"]
            g = geometry(run, ice, first[i % len(first)] if run.rng.random() < 0.8 else run.rng.choice(first))
        A, B = endpoints(run, g[0], g[1], g[2])
        seq.append((A, B, dz))
        for step in range(2):
            kind = run.rng.choice(["to", "from", "both", "dz"])
            g2 = None
            while g2 is None:
                g2 = geometry(run, ice, run.rng.choice(["shallow", "across", "deep", "near_vertical", "equal_depth",
                                                         "near_direct_max", "near_indirect_max", "k3_region"]))
            A2, B2 = endpoints(run, g2[0], g2[1], g2[2])
            if kind == "to":
                A2 = A
            elif kind == "from":
                B2 = B
            elif kind == "dz":
                A2, B2 = A, B
                dz = 5 if dz != 5 else 1
            A, B = A2, B2
            seq.append((A, B, dz))
        if len([v for v in run.violations if not v[1]]) >= 5:
            break
        reuse_sequence(run, name, ice, tname, seq)


def replay(run, data):
    inp = data["input"]
    ice = make_ice(inp["ice"])
    if "reparam" in inp:
        rt, im = _pyrex()
        rp = inp["reparam"]
        ini = rp["initial"]
        if rp["object"] == "pyrex.ice_model.ice":
            obj = im.ice
            saved = {k: getattr(obj, k) for k in ICE_ATTRS}
        elif rp["object"].startswith("GreenlandIce"):
            obj, saved = im.GreenlandIce(), None
        else:
            obj, saved = im.AntarcticIce(), None
        obj.n0, obj.k, obj.a, obj.valid_range = ini[0], ini[1], ini[2], (ini[3], ini[4])
        try:
            reparam_sequence(run, obj, rp["object"], (tuple(rp["first"][0]), tuple(rp["first"][1])), inp["ice"][1:6],
                             (tuple(inp["from"]), tuple(inp["to"])), inp["tracer"], inp["dz"], h=0.25)
        finally:
            if saved:
                for k_, v_ in saved.items():
                    setattr(obj, k_, v_)
        return
    if "reuse_sequence" in inp:
        seq = [(tuple(a), tuple(b), d) for a, b, d in inp["reuse_sequence"]]
        reuse_sequence(run, inp["ice"][0], ice, inp["tracer"], seq, h=0.25)
        return
    if "followed_by" in inp:
        fb = inp["followed_by"]
        t1, sols1, _ = solve(inp["tracer"], tuple(inp["from"]), tuple(inp["to"]), ice, inp["dz"])
        snap = path_snapshot(sols1)
        t2, sols2, _ = solve(fb["tracer"], tuple(fb["from"]), tuple(fb["to"]), make_ice(fb["ice"]), fb["dz"])
        path_snapshot(sols2)
        now = path_snapshot(sols1)
        if not (len(now) == len(snap) and all(fw.all_close(a_, b_, 1e-12, 1e-15) for a_, b_ in zip(now, snap))):
            run.fail_input("live-handle", inp, observed=now, expected=snap,
                           what="paths returned earlier changed after another tracer was solved")
        return
    if inp.get("class") == "outside":
        t, sols, _ = solve(inp["tracer"], tuple(inp["from"]), tuple(inp["to"]), ice, inp["dz"])
        if sols or bool(t.exists):
            run.fail_input("outside-ice", inp, observed={"solutions": len(sols), "exists": bool(t.exists)},
                           what="tracer returns paths although an endpoint is outside the ice")
        return
    A, B = tuple(inp["from"]), tuple(inp["to"])
    container, alias = inp.get("container", "tuple"), inp.get("alias")
    if isinstance(container, list):
        container = tuple(container)
    t, sols, bufs = solve(inp["tracer"], A, B, ice, inp["dz"], alias=alias, container=container)
    ref = solve(inp["tracer"], A, B, ice, inp["dz"])[:2] if container not in ("tuple", ("tuple", "tuple")) else None
    inp0 = {k: inp[k] for k in ("ice", "from", "to", "tracer", "dz", "class", "container", "alias") if k in inp}
    alias_check(run, inp0, t, sols, bufs, A, B, alias, container, ref)
    if ref is not None:
        t = ref[0]
    for p in sols:
        check_solution(run, inp["ice"][0], ice, inp.get("class", "replay"), A, B, inp["tracer"], inp["dz"], t, p, 0.25,
                       extra={"container": list(container) if isinstance(container, tuple) else container,
                              "alias": alias})
