"""C02 - ray solution sets respect reciprocity and the symmetries of stratified ice.

Float twin of lean/twin/Geom.body (rho/phi, rigid motions, direction conversion, low-to-high bookkeeping,
expected_solutions table) and lean/twin/Uniform.body (uniform solution list) against the four tracers of
pyrex.ray_tracing / pyrex.custom.layered_ice, each run on a base geometry, on the geometry moved by the MODEL's
rigid motion, and on the swapped geometry."""
import math

import numpy as np

import framework as fw
from props import raylib

LEVEL = "proof"
USE_TWINS = True
EXTRACTORS = ["ray_constants"]     # Props/C02.lean instantiates the medium with twin/Ray.body (C01)
TECHNIQUE = ("Lean 4 theorems over the real-number reading of a twin model + Float-twin differential run under "
             "random rigid motions and endpoint swaps")
RULE = ("base cases: SpecializedRayTracer and BasicRayTracer (dz 2..8) in Antarctic / Arasim / Greenland / random "
        "exponential ice, UniformRayTracer with max_reflections 0..3 in random UniformIce (None guards), LayeredRayTracer "
        "on uniform+exponential and uniform stacks; endpoints from direct-only to shadowed separations, source above and "
        "below, plus shadow-zone pairs (two shallow far-apart points; for the layered tracer both in one exponential "
        "layer), exactly vertical pairs (rho == 0) and pairs in the near-vertical band rho < 0.003 |dz|, and integer-valued "
        "endpoints handed over as Python ints / int lists / int64 arrays, endpoints exactly on the surface / lower bound of "
        "the ice / at one depth (gradient tracers) and exactly on the lower / upper bound of a UniformIce (source or receiver, "
        "max_reflections 0..3), endpoints outside the ice; ice.contains on both exact bounds and one ulp either side for "
        "every shipped ice class; search additionally: caller-owned endpoint buffers modified "
        "after construction, several live tracers solved before any path quantity is read, attenuation call forms (scalar, "
        "0-d, one-element, list, negative f), arrays handed out by paths modified in place against an untouched twin, evaluation-order independence (same pairs x different ice models in one "
        "process vs a fresh interpreter in reverse order); each base case is re-run under a random rotation about z, a horizontal translation up to 1e5 m and the "
        "swap; a case is non-trivial when the base geometry has at least one solution; distinct = distinct "
        "(tracer, ice, endpoints, motion) tuples")
LEVEL_TEXT = ("rigid-motion invariance of rho and covariance of (cos phi, sin phi), factorisation of a gradient-index "
              "solution set through (z_from, z_to, rho), reciprocity of the root problem / beta / path integrals / "
              "directions, the 0-or-2 table, exists <-> non-empty, and translation / rotation covariance, existence and "
              "count of the uniform image construction are proved in Lean; the Float reading of the same text agrees with "
              "the four tracers, whose outputs on moved and swapped geometries agree with each other through the model's "
              "predicted transformation")
LEVEL_NOTE = ("brentq is not modelled (C02_zero_or_two and C02_exists_iff_nonempty assume a total root oracle; the run "
              "compares counts with the table on every case); path length / tof / attenuation of gradient-index paths are "
              "abstract functions of (z_from, z_to, theta0, direct) in the model - their values are tied only through the "
              "implementation-vs-implementation comparison; C02_specialized_instance instantiates them with the closed forms "
              "Ray.specPathLength / Ray.specTof of twin/Ray.body (property C01), attenuation, indirect_r_max and the root "
              "oracle stay abstract; uniform and layered attenuation is a left Riemann sum, reciprocal only up to step x "
              "variation of 1/L_att (C02_uniform_atten_reciprocity; the model's nodes and step reproduce the implementation's "
              "attenuation to 1e-9 on every uniform path), which is the tolerance used; "
              "Fresnel products are direction dependent and not part of the property; in the near-vertical band of the "
              "gradient tracers (finding K3 of C01: inaccurate launch angle) count, exists, length, tof, directions and the "
              "symmetry relations are checked on exactly vertical pairs and on rho < 0.003 |dz|; the band 0.003 |dz| < rho < "
              "0.02 |dz| + 1 m and endpoints down to the lower bound of the ice are sampled with the K9 noise allowance; hypothesis "
              "audit: rho != 0 of C02_phi_rigid / C02_rigid_covariance is complemented by C02_vertical_placement and the vertical "
              "class; |arcsin argument| <= 1 / a < pi/2 / total root oracle are where the code raises (K17, both gradient tracers, "
              "saturated index below about -2870 m in GreenlandIce) - any other exception is a violation; decisions within 1e-6 of "
              "direct_r_max / indirect_r_max are skipped and counted (skipped_near_threshold); BasicRayTracer finds nothing when "
              "|z_from - z_to| <= dz (allowed by 'none or two'; observation for C01)")
ASSUMPTIONS = ["decisions rho < direct_r_max / indirect_r_max within 1e-6 relative of the threshold are not compared "
               "(a 1e-11 m change of rho under a 1e5 m translation may flip them)"]
FREQS = np.array([1e8, 2e8, 3.5e8, 6e8, 1e9])


def _mods():
    import pyrex  # noqa: F401
    from pyrex import ray_tracing as rt
    from pyrex import ice_model as im
    from pyrex.custom.layered_ice import LayeredIce, LayeredRayTracer
    return rt, im, LayeredIce, LayeredRayTracer


def opt(v):
    return "-" if v is None else str(fw.f2b(v))


def fls(x):
    return [float(v) for v in np.asarray(x, dtype=float).ravel()]


# --------------------------------------------------------------------------------------------
# base cases: a JSON-serialisable description + a factory
def make_ice(desc):
    rt, im, LayeredIce, LayeredRayTracer = _mods()
    k = desc["ice"]
    if k == "antarctic":
        return im.AntarcticIce()
    if k == "arasim":
        return im.ArasimIce()
    if k == "greenland":
        return im.GreenlandIce()
    if k == "exp":
        return im.AntarcticIce(n0=desc["n0"], k=desc["k"], a=desc["a"], valid_range=tuple(desc["range"]),
                               index_above=desc["above"], index_below=desc["below"])
    if k == "uniform":
        return im.UniformIce(desc["n"], valid_range=tuple(desc["range"]), index_above=desc["above"], index_below=desc["below"])
    if k == "layered":
        layers = []
        for l in desc["layers"]:
            if l["type"] == "u":
                layers.append(im.UniformIce(l["n"], valid_range=tuple(l["range"]), index_above=None, index_below=None))
            else:
                layers.append(im.AntarcticIce(valid_range=tuple(l["range"]), index_above=None, index_below=None))
        return LayeredIce(layers, index_above=desc["above"], index_below=desc["below"])
    raise ValueError(k)


def as_form(P, form):
    """integer-VALUED coordinates handed over as Python ints / int lists / int64 arrays; anything else as floats"""
    if not form or any(float(v) != int(v) for v in P):
        return [float(v) for v in P]
    if form == "int-tuple":
        return tuple(int(v) for v in P)
    if form == "int-list":
        return [int(v) for v in P]
    if form == "int64":
        return np.array([int(v) for v in P], dtype=np.int64)
    raise ValueError(form)


def make_tracer(desc, A, B, ice=None):
    rt, im, LayeredIce, LayeredRayTracer = _mods()
    ice = ice if ice is not None else make_ice(desc)
    t = desc["tracer"]
    A, B = as_form(A, desc.get("form")), as_form(B, desc.get("form"))
    if t == "spec":
        return rt.SpecializedRayTracer(A, B, ice)
    if t == "basic":
        return rt.BasicRayTracer(A, B, ice, dz=desc["dz"])
    if t == "uniform":
        tr = rt.UniformRayTracer(A, B, ice)
        tr.max_reflections = desc["max_reflections"]
        return tr
    if t == "layered":
        tr = LayeredRayTracer(A, B, ice)
        tr.max_reflections = desc["max_reflections"]
        return tr
    raise ValueError(t)


def shadow_case(run, tracer):
    """endpoints beyond each other's horizon: two shallow points far apart in a gradient-index medium (for the layered
    tracer both in the same exponential layer).  No solution, or only the two indirect ones, is expected."""
    r = run.rng
    d = {"tracer": tracer, "flavour": "shadow"}
    if tracer in ("spec", "basic"):
        d["ice"] = r.choice(["antarctic", "arasim", "greenland"])
        if tracer == "basic":
            d["dz"] = r.choice([4, 5, 8])
        zA, zB = -r.uniform(5, 150), -r.uniform(5, 150)
        rho = r.uniform(600, 4000)
    else:
        zc = -r.uniform(160, 400)
        if r.random() < 0.5:
            layers = [{"type": "a", "range": [zc, 0.0]}, {"type": "u", "n": r.uniform(1.7, 1.8), "range": [-2850.0, zc]}]
        else:
            layers = [{"type": "a", "range": [zc, 0.0]}, {"type": "a", "range": [-2850.0, zc]}]
        d.update(ice="layered", layers=layers, above=1, below=None, max_reflections=r.choice([0, 1]))
        zA, zB = -r.uniform(5, 150), -r.uniform(5, 150)
        rho = r.uniform(400, 3000)
    az = r.uniform(0, 2 * math.pi)
    A = [r.uniform(-500, 500), r.uniform(-500, 500), zA]
    B = [A[0] + rho * math.cos(az), A[1] + rho * math.sin(az), zB]
    ang, T, taz = r.uniform(0, 2 * math.pi), 10 ** r.uniform(1, 5), r.uniform(0, 2 * math.pi)
    d.update(A=[float(v) for v in A], B=[float(v) for v in B], c=math.cos(ang), s=math.sin(ang),
             tx=T * math.cos(taz), ty=T * math.sin(taz))
    return d


def vertical_case(run, tracer):
    """exactly vertical pairs (identical x, y: rho == 0, launch angle exactly 0 or pi) and pairs in the near-vertical band
    rho < 0.003 |dz| (K3 of C01: the launch angle is inaccurate there, count / length / tof / symmetry are not)"""
    d = rand_case(run, tracer)
    r = run.rng
    zA, zB = d["A"][2], d["B"][2]
    if tracer in ("spec", "basic") and not (-2800 < zA < 0):
        zA = -r.uniform(20, 900)
    if abs(zA - zB) < 3:
        zB = zA - 40.0 if zA > -500 else zA + 40.0
    rho = 0.0 if r.random() < 0.6 else abs(zA - zB) * 10 ** r.uniform(-6, -2.6)
    az = r.uniform(0, 2 * math.pi)
    d["A"][2] = zA
    d["B"] = [d["A"][0] + rho * math.cos(az), d["A"][1] + rho * math.sin(az), zB] if rho else [d["A"][0], d["A"][1], zB]
    d["flavour"] = "vertical"
    return d


def onbound_case(run, tracer):
    """an endpoint exactly on the surface (z == valid_range[1]) or on the lower bound of the ice, or both at one depth"""
    d = rand_case(run, tracer)
    r = run.rng
    if tracer == "uniform":
        # source or receiver exactly on the lower / upper bound of the UniformIce, every max_reflections 0..3
        d["max_reflections"] = r.choice([0, 1, 2, 3])
        d["A"][2] = min(max(d["A"][2], d["range"][0] + 1), d["range"][1] - 1)      # the other endpoint inside
        k = r.choice(["lower", "lower", "upper"])
        d[r.choice(["A", "B"])][2] = d["range"][0] if k == "lower" else d["range"][1]
        d["flavour"] = "onbound:" + k
        return d
    # (the lower bound is sampled too: Antarctic / Arasim ice work down to it, GreenlandIce below -2870 m is K17)
    k = r.choice(["surface", "surface", "level", "bottom"]) if tracer != "layered" else r.choice(["surface", "level"])
    if k == "surface":
        d[r.choice(["A", "B"])][2] = 0.0
    elif k == "bottom" and tracer != "layered":
        if d["ice"] == "exp":
            d["ice"] = r.choice(["antarctic", "arasim", "greenland"])
        lo = float(make_ice(d).valid_range[0])
        d["A"][2], d["B"][2] = lo, lo + r.uniform(50, 400)
    else:
        d["B"][2] = d["A"][2]
    d["flavour"] = "onbound:" + k
    return d


def outside_case(run, tracer):
    """an endpoint above the surface or below the ice: no solution, no exception"""
    d = rand_case(run, tracer)
    r = run.rng
    bottom = min(l["range"][0] for l in d["layers"]) if tracer == "layered" else -3000.0
    d[r.choice(["A", "B"])][2] = r.choice([r.uniform(0.01, 50), bottom - r.uniform(0.01, 50)])
    d["flavour"] = "outside"
    return d


def steep_case(run, tracer):
    """the band between the near-vertical cut (rho < 0.003 |dz|) and the main generator (rho > 0.02 |dz| + 1 m), and
    endpoints down to 50 m above the lower bound of the ice"""
    d = rand_case(run, tracer)
    r = run.rng
    if r.random() < 0.5:
        lo = float(make_ice(d).valid_range[0]) if d["ice"] != "exp" else -3000.0
        top = -2750.0 if d["ice"] in ("greenland", "exp") else lo + 50      # below: saturated index (K17)
        d["A"][2] = r.uniform(top, -900)
        d["B"][2] = min(d["A"][2] + r.uniform(-400, 400), -5.0)
        if d["B"][2] < top:
            d["B"][2] = top + 10.0
    else:
        dz = abs(d["A"][2] - d["B"][2])
        rho, az = r.uniform(0.003 * dz, 0.02 * dz + 1.0), r.uniform(0, 2 * math.pi)
        d["B"] = [d["A"][0] + rho * math.cos(az), d["A"][1] + rho * math.sin(az), d["B"][2]]
    d["flavour"] = "steep"
    return d


def layered_stack_desc(run):
    """uniform stack, index-matched (cut) uniform stack, or a stack with a gradient layer above / below the interface"""
    r = run.rng
    k = r.choice(["uniform", "cut", "u/a", "a/u", "a/a"])
    zc = -r.uniform(60, 300)
    if k == "uniform":
        layers = [{"type": "u", "n": r.uniform(1.3, 1.5), "range": [zc, 0.0]},
                  {"type": "u", "n": r.uniform(1.55, 1.9), "range": [zc - r.uniform(100, 400), zc]}]
    elif k == "cut":
        n = r.uniform(1.3, 1.9)
        layers = [{"type": "u", "n": n, "range": [zc, 0.0]}, {"type": "u", "n": n, "range": [zc - r.uniform(100, 400), zc]}]
    elif k == "u/a":
        layers = [{"type": "u", "n": r.uniform(1.3, 1.5), "range": [zc, 0.0]}, {"type": "a", "range": [-2850.0, zc]}]
    elif k == "a/u":
        layers = [{"type": "a", "range": [zc, 0.0]}, {"type": "u", "n": r.uniform(1.7, 1.8), "range": [-2850.0, zc]}]
    else:
        layers = [{"type": "a", "range": [zc, 0.0]}, {"type": "a", "range": [-2850.0, zc]}]
    return layers, zc


def layered_shallow_case(run, tracer):
    """LAYERED tracer, receiver only slightly deeper / shallower than the source: 0 < |dz| / rho < tan(1 degree)"""
    r = run.rng
    d = {"tracer": "layered", "ice": "layered", "flavour": "shallow-angle"}
    layers, zc = layered_stack_desc(run)
    bottom = max(layers[-1]["range"][0], -600.0)
    zA = r.choice([r.uniform(zc + 3, -3), r.uniform(bottom + 5, zc - 3)])
    rho = 10 ** r.uniform(1.7, 2.8)
    dz = rho * math.tan(math.radians(r.uniform(0.02, 0.95))) * r.choice([-1, 1])
    zB = zA + dz
    for z in (0.0, zc, layers[-1]["range"][0]):
        if (zA - z) * (zB - z) <= 0 or abs(zB - z) < 0.3:       # keep both in one layer, off the boundaries
            zB = zA - dz
    az = r.uniform(0, 2 * math.pi)
    A = [r.uniform(-500, 500), r.uniform(-500, 500), zA]
    ang, T, taz = r.uniform(0, 2 * math.pi), 10 ** r.uniform(1, 5), r.uniform(0, 2 * math.pi)
    d.update(layers=layers, above=r.choice([1, 1.0, 1.1]), below=None, max_reflections=r.choice([0, 1, 2]),
             A=[float(v) for v in A], B=[A[0] + rho * math.cos(az), A[1] + rho * math.sin(az), float(zB)],
             c=math.cos(ang), s=math.sin(ang), tx=T * math.cos(taz), ty=T * math.sin(taz))
    return d


def layered_on_interior_case(run, tracer):
    """LAYERED tracer, source or receiver depth bit-equal to an INTERIOR layer boundary, the other endpoint above or
    below it (distinct from K23: both endpoints on the boundary at equal depth)"""
    r = run.rng
    d = {"tracer": "layered", "ice": "layered", "flavour": "on-interior"}
    layers, zc = layered_stack_desc(run)
    bottom = max(layers[-1]["range"][0], -600.0)
    zo = r.choice([r.uniform(zc + 5, -3), r.uniform(bottom + 5, zc - 5)])
    rho = max(10 ** r.uniform(1.3, 2.7), 0.15 * abs(zo - zc) + 5.0)
    az = r.uniform(0, 2 * math.pi)
    P = [r.uniform(-500, 500), r.uniform(-500, 500), float(zc)]
    Q = [P[0] + rho * math.cos(az), P[1] + rho * math.sin(az), float(zo)]
    A, B = (P, Q) if r.random() < 0.5 else (Q, P)
    ang, T, taz = r.uniform(0, 2 * math.pi), 10 ** r.uniform(1, 5), r.uniform(0, 2 * math.pi)
    d.update(layers=layers, above=1, below=None, max_reflections=r.choice([0, 1, 1]), A=A, B=B,
             c=math.cos(ang), s=math.sin(ang), tx=T * math.cos(taz), ty=T * math.sin(taz))
    return d


def intform_case(run, tracer):
    """integer-valued endpoints handed to the tracer as Python ints / int lists / int64 arrays"""
    for attempt in range(50):
        d = rand_case(run, tracer)
        if tracer == "uniform" and d["max_reflections"] == 0:
            d["max_reflections"] = run.rng.choice([1, 2, 3])
        A, B = [float(round(v)) for v in d["A"]], [float(round(v)) for v in d["B"]]
        edges = []
        if tracer == "uniform":
            edges = list(d["range"])
            if not (edges[0] + 1 < A[2] < edges[1] - 1 and edges[0] + 1 < B[2] < edges[1] - 1):
                continue
        if tracer == "layered":
            edges = [z for l in d["layers"] for z in l["range"]]
        if any(abs(A[2] - z) < 1.2 or abs(B[2] - z) < 1.2 for z in edges):
            continue
        if (A[0], A[1]) == (B[0], B[1]):
            continue
        d.update(A=A, B=B, flavour="intform", form=run.rng.choice(["int-tuple", "int-list", "int64"]))
        return d
    raise RuntimeError("no integer-valued case")


def rand_case(run, tracer, flavour=None):
    if flavour == "shadow":
        return shadow_case(run, tracer)
    if flavour == "vertical":
        return vertical_case(run, tracer)
    if flavour == "intform":
        return intform_case(run, tracer)
    if flavour == "onbound":
        return onbound_case(run, tracer)
    if flavour == "outside":
        return outside_case(run, tracer)
    if flavour == "steep":
        return steep_case(run, tracer)
    if flavour == "shallow-angle":
        return layered_shallow_case(run, tracer)
    if flavour == "on-interior":
        return layered_on_interior_case(run, tracer)
    r = run.rng
    d = {"tracer": tracer}
    if tracer in ("spec", "basic"):
        k = r.choice(["antarctic", "antarctic", "arasim", "greenland", "exp"])
        d["ice"] = k
        if k == "exp":
            n0 = r.uniform(1.5, 2.0)
            d.update(n0=n0, k=r.uniform(0.2, n0 - 1.05), a=10 ** r.uniform(-2.3, -1.5), range=[-3000.0, 0.0],
                     above=r.choice([1, 1.0, r.uniform(1, 1.2)]), below=None)
        if tracer == "basic":
            d["dz"] = r.choice([2, 4, 5, 8])
        zA, zB = -r.uniform(20, 900), -r.uniform(5, 600)
        if r.random() < 0.12:
            zA = r.choice([r.uniform(0.5, 30), -r.uniform(3001, 3100)])     # outside the ice: no solution
        rho = 10 ** r.uniform(0.7, 3.4)
        rho = max(rho, 0.02 * abs(zA - zB) + 1.0)
    elif tracer == "uniform":
        n = r.uniform(1.2, 2.0)
        lo = -r.uniform(100, 3000)
        hi = r.choice([0.0, 0.0, -r.uniform(1, 80)])
        d.update(ice="uniform", n=n, range=[lo, hi],
                 above=r.choice([1, 1.0, None, r.uniform(1.0, 1.4)]),
                 below=r.choice([None, r.uniform(1.0, n - 0.05), r.uniform(n + 0.05, 2.8)]),
                 max_reflections=r.choice([0, 1, 2, 3, 3, 3, 4, 6]))
        span = hi - lo
        zA, zB = lo + span * r.uniform(0.02, 0.98), lo + span * r.uniform(0.02, 0.98)
        if r.random() < 0.1:
            zA = hi + r.uniform(0.1, 20)
        rho = 0.0 if r.random() < 0.08 else 10 ** r.uniform(0, 3.5)
    else:
        if r.random() < 0.5:
            zc = -r.uniform(60, 300)
            layers = [{"type": "u", "n": r.uniform(1.3, 1.5), "range": [zc, 0.0]}, {"type": "a", "range": [-2850.0, zc]}]
        else:
            layers, top = [], 0.0
            for i in range(r.randint(2, 3)):
                bot = top - r.uniform(60, 400)
                layers.append({"type": "u", "n": r.uniform(1.3, 1.9), "range": [bot, top]})
                top = bot
        d.update(ice="layered", layers=layers, above=r.choice([1, 1.0, r.uniform(1, 1.2)]), below=None,
                 max_reflections=r.choice([0, 1, 1]))
        bottom = layers[-1]["range"][0]
        lim = max(bottom, -700.0)
        zA, zB = r.uniform(lim + 5, -5), r.uniform(lim + 5, -5)
        for l in layers:
            for zb in l["range"]:
                if abs(zA - zb) < 1.5:
                    zA = zb - 2.0
                if abs(zB - zb) < 1.5:
                    zB = zb - 2.0
        rho = 10 ** r.uniform(1.3, 2.8)
        rho = max(rho, 0.1 * abs(zA - zB) + 5.0)
    az = r.uniform(0, 2 * math.pi)
    A = [r.uniform(-500, 500), r.uniform(-500, 500), zA]
    B = [A[0] + rho * math.cos(az), A[1] + rho * math.sin(az), zB]
    ang = r.uniform(0, 2 * math.pi)
    T = 10 ** r.uniform(1, 5)
    taz = r.uniform(0, 2 * math.pi)
    d.update(A=[float(v) for v in A], B=[float(v) for v in B], c=math.cos(ang), s=math.sin(ang),
             tx=T * math.cos(taz), ty=T * math.sin(taz))
    return d


# --------------------------------------------------------------------------------------------
def atten_segments(path):
    """straight segments of uniform-ice (sub-)paths: (p1, p2, ice)"""
    if hasattr(path, "paths"):
        out = []
        for sp in path.paths:
            out += atten_segments(sp)
        return out
    if hasattr(path, "_points") and hasattr(path, "_reflections"):
        pts = np.asarray(path._points, float)
        return [(pts[i], pts[i + 1], path.ice) for i in range(len(pts) - 1)]
    return []


def riemann_bound(path):
    """|log att(forward) - log att(backward)| <= sum over straight segments of step x |1/L(z1) - 1/L(z2)|"""
    b = np.zeros(len(FREQS))
    for p1, p2, ice in atten_segments(path):
        if p1[2] == p2[2]:
            continue
        nst = int(abs(p2[2] - p1[2]) / 1) + 2
        dp = float(np.sqrt(np.sum((p2 - p1) ** 2))) / nst
        l1 = np.asarray(ice.attenuation_length(np.array([p1[2]]), FREQS), float).ravel()
        l2 = np.asarray(ice.attenuation_length(np.array([p2[2]]), FREQS), float).ravel()
        b += dp * np.abs(1 / l1 - 1 / l2)
    return b


EPS = 2.2e-16


def cancellation_noise(path, at_threshold=False):
    """metres of rounding noise in the closed forms of SpecializedRayTracePath (finding K9): `log_term_1 =
    n0*n - beta^2 - sqrt(alpha*gamma)` equals beta^2 (n0-n)^2 / (n0*n - beta^2 + sqrt(alpha*gamma)) and is computed
    as a difference of O(1) numbers, so its relative error is ~ eps n0^2 / (beta (n0-n))^2, largest at the deepest
    depth evaluated in closed form, max(z_low, z_uniform); path length and tof carry it times n0/(a beta^0)...
    calibrated on 700 random geometries: observed jitter <= 8.1 x this estimate over six orders of magnitude"""
    if hasattr(path, "paths"):
        return sum(cancellation_noise(sp, at_threshold) for sp in path.paths)
    if not hasattr(path, "uniformity_factor"):
        return 0.0
    ice = path.ice
    beta = abs(float(path.beta))
    ze = max(min(float(path.z0), float(path.z1)), float(path.z_uniform), float(ice.valid_range[0]))
    dn = float(ice.n0) - float(ice.index(ze))
    if at_threshold:
        beta = max(beta, 0.005)     # K3 band: the returned launch angle sits ON beta_tolerance, rounding picks the branch
    if beta < 0.005:
        return 0.0      # beta_tolerance: the near-vertical branch of the closed forms has no logarithm, no cancellation
    if dn <= 0:
        return float("inf")
    return EPS * float(ice.n0) ** 2 / (float(ice.a) * beta ** 2 * dn ** 2)


def record(tr, desc):
    """everything observable of one tracer instance; an exception of the implementation is recorded, not raised"""
    import logging
    logging.disable(logging.CRITICAL)
    try:
        return _record(tr, desc)
    except Exception as e:
        return {"error": raylib.error_text(e), "exists": None, "rho": float("nan"), "n": 0,
                "sols": []}
    finally:
        logging.disable(logging.NOTSET)


def _record(tr, desc):
    with np.errstate(all="ignore"):
        sols = list(tr.solutions)
        rec = {"exists": bool(tr.exists), "rho": float(tr.rho), "n": len(sols), "sols": []}
        if desc["tracer"] in ("spec", "basic"):
            rec["z0"], rec["z1"] = float(tr.z0), float(tr.z1)
            rec["expected"] = [bool(v) for v in tr.expected_solutions]
            cf, ct = bool(tr.ice.contains(tr.from_point)), bool(tr.ice.contains(tr.to_point))
            rec["contains"] = [cf, ct]
            lo_, hi_ = tr.ice.valid_range
            rec["inside"] = [bool(lo_ <= float(tr.from_point[2]) <= hi_), bool(lo_ <= float(tr.to_point[2]) <= hi_)]
            if cf and ct:
                rec["dmax"] = float(tr.direct_r_max)
                rec["imax"] = float(tr.indirect_r_max) if not rec["rho"] < rec["dmax"] else float("nan")
        else:
            rec["phi"] = float(tr.phi)
            if desc["tracer"] == "uniform":
                lo_, hi_ = tr.ice.valid_range
                rec["closed"] = bool(lo_ <= float(tr.from_point[2]) <= hi_ and lo_ <= float(tr.to_point[2]) <= hi_)
        for p in sols:
            s = {"len": float(p.path_length), "tof": float(p.tof), "att": fls(p.attenuation(FREQS)),
                 "emitted": fls(p.emitted_direction), "received": fls(p.received_direction), "phi": float(p.phi),
                 "bound": fls(riemann_bound(p)), "noise": cancellation_noise(p),
                 "k3": desc.get("flavour") == "vertical" and float(tr.rho) > 0}
            s["k3_layered"] = s["k3"] and desc["tracer"] == "layered"
            if s["k3"]:
                s["noise"] = cancellation_noise(p, at_threshold=True)
            # an endpoint exactly on a bound of a UniformIce gives reflected paths a leg of zero length whose direction is 0/0
            s["degenerate"] = desc["tracer"] == "uniform" and str(desc.get("flavour", "")).startswith("onbound")
            if desc["tracer"] in ("spec", "basic"):
                s["theta0"], s["direct"] = float(p.theta0), bool(p.direct)
            if desc["tracer"] == "uniform":
                s["theta0"], s["refl"] = float(p.theta0), int(p._reflections)
                s["segs"] = [(float(a[2]), float(b[2]), float(np.sqrt(np.sum((b - a) ** 2)))) for a, b, _ in atten_segments(p)]
            rec["sols"].append(s)
    return rec


def vec_close(a, b, tol):
    return all(abs(x - y) <= tol for x, y in zip(a, b))


NOISE_USED = [0]
SKIPPED = {"near_threshold": 0}


def same_solution(b, o, want_e, want_r, att_tol):
    """None when `o` is `b` transformed; otherwise what differs.  Base tolerances 1e-8 (relative) on length and tof,
    2e-7 on directions, 1e-6 on the attenuation exponent; SpecializedRayTracePath values additionally get 25x / 10x /
    0.01x their estimated cancellation noise (K9)."""
    E = max(b["noise"], o["noise"])
    L = max(b["len"], 1e-3)
    if b.get("k3") or o.get("k3"):
        # near-vertical band (K3 of C01, rho > 0): path length / tof are the vertical ones (relative error <= (rho/dz)^2/2
        # < 5e-6), directions are off by up to beta_tolerance / n; count, exists, and these coarse values must still agree
        if not fw.close(b["len"], o["len"], 1e-5, 1e-8 + 25 * E) or not fw.close(b["tof"], o["tof"], 1e-5, 25 * E / L * b["tof"]):
            return "near-vertical path length / tof %r/%r vs %r/%r" % (b["len"], b["tof"], o["len"], o["tof"])
        if b.get("k3_layered") or o.get("k3_layered"):
            # the exponential legs of a layered path are exactly vertical in this band and a uniform leg takes all of rho:
            # its direction is off by up to rho / (its length); only the vertical sense is compared
            if (o["emitted"][2] > 0) != (want_e[2] > 0) or (o["received"][2] > 0) != (want_r[2] > 0):
                return "near-vertical vertical sense %s %s, expected %s %s" % (o["emitted"], o["received"], want_e, want_r)
            return None
        if not vec_close(o["emitted"], want_e, 0.01) or not vec_close(o["received"], want_r, 0.01):
            return "near-vertical directions %s %s, expected %s %s" % (o["emitted"], o["received"], want_e, want_r)
        return None
    if not fw.close(b["len"], o["len"], 1e-8, 1e-8 + 25 * E):
        return "path length %r vs %r (allowed closed-form noise %.3g m)" % (b["len"], o["len"], 25 * E)
    if not fw.close(b["tof"], o["tof"], 1e-8, 25 * E / L * b["tof"]):
        return "tof %r vs %r" % (b["tof"], o["tof"])
    if not fw.close(b["len"], o["len"], 1e-8, 1e-8) or not fw.close(b["tof"], o["tof"], 1e-8, 0):
        NOISE_USED[0] += 1
    dtol = 2e-7 + 30 * E / L
    att_tol = [t + 0.01 * E for t in att_tol]
    for x, y, t in zip(b["att"], o["att"], att_tol):
        if x <= 1e-300 or y <= 1e-300:
            if not (x <= 1e-200 and y <= 1e-200):
                return "attenuation %r vs %r" % (b["att"], o["att"])
        elif abs(math.log(x) - math.log(y)) > t:
            return "attenuation %r vs %r (tolerance %r on the exponent)" % (b["att"], o["att"], list(att_tol))
    if b.get("degenerate") or o.get("degenerate"):
        return None
    if not vec_close(o["emitted"], want_e, dtol):
        return "emitted direction %s, expected %s" % (o["emitted"], want_e)
    if not vec_close(o["received"], want_r, dtol):
        return "received direction %s, expected %s" % (o["received"], want_r)
    return None


def match_sets(base, other, expect, att_tol_of):
    """pair the solutions as multisets (closest time of flight first); `expect(b)` -> (emitted, received) predicted
    for the partner.  Returns None or a description of the first unmatched solution."""
    if len(base) != len(other):
        return "number of solutions %d vs %d (tofs %s vs %s)" % (len(base), len(other), [b["tof"] for b in base],
                                                                [o["tof"] for o in other])
    free = list(range(len(other)))
    for b in base:
        we, wr = expect(b)
        order = sorted(free, key=lambda j: abs(other[j]["tof"] - b["tof"]))
        why = None
        for j in order:
            w = same_solution(b, other[j], we, wr, att_tol_of(b, other[j]))
            if w is None:
                free.remove(j)
                break
            why = why or w
        else:
            return "solution with tof %r has no partner: %s" % (b["tof"], why)
    return None


def near_threshold(rec):
    if "dmax" not in rec:
        return False
    r = rec["rho"]
    for k in ("dmax", "imax"):
        v = rec.get(k)
        if v is not None and not math.isnan(v) and abs(r - v) <= 1e-6 * max(1.0, abs(v)):
            return True
    return False


def rot_np(c, s, v):
    return [c * v[0] - s * v[1], s * v[0] + c * v[1], v[2]]


def neg(v):
    return [-x for x in v]


def relation_failures(desc, base, moved, swapped, rot):
    """the metamorphic relations between three runs of the implementation; `rot(vector)` is the predicted image of a
    direction under the motion.  Returns a list of (kind, what)."""
    out = []
    for name, rec in (("base", base), ("moved", moved), ("swapped", swapped)):
        if "inside" in rec and rec["inside"] != rec["contains"]:
            out.append(("contains", "%s geometry: ice.contains = %s for endpoints whose depths are %s the valid range "
                        "(bounds included)" % (name, rec["contains"], ["inside" if v else "outside" for v in rec["inside"]])))
        if "closed" in rec and (rec["exists"] != rec["closed"] or (rec["n"] > 0) != rec["closed"]):
            out.append(("exists", "%s geometry: exists=%s with %d solutions, but both endpoints inside the closed valid "
                        "range: %s" % (name, rec["exists"], rec["n"], rec["closed"])))
    if out:
        return out
    errs = [rec.get("error") for rec in (base, moved, swapped)]
    if desc["tracer"] in ("basic", "spec", "layered") and all(raylib.is_k17(e) for e in errs):
        # finding K17: brentq of the installed scipy rejects the NaN that _direct_r(max_angle) produces when
        # sin(max_angle)*n0/n(z1) rounds above 1; raised identically for all three geometries
        return [("known:K17", errs[0])]
    for name, rec in (("base", base), ("moved", moved), ("swapped", swapped)):
        if "error" in rec:
            out.append(("crash", "%s geometry: the tracer raises %s" % (name, rec["error"])))
    if out:
        return out
    if near_threshold(base) or near_threshold(moved) or near_threshold(swapped):
        SKIPPED["near_threshold"] += 1      # rho within 1e-6 of direct_r_max / indirect_r_max: the count may flip with rounding
        return out
    grad = desc["tracer"] in ("spec", "basic")
    for name, rec in (("base", base), ("moved", moved), ("swapped", swapped)):
        if rec["exists"] != (rec["n"] > 0):
            out.append(("exists", "%s geometry: exists=%s but %d solutions" % (name, rec["exists"], rec["n"])))
        if grad and rec["n"] not in (0, 2):
            out.append(("zero-or-two", "%s geometry: a gradient-index tracer reports %d solutions" % (name, rec["n"])))
    loose = desc["tracer"] in ("uniform", "layered")
    w = match_sets(base["sols"], moved["sols"], lambda b: (rot(b["emitted"]), rot(b["received"])),
                   lambda b, o: [1e-6] * len(FREQS))
    if w:
        out.append(("rigid-motion", "rotation+translation changes the solution set: " + w))
    w = match_sets(base["sols"], swapped["sols"], lambda b: (neg(b["received"]), neg(b["emitted"])),
                   lambda b, o: [(1e-6 + 1.001 * max(x, y) + 1e-9) if loose else 1e-6 for x, y in zip(b["bound"], o["bound"])])
    if w:
        out.append(("reciprocity", "swapping source and receiver changes the solution set: " + w))
    return out


# --------------------------------------------------------------------------------------------
def ice_toks(ice):
    return "%s %s %s" % (fw.fl([ice.n0, ice.k, ice.a, ice.valid_range[0], ice.valid_range[1]]),
                         opt(ice._index_above), opt(ice._index_below))


def uice_toks(ice):
    return "%s %s %s" % (fw.fl([ice.n, ice.valid_range[0], ice.valid_range[1]]), opt(ice._index_above),
                         opt(ice._index_below))


def budget(run):
    # (tracer, flavour, number of base cases)
    return [("spec", None, run.scale(120, 1500)), ("basic", None, run.scale(25, 250)), ("uniform", None, run.scale(100, 1500)),
            ("layered", None, run.scale(10, 100)),
            ("spec", "shadow", run.scale(10, 100)), ("basic", "shadow", run.scale(3, 30)),
            ("layered", "shadow", run.scale(8, 80)),
            ("spec", "vertical", run.scale(12, 120)), ("basic", "vertical", run.scale(5, 50)),
            ("layered", "vertical", run.scale(3, 30)),
            ("uniform", "intform", run.scale(12, 120)), ("layered", "intform", run.scale(4, 40)),
            ("spec", "intform", run.scale(4, 40)),
            ("spec", "onbound", run.scale(8, 80)), ("basic", "onbound", run.scale(3, 30)),
            ("layered", "onbound", run.scale(3, 30)), ("uniform", "onbound", run.scale(12, 120)), ("layered", "outside", run.scale(3, 30)),
            ("spec", "outside", run.scale(3, 30)),
            ("spec", "steep", run.scale(16, 160)), ("basic", "steep", run.scale(5, 50)),
            ("layered", "shallow-angle", run.scale(10, 100)), ("layered", "on-interior", run.scale(10, 100))]


def correspondence(run):
    cases = []
    for tracer, flavour, n in budget(run):
        for i in range(n):
            cases.append(rand_case(run, tracer, flavour))
    # round 1: the model moves the endpoints
    reqs = []
    for d in cases:
        for P in (d["A"], d["B"]):
            reqs.append("rigid %s" % fw.fl([d["c"], d["s"], d["tx"], d["ty"]] + P))
    rep = fw.run_driver("C02", reqs)
    for i, d in enumerate(cases):
        d["A2"], d["B2"] = fw.unfl(rep[2 * i].split()), fw.unfl(rep[2 * i + 1].split())
    # the implementation on the three geometries
    recs = []
    for d in cases:
        ice = make_ice(d)
        recs.append(tuple(record(make_tracer(d, P, Q, ice), d) for P, Q in
                          ((d["A"], d["B"]), (d["A2"], d["B2"]), (d["B"], d["A"]))))
        run.count("tracer_" + d["tracer"] + ("_" + d["flavour"] if d.get("flavour") else ""))
        run.count("%s_solutions_%d" % (d["tracer"], recs[-1][0]["n"]))
    # round 2: model predictions
    reqs, plan = [], []
    for d, (base, moved, swapped) in zip(cases, recs):
        ice = make_ice(d)
        p = {"geom": [], "expected": [], "dirs": [], "recip": [], "rot": [], "usols": [], "attseg": []}
        for (P, Q) in ((d["A"], d["B"]), (d["A2"], d["B2"]), (d["B"], d["A"])):
            p["geom"].append(len(reqs))
            reqs.append("geom %s" % fw.fl(P + Q))
        if d["tracer"] in ("spec", "basic"):
            for rec in (base, moved, swapped):
                if "error" in rec:
                    continue
                if "dmax" in rec and not near_threshold(rec):
                    p["expected"].append((len(reqs), rec))
                    imax = rec["imax"] if not math.isnan(rec["imax"]) else 0.0
                    reqs.append("expected 1 1 %s" % fw.fl([rec["rho"], rec["dmax"], imax]))
                elif "dmax" not in rec:
                    p["expected"].append((len(reqs), rec))
                    reqs.append("expected %d %d %s" % (rec["contains"][0], rec["contains"][1], fw.fl([rec["rho"], 0.0, 0.0])))
            it = ice_toks(ice)
            for s in base["sols"]:
                p["dirs"].append((len(reqs), s))
                reqs.append("dirs %s %s %s %d" % (it, fw.fl(d["A"] + d["B"]), fw.fl([s["theta0"]]), int(s["direct"])))
                p["recip"].append((len(reqs), s))
                reqs.append("recip %s %s %d" % (it, fw.fl([d["A"][2], d["B"][2], s["theta0"]]), int(s["direct"])))
        if d["tracer"] == "uniform":
            p["attseg"] = []
            for s in base["sols"]:
                for (z1, z2, ln) in s["segs"]:
                    if z1 != z2:
                        p["attseg"].append((len(reqs), s, z1, z2, ln))
                        reqs.append("attseg %s" % fw.fl([z1, z2, ln, 1.0]))
            it = uice_toks(ice)
            for (P, Q), rec in zip(((d["A"], d["B"]), (d["A2"], d["B2"]), (d["B"], d["A"])), (base, moved, swapped)):
                p["usols"].append((len(reqs), rec))
                reqs.append("usols %s %d %s" % (it, d["max_reflections"], fw.fl(P + Q)))
        for s in base["sols"]:
            for key in ("emitted", "received"):
                p["rot"].append((len(reqs), s, key))
                reqs.append("rot %s" % fw.fl([d["c"], d["s"]] + s[key]))
        plan.append(p)
    rep = fw.run_driver("C02", reqs)
    ok = True
    for d, (base, moved, swapped), p in zip(cases, recs, plan):
        bad = []
        if any("error" in r_ for r_ in (base, moved, swapped)):
            rf = relation_failures(d, base, moved, swapped, None)
            if rf and rf[0][0].startswith("known:"):
                run.known_finding(rf[0][0][6:])
                run.count("known_" + rf[0][0][6:])
                continue
            ok = False
            run.note_broken("correspondence: %s: the implementation raises: %s" % (
                {k: d[k] for k in d if k not in ("A2", "B2")}, [r_.get("error") for r_ in (base, moved, swapped)]))
            continue
        desc = tuple(sorted((k, str(v)) for k, v in d.items()))
        run.case(desc, nontrivial=base["n"] > 0,
                 sample={"tracer": d["tracer"], "ice": d["ice"], "A": d["A"], "B": d["B"], "moved_A": d["A2"],
                         "solutions": base["n"]})
        # geometry
        for idx, rec, (P, Q) in zip(p["geom"], (base, moved, swapped), ((d["A"], d["B"]), (d["A2"], d["B2"]), (d["B"], d["A"]))):
            g = fw.unfl(rep[idx].split())
            if not fw.close(g[0], rec["rho"], 1e-12, 0):
                bad.append("rho model=%r impl=%r" % (g[0], rec["rho"]))
            phis = [s["phi"] for s in rec["sols"]] + ([rec["phi"]] if "phi" in rec else [])
            if any(abs(ph - g[1]) > 1e-15 for ph in phis):
                bad.append("phi model=%r impl=%s" % (g[1], phis))
            if "z0" in rec and (rec["z0"], rec["z1"]) != (g[2], g[3]):
                bad.append("z0/z1 model=%s impl=%s" % (g[2:], (rec["z0"], rec["z1"])))
        # rho is invariant under the motion and the swap (1e5 m offsets: absolute rounding of the coordinates)
        if abs(moved["rho"] - base["rho"]) > 1e-9 or swapped["rho"] != base["rho"]:
            bad.append("rho base/moved/swapped = %r/%r/%r" % (base["rho"], moved["rho"], swapped["rho"]))
        for idx, rec in p["expected"]:
            t = rep[idx].split()
            e = [x == "1" for x in t[:3]]
            if e != rec["expected"] or (t[3] == "1") != rec["exists"] or int(t[4]) != rec["n"]:
                bad.append("expected_solutions model=%s impl=%s exists=%s n=%d (rho=%r dmax=%r imax=%r)"
                           % (t, rec["expected"], rec["exists"], rec["n"], rec["rho"], rec.get("dmax"), rec.get("imax")))
        for idx, s in p["dirs"]:
            g = fw.unfl(rep[idx].split())
            if not fw.all_close(g, s["emitted"] + s["received"], 1e-12, 1e-14):
                bad.append("directions model=%s impl=%s" % (g, s["emitted"] + s["received"]))
        if p["recip"] and not near_threshold(base) and not near_threshold(swapped):
            pred = sorted(fw.unfl(rep[idx].split())[0] for idx, s in p["recip"])
            got = sorted(s["theta0"] for s in swapped["sols"])
            En = max([s_["noise"] / max(s_["len"], 1e-3) for s_ in base["sols"] + swapped["sols"]] + [0.0])
            if len(pred) != len(got) or not all(abs(a - b) <= 1e-8 + 10 * En for a, b in zip(pred, got)):
                bad.append("launch angles of the reversed paths model=%s impl=%s" % (pred, got))
        for idx, rec in p["usols"]:
            if rep[idx] in ("bad-op", "err"):
                if rec["n"]:
                    bad.append("uniform solutions model=%s impl=%d" % (rep[idx], rec["n"]))
                continue
            g = fw.unfl(rep[idx].split())
            want = []
            for s in rec["sols"]:
                want.append([float(s["refl"]), s["theta0"], s["len"], s["tof"]] + s["emitted"] + s["received"])
            gg = [g[j:j + 11] for j in range(0, len(g), 11)]
            gg = [x[:1] + x[2:] for x in gg]
            if str(d.get("flavour", "")).startswith("onbound"):
                gg, want = [x[:4] for x in gg], [x[:4] for x in want]
            if len(gg) != len(want) or not all(fw.all_close(a, b, 1e-9, 1e-11) for a, b in zip(gg, want)):
                bad.append("uniform solutions model=%s impl=%s" % (gg[:3], want[:3]))
        # the model's nodes and step of the left Riemann sum reproduce the implementation's attenuation
        expo = {}
        uice = make_ice(d) if p["attseg"] else None
        for idx, s, z1, z2, ln in p["attseg"]:
            t = rep[idx].split()
            vals = fw.unfl(t[1:])
            if int(t[0]) != len(vals) - 1:
                bad.append("attseg reply %s" % rep[idx][:80])
                continue
            alen = np.asarray(uice.attenuation_length(np.array(vals[1:]), FREQS), float)
            expo.setdefault(id(s), [s, np.zeros(len(FREQS))])[1] += vals[0] * np.sum(1.0 / alen, axis=0)
        for s, e in expo.values():
            if all(z1 != z2 for z1, z2, _ in s["segs"]):
                run.count("uniform_atten_exponent_vs_model")
                for x, y in zip(e, s["att"]):
                    if y > 1e-250 and abs(x + math.log(y)) > 1e-9 * max(1.0, x):
                        bad.append("attenuation exponent model=%s impl=%s" % (list(e), [-math.log(v) if v > 0 else None for v in s["att"]]))
                        break
        rots = {}
        for idx, s, key in p["rot"]:
            rots[tuple(s[key])] = fw.unfl(rep[idx].split())
        for kind, what in relation_failures(d, base, moved, swapped, lambda v: rots[tuple(v)]):
            bad.append("%s: %s" % (kind, what))
        if bad:
            ok = False
            run.note_broken("correspondence: %s: %s" % ({k: d[k] for k in d if k not in ("A2", "B2")}, "; ".join(bad)[:900]))
        else:
            run.traces += 1
    return ok


# --------------------------------------------------------------------------------------------
def oracle(run, d):
    """the metamorphic relations on the implementation alone (numpy does the rigid motion)"""
    c, s = d["c"], d["s"]
    mv = lambda P: [c * P[0] - s * P[1] + d["tx"], s * P[0] + c * P[1] + d["ty"], P[2]]
    ice = make_ice(d)
    A2, B2 = mv(d["A"]), mv(d["B"])
    trs = [make_tracer(d, d["A"], d["B"], ice), make_tracer(d, A2, B2, ice), make_tracer(d, d["B"], d["A"], ice)]
    if run.rng.random() < 0.5:
        # several live handles: all three tracers solve before any path quantity is read
        run.count("oracle_interleaved")
        for t in trs:
            try:
                with np.errstate(all="ignore"):
                    t.solutions
            except Exception:
                pass
    base, moved, swapped = (record(t, d) for t in trs)
    run.case(("oracle",) + tuple(sorted((k, str(v)) for k, v in d.items())), nontrivial=base["n"] > 0)
    fails = relation_failures(d, base, moved, swapped, lambda v: rot_np(c, s, v))
    for kind, what in [f for f in fails if f[0].startswith("known:")]:
        run.known_finding(kind[6:])
    fails = [f for f in fails if not f[0].startswith("known:")]
    for kind, what in fails[:1]:
        run.fail_input(kind, d, observed={"base": summary(base), "moved": summary(moved), "swapped": summary(swapped)},
                       what=what[:600])
    return not fails



# --------------------------------------------------------------------------------------------
# audit classes: caller-owned buffers, evaluation order / state across objects, call forms, exact bounds
def close_records(a, b, tol=1e-12):
    if "error" in a or "error" in b:
        return a.get("error") == b.get("error")
    if a["n"] != b["n"] or a["exists"] != b["exists"]:
        return False
    for x, y in zip(a["sols"], b["sols"]):
        for k in ("len", "tof"):
            if not fw.close(x[k], y[k], tol, 0):
                return False
        for k in ("att", "emitted", "received"):
            if not all(abs(u - v) <= tol * max(1.0, abs(v)) + 1e-300 for u, v in zip(x[k], y[k])):
                return False
    return True


def oracle_buffers(run, d):
    """the tracer owns its endpoints: changing the caller's arrays after construction changes nothing, and the tracer
    never writes into them"""
    ice = make_ice(d)
    ref = record(make_tracer(d, d["A"], d["B"], ice), d)
    A, B = np.array(d["A"], dtype=float), np.array(d["B"], dtype=float)
    d2 = {k: v for k, v in d.items() if k != "form"}
    rt, im, LayeredIce, LayeredRayTracer = _mods()
    cls = {"spec": rt.SpecializedRayTracer, "basic": rt.BasicRayTracer, "uniform": rt.UniformRayTracer,
           "layered": LayeredRayTracer}[d["tracer"]]
    tr = cls(A, B, ice, dz=d["dz"]) if d["tracer"] == "basic" else cls(A, B, ice)
    if "max_reflections" in d:
        tr.max_reflections = d["max_reflections"]
    A += np.array([1000.0, -500.0, 0.0])            # the caller re-uses its buffer before anything was evaluated
    got = record(tr, d2)
    run.case(("oracle-buffers",) + tuple(sorted((k, str(v)) for k, v in d.items())), nontrivial=ref["n"] > 0)
    for rec in (ref, got):
        if "error" in rec:
            return raylib.tracer_exception(run, rec["error"], "crash", d, "caller-owned buffers")
    if not close_records(ref, got):
        run.fail_input("aliasing", d, observed=summary(got), expected=summary(ref),
                       what="the tracer shares the caller's endpoint array: modifying it after construction changes the result")
        return False
    if np.any(B != np.array(d["B"], dtype=float)) or np.any(A != np.array(d["A"], dtype=float) + np.array([1000.0, -500.0, 0.0])):
        run.fail_input("input-modified", d, observed=[A.tolist(), B.tolist()], what="the tracer modified the caller's endpoint arrays")
        return False
    return True


def oracle_call_forms(run, d):
    """attenuation(f): scalar, 0-d array, one-element array, list and negative frequencies agree with the array call"""
    ice = make_ice(d)
    tr = make_tracer(d, d["A"], d["B"], ice)
    run.case(("oracle-call-forms",) + tuple(sorted((k, str(v)) for k, v in d.items())), nontrivial=True)
    import logging
    logging.disable(logging.CRITICAL)
    try:
        with np.errstate(all="ignore"):
            sols = list(tr.solutions)
            [(p.path_length, p.tof) for p in sols]
    except Exception as e:
        return raylib.tracer_exception(run, e, "crash", d, "attenuation call forms (while solving)")
    finally:
        logging.disable(logging.NOTSET)
    try:
        with np.errstate(all="ignore"):
            for p in sols:
                ref = np.asarray(p.attenuation(FREQS), float)
                forms = {"float": [p.attenuation(float(f)) for f in FREQS],
                         "np.float64": [p.attenuation(np.float64(f)) for f in FREQS],
                         "0-d array": [p.attenuation(np.array(f)) for f in FREQS],
                         "one-element array": [p.attenuation(np.array([f])) for f in FREQS],
                         "list": list(p.attenuation([float(f) for f in FREQS])),
                         "negative frequencies": list(p.attenuation(-FREQS))}
                for name, vals in forms.items():
                    if name == "one-element array" and any(np.shape(v) != (1,) for v in vals):
                        run.fail_input("call-forms", d, observed=[np.shape(v) for v in vals], expected=(1,),
                                       what="attenuation of a one-element array does not return a one-element array")
                        return False
                    flat = [float(np.ravel(v)[0]) if name != "list" and name != "negative frequencies" else float(v) for v in vals]
                    if not all(abs(x - y) <= 1e-12 * max(abs(y), 1e-300) for x, y in zip(flat, ref)):
                        run.fail_input("call-forms", d, observed=flat, expected=ref.tolist(),
                                       what="attenuation(%s) differs from the array call" % name)
                        return False
    except Exception as e:
        run.fail_input("call-forms", d, observed="%s: %s" % (type(e).__name__, str(e)[:200]),
                       what="attenuation raises for a scalar / 0-d / one-element / list frequency argument")
        return False
    return True


def oracle_boundary_limit(run, d):
    """an endpoint exactly on the surface / bottom of the ice behaves as the limit of an endpoint just inside"""
    ice = make_ice(d)
    lo, hi = (min(l["range"][0] for l in d["layers"]), 0.0) if d["tracer"] == "layered" else ice.valid_range
    A, B = list(d["A"]), list(d["B"])
    nudged = False
    for P in (A, B):
        if P[2] == hi:
            P[2], nudged = hi - 1e-7, True
        elif P[2] == lo:
            P[2], nudged = lo + 1e-7, True
    if not nudged:
        return True
    on = record(make_tracer(d, d["A"], d["B"], ice), d)
    inside = record(make_tracer(d, A, B, ice), d)
    run.case(("oracle-boundary-limit",) + tuple(sorted((k, str(v)) for k, v in d.items())), nontrivial=True)
    if d["tracer"] == "layered":
        return True        # the layered tracer drops / merges legs of zero length at a boundary: count is not continuous
    if near_threshold(on) or near_threshold(inside):
        return True
    for rec in (on, inside):
        if "error" in rec:
            return raylib.tracer_exception(run, rec["error"], "crash", d, "endpoint on / just inside a bound of the ice")
    ok = "error" not in on and "error" not in inside and on["n"] == inside["n"] and on["exists"] == inside["exists"] and \
        all(abs(x["len"] - y["len"]) <= 1e-4 * max(1.0, y["len"]) + 25 * max(x["noise"], y["noise"])
            for x, y in zip(on["sols"], inside["sols"]))
    if not ok:
        run.fail_input("boundary-endpoint", d, observed=summary(on), expected=summary(inside),
                       what="an endpoint exactly on the bound of the ice gives a different solution set than 0.1 micrometre inside")
    return ok


ORDER_CHILD = """
import sys, json, warnings
warnings.filterwarnings('ignore')
sys.path.insert(0, %r); sys.path.insert(0, %r)
import props.C02 as m
cases = json.load(open(sys.argv[1]))
out = {}
for i in reversed(range(len(cases))):
    d = cases[i]
    out[i] = m.summary(m.record(m.make_tracer(d, d['A'], d['B']), d))
print('@@' + json.dumps(out))
"""


def oracle_order(run, cases=None):
    """state kept across objects: the same endpoint pairs with different ice models / settings evaluated in one process
    in this order, and by a fresh interpreter in the reverse order, give the same solutions"""
    import json
    import subprocess
    import sys
    import tempfile
    if cases is None:
        r = run.rng
        cases = []
        for g in range(3):
            base = rand_case(run, "spec")
            if g:       # separation between the direct-ray horizons of the ice models: the classification depends on the ice
                rt, im, LayeredIce, LayeredRayTracer = _mods()
                zA, zB = -r.uniform(30, 400), -r.uniform(30, 400)
                with np.errstate(all="ignore"):
                    hor = [float(rt.SpecializedRayTracer((0, 0, zA), (1, 0, zB), I).direct_r_max)
                           for I in (im.AntarcticIce(), im.GreenlandIce(), im.ArasimIce())]
                if hor[0] == hor[1]:      # AntarcticIce vs GreenlandIce (ArasimIce shares the Antarctic index profile)
                    run.fail_input("order-dependence", {"cases": [dict(tracer="spec", ice=i, A=[0.0, 0.0, zA], B=[1.0, 0.0, zB])
                                                                  for i in ("antarctic", "greenland", "arasim")]},
                                   observed=hor, what="direct_r_max of one endpoint pair is identical for different ice models "
                                                      "evaluated one after the other (state shared between tracer objects)")
                    return False
                rho = 0.5 * (min(hor) + max(hor))
                base = dict(base, A=[5.0, -7.0, zA], B=[5.0 + 0.6 * rho, -7.0 + 0.8 * rho, zB])
            for ice in ("antarctic", "greenland", "arasim"):
                cases.append(dict({k: base[k] for k in ("A", "B")}, tracer="spec", ice=ice))
            cases.append(dict({k: base[k] for k in ("A", "B")}, tracer="basic", ice="greenland", dz=5))
            cases.append(dict({k: base[k] for k in ("A", "B")}, tracer="basic", ice="antarctic", dz=5))
        u = rand_case(run, "uniform")
        for n, mr in ((1.4, 1), (1.7, 3), (1.4, 2)):
            cases.append(dict({k: u[k] for k in ("A", "B", "range")}, tracer="uniform", ice="uniform", n=n, above=1,
                              below=1.2, max_reflections=mr))
        l = rand_case(run, "layered")
        for mr in (0, 1):
            cases.append(dict({k: l[k] for k in ("A", "B", "layers", "above", "below")}, tracer="layered", ice="layered",
                              max_reflections=mr))
    here = [summary(record(make_tracer(d, d["A"], d["B"]), d)) for d in cases]
    with tempfile.NamedTemporaryFile("w", suffix=".json", delete=False) as f:
        json.dump(cases, f)
    try:
        harness = __import__("os").path.dirname(__import__("os").path.dirname(__import__("os").path.abspath(__file__)))
        p = subprocess.run([sys.executable, "-W", "ignore", "-c", ORDER_CHILD % (harness, fw.REPO), f.name],
                           capture_output=True, text=True, timeout=600)
    finally:
        __import__("os").unlink(f.name)
    line = [x for x in p.stdout.split("\n") if x.startswith("@@")]
    run.case(("oracle-order", str(cases)[:200]), nontrivial=True)
    if not line:
        run.fail_input("order-dependence", {"cases": cases}, observed=(p.stderr or p.stdout)[-400:],
                       what="the fresh interpreter could not evaluate the cases")
        return False
    there = json.loads(line[0][2:])
    for i, d in enumerate(cases):
        a, b = here[i], there[str(i)]
        if isinstance(a, str) or isinstance(b, str):
            if a != b or not raylib.tracer_exception(run, a if isinstance(a, str) else b, "crash", d,
                                                     "evaluation-order oracle"):
                if a != b:
                    run.fail_input("order-dependence", {"cases": cases, "index": i}, observed=a, expected=b,
                                   what="a tracer raises in one evaluation order only (case %d)" % i)
                return False
            continue
        same = a == b if isinstance(a, str) or isinstance(b, str) else (
            a["n"] == b["n"] and all(fw.close(x["len"], y["len"], 1e-12, 0) and fw.close(x["tof"], y["tof"], 1e-12, 0)
                                     for x, y in zip(a["sols"], b["sols"])))
        if not same:
            run.fail_input("order-dependence", {"cases": cases, "index": i}, observed=a, expected=b,
                           what="a result depends on which tracers were used before in the same process (case %d: %s/%s)"
                                % (i, d["tracer"], d["ice"]))
            return False
    return True


def oracle_contains(run, deep):
    """`ice.contains` on both exact bounds of the valid range and one ulp either side, against the closed interval, for
    every shipped ice class"""
    rt, im, LayeredIce, LayeredRayTracer = _mods()
    r = run.rng
    ices = [("AntarcticIce", {}, im.AntarcticIce()), ("ArasimIce", {}, im.ArasimIce()), ("GreenlandIce", {}, im.GreenlandIce())]
    for i in range(3 if not deep else 30):
        kw = {"index": r.uniform(1.2, 2.0), "valid_range": [-r.uniform(50, 3000), r.choice([0.0, -r.uniform(1, 80)])],
              "index_above": r.choice([1, None, 1.2]), "index_below": r.choice([None, 1.5])}
        ices.append(("UniformIce", kw, im.UniformIce(**kw)))
        kw = {"valid_range": [-r.uniform(50, 3000), r.choice([0.0, -r.uniform(1, 80)])]}
        ices.append(("AntarcticIce", kw, im.AntarcticIce(**kw)))
    lay = {"layers": [{"type": "u", "n": 1.4, "range": [-150.5, 0.0]}, {"type": "a", "range": [-2850.0, -150.5]}],
           "above": 1, "below": None, "ice": "layered"}
    ices.append(("LayeredIce", lay, make_ice(lay)))
    for name, kw, ice in ices:
        if name == "LayeredIce":
            lo, hi = -2850.0, 0.0
        else:
            lo, hi = (float(v) for v in ice.valid_range)
        for z in (lo, hi, np.nextafter(lo, -np.inf), np.nextafter(lo, np.inf), np.nextafter(hi, -np.inf),
                  np.nextafter(hi, np.inf), 0.5 * (lo + hi), lo - 1.0, hi + 1.0):
            for P in ([3.0, -4.0, float(z)], (3, -4, float(z)), np.array([3.0, -4.0, float(z)])):
                got = bool(ice.contains(P))
                run.case(("oracle-contains", name, str(kw), float(z), type(P).__name__), nontrivial=True)
                if got != (lo <= float(z) <= hi):
                    run.fail_input("contains-bounds", {"class": name, "kwargs": kw, "z": float(z), "lo": lo, "hi": hi},
                                   observed=got, expected=bool(lo <= float(z) <= hi),
                                   what="%s.contains at depth %r disagrees with the closed interval [%r, %r]" % (name, float(z), lo, hi))
                    return False
    return True


def oracle_returned(run, d):
    """arrays handed out by the paths of every tracer belong to the caller (raylib.returned_arrays_oracle)"""
    ice = make_ice(d)
    run.case(("oracle-returned",) + tuple(sorted((k, str(v)) for k, v in d.items())), nontrivial=True)
    return raylib.returned_arrays_oracle(run, lambda: make_tracer(d, d["A"], d["B"], ice), d, FREQS,
                                         which=[run.rng.randint(0, 1)] if d["tracer"] == "layered" else None)


def summary(rec):
    if "error" in rec:
        return rec["error"]
    return {"n": rec["n"], "exists": rec["exists"], "rho": rec["rho"],
            "sols": [{"len": s["len"], "tof": s["tof"], "emitted": s["emitted"], "received": s["received"]} for s in rec["sols"]]}


def search(run, deep):
    oracle_contains(run, deep)
    for tracer, flavour, n in budget(run):
        m = max(2, n // 2) if not deep else (n if run.thorough() else n * 8)
        for i in range(m):
            d = rand_case(run, tracer, flavour)
            oracle(run, d)
            if flavour and flavour.startswith("onbound"):
                oracle_boundary_limit(run, d)
    k = 1 if not deep else 6
    for tracer, m in (("spec", 6 * k), ("basic", 2 * k), ("uniform", 6 * k), ("layered", 3 * k)):
        for i in range(m):
            oracle_buffers(run, rand_case(run, tracer))
            oracle_call_forms(run, rand_case(run, tracer))
            if i < (m + 1) // 2:
                oracle_returned(run, rand_case(run, tracer))
    for i in range(k):
        oracle_order(run)


def replay(run, data):
    kind, inp = data.get("kind", ""), data["input"]
    if kind in ("aliasing", "input-modified"):
        oracle_buffers(run, inp)
    elif kind == "returned-arrays":
        oracle_returned(run, {k: v for k, v in inp.items() if k not in ("solution", "modified", "affected")})
    elif kind == "call-forms":
        oracle_call_forms(run, inp)
    elif kind == "boundary-endpoint":
        oracle_boundary_limit(run, inp)
    elif kind == "contains-bounds":
        oracle_contains(run, True)
    elif kind == "order-dependence":
        oracle_order(run, inp["cases"])
    else:
        oracle(run, inp)


K9_INPUT = {"A": [321.3168355584073, 490.75187976730615, -837.4410957477894],
            "B": [318.7988756881773, 479.4945170871826, -310.6648470604698]}


F18_INPUT = {"tracer": "layered", "ice": "layered", "above": 1, "below": None, "max_reflections": 1,
             "layers": [{"type": "a", "range": [-396.1845488571528, 0.0]},
                        {"type": "u", "n": 1.7348616652482063, "range": [-2850.0, -396.1845488571528]}],
             "A": [-441.81386532315724, -43.44463071246474, -128.93988855717305],
             "B": [285.72888770052833, -1051.3776871926834, -113.03222256732371]}


def corpus(run):
    """regression inputs of repaired defects: F18 (layered tracer mirrored the launch angle of the leg's start depth at the
    lower boundary of a gradient-index layer: A->B 1362.181 m, B->A 1362.484 m before the repair)"""
    d = dict(F18_INPUT, c=0.6, s=0.8, tx=1234.5, ty=-987.6)
    return oracle(run, d)


K17_INPUT = {"A": [-74.336492033485, 458.6713926068795, -677.1600405482882],
             "B": [-65.94121165697507, 443.19452469971816, -32.93772107742285]}


def known_probes(run):
    """K9: closed-form cancellation noise of SpecializedRayTracer under a 1e-12 .. 1e-6 m change of the separation"""
    rt, im, LayeredIce, LayeredRayTracer = _mods()
    ice = im.ArasimIce()
    A = np.array(K9_INPUT["A"])
    lens = []
    for eps in (0.0, 1e-12, 1e-9, 1e-6):
        B = np.array(K9_INPUT["B"]) + np.array([eps, 0.0, 0.0])
        with np.errstate(all="ignore"):
            sols = rt.SpecializedRayTracer(A, B, ice).solutions
        if sols:
            lens.append(float(sols[0].path_length))
    if lens and max(lens) - min(lens) > 1e-6 * lens[0]:
        run.known_finding("K9")
    run.extra["K9_probe_path_lengths"] = lens
    run.extra["K9_noise_allowance_used_on"] = NOISE_USED[0]
    run.extra["skipped_near_threshold"] = SKIPPED["near_threshold"]
    # K17: BasicRayTracer raises on a NaN bracket value
    try:
        import logging
        logging.disable(logging.CRITICAL)
        with np.errstate(all="ignore"):
            rt.BasicRayTracer(K17_INPUT["A"], K17_INPUT["B"], im.ArasimIce(), dz=2).solutions
    except ValueError as e:
        if "is NaN" in str(e):
            run.known_finding("K17")
    finally:
        logging.disable(logging.NOTSET)
