"""C03 - ray propagation is passive, delays by time of flight, polarisation transverse.

Float twin of lean/twin/Propagate.body (+ Dft.body, Ice.body) against the path classes returned by the real
tracers (BasicRayTracer, SpecializedRayTracer, UniformRayTracer, LayeredRayTracer): attenuation(f), fresnel,
propagate, plus a property-level search on the implementation alone."""
import logging
import math

import numpy as np

import framework as fw

LEVEL = "proof"
USE_TWINS = True
EXTRACTORS = ["ice_consts"]
TECHNIQUE = ("Lean 4 theorems over the real-number reading of a twin model + Float-twin differential run against "
             "paths from the real tracers + energy/Gram/monotonicity search on the implementation")
RULE = ("paths = every solution of Basic/Specialized tracers in Antarctic, Greenland and Arasim ice, of the uniform "
        "tracer (0..2 reflections, total internal reflection included) and of the layered tracer (uniform and "
        "exponential layers) between random end points (incl. exactly vertical pairs); attenuation on a frequency "
        "grid incl. 0, negative, 1 GHz +- ulp; fresnel; propagate on random signals (N<=64, dt 1e-10..1e-8) with "
        "random polarisation and attenuation_interpolation in {None,0.05,0.1,0.5}. (N=11 is skipped with interpolation: the log-span is "
        "then an exact multiple of the step and int() sits on a rounding boundary). A case is non-trivial when the "
        "path exists and the signal is not zero; distinct = distinct (tracer, ice, end points, solution, op, "
        "arguments). Every path object carries a short HISTORY (generic call, same length with another dt, degenerate "
        "polarisation, all-zero signal), the model's attenuation table always coming from a never-used path. "
        "Degenerate inputs: polarisation exactly +-z, x, y, 0, cross(emitted,z), u_s0, 2u_s0, u_p0, u_p1, emitted "
        "direction (amplitudes exactly 0.0); signals all-zero / impulse / zero head / constant; N=2,3. The search "
        "replays 15-step shuffled histories (propagate with varying dt, N, interpolation; attenuation with equal-length "
        "arrays and scalars; attribute reads; a sibling solution of the same tracer) on ONE object and compares every "
        "step with a never-used path and with a numpy recomputation, checks that inputs are not mutated and outputs "
        "do not alias. FunctionSignal inputs (interpolated samples, analytic pulse, sum of two, ZHS/AVZ/ARZ Askaryan "
        "pulses) are propagated on all four path classes, their outputs evaluated lazily after further calls, and "
        "compared with the same samples as a plain Signal on a never-used path and with the recomputation; the "
        "input's component/filter lists must stay untouched. attenuation is called with long frequency arrays (1025..3000 entries, mixed signs) and compared element by "
        "element with single-frequency calls; signals of 513..1500 samples are propagated un-interpolated and "
        "compared bin by bin with a recomputation that evaluates attenuation in short pieces. "
        "-log(attenuation) is compared with an independent quadrature of ds/L_att along the path (uniform, layered, "
        "direct, surface-reflected and turning basic/specialized rays; turning-point singularity removed by "
        "z = z_turn - s^2). Corner geometries come first: equal depths, |dz| < 1 m, vertical, identical end points, "
        "end point on a layer boundary, equal indices, grazing incidence, flat refracted rays. Signals on integer "
        "time grids (int64, int32, range) and interpolation steps 1.5 and 5 are ordinary inputs; steps <= 0 / NaN "
        "must raise. The applied time shift is compared with an independent quadrature of n ds / c (near-vertical specialized rays "
        "through shallow ice are a standing class); emitted / received directions are compared with the first / last "
        "segment of the path and the returned vectors must be perpendicular to that geometric arrival direction. "
        "EmptySignal / Signal / FunctionSignal / GaussianNoise inputs are checked for object identity (input and both "
        "outputs distinct, no shared arrays, input unchanged, exactly one tof, outputs addable, shifting one output "
        "moves nothing else). USED path objects are re-aimed through their mutable attributes (to_point / from_point / theta0; propagate - "
        "re-aim - propagate - back - propagate) and compared with identical never-used paths and with the new received "
        "direction. The form without polarisation (no force_real, negative frequencies looked up) is run for every "
        "interpolation step and compared with the numpy recomputation using the |f|-symmetric factor and with the "
        "s-component of the polarised form")
LEVEL_TEXT = ("theorems C03_* proved over R for every path integral, every pair of indices, every incidence angle, "
              "every signal and polarisation vector; the same model text run on Float agrees with the path classes of "
              "all four tracers on every sampled input")
LEVEL_NOTE = ("floating-point rounding not modelled; the sampled depths of a path and the ice's attenuation lengths at "
              "those depths are inputs of the attenuation model (the attenuation_length functions of AntarcticIce/"
              "UniformIce, GreenlandIce and ArasimIce are the GENERATED twin IceFormulas/IceAtten of the ice_consts "
              "translator, so an edited coefficient re-opens C03_L_*_mono; the `alen` op ties them as well); time of flight, emitted/received directions are inputs of propagate (C01/C18); brentq "
              "launch angles are not modelled. No `_partial` theorem; the hypothesis 'L_att(z,.) does not grow with f' of "
              "the monotonicity theorems is proved for all three shipped ices on their valid ranges "
              "(C03_L_antarctic_mono, C03_L_greenland_mono, C03_L_arasim_const/_mono, C03_atten_lengths_shipped_ices). "
              "Known finding K2: layered transmission coefficients exceed 1 (stated without a bound). "
              "Hypothesis audit: 'does not grow with |f|' is conditional on the ice model - with a user ice whose "
              "attenuation_length grows with f the factor grows too (shown with a subclass); proved for the three shipped "
              "ices on their valid ranges, and the tracers return no solution for end points outside those ranges. "
              "attenuation_interpolation must be positive: 0, negative and NaN steps raise OverflowError/ValueError in "
              "the basic/specialized paths (checked), steps > 1 are ordinary inputs; the model's logGrid is totalised "
              "and is never asked for such a step. Zero-length paths (identical end points), equal indices, grazing and "
              "normal incidence are corner cases of the generators (theorems C03_reflect_equal_indices, "
              "C03_reflect_grazing_unit). Known finding K27: BasicRayTracePath on rays turning below the surface omits "
              "the path within dz/10 of the turning depth; the independent quadrature is a hard check (3e-3) for the "
              "specialized class, for direct and surface-reflected basic paths (4e-3), uniform and layered paths (2e-3). "
              "Integer time grids (repaired defect F22) are an ordinary input form. Counters skipped_* in the evidence "
              "list geometries for which a tracer raised (C02: K17) and pulses that could not be constructed.")
ASSUMPTIONS = ["emitted and received directions are unit vectors sharing the azimuth phi (C01/C18)",
               "np.interp is piecewise linear with constant continuation; np.trapz is the trapezoid sum"]

for _n in ("pyrex", "pyrex.signals", "pyrex.ray_tracing", "pyrex.custom.layered_ice.ray_tracing"):
    logging.getLogger(_n).setLevel(logging.ERROR)

FREQS = [0.0, -1e8, 1e6, 3e7, 1e8, 5e8, float(np.nextafter(1e9, 0)), 1e9, float(np.nextafter(1e9, 2e9)), 3e9]


_MODS = []


def mods():
    if not _MODS:
        import pyrex  # noqa: F401
        import pyrex.ray_tracing as rt
        import pyrex.ice_model as im
        import pyrex.signals as ps
        import pyrex.custom.layered_ice as li
        _MODS.append((rt, im, ps, li))
    return _MODS[0]


# --------------------------------------------------------------------------------------------
# ices, with a recorder around attenuation_length
def wrap_ice(ice):
    if getattr(ice, "_c03_log", None) is not None:
        return ice
    log = []
    orig = ice.attenuation_length

    def rec(z, f):
        out = orig(z, f)
        log.append((np.atleast_1d(np.array(z, dtype=float)).copy(), np.array(out, dtype=float).copy()))
        return out
    ice.attenuation_length = rec
    ice._c03_log = log
    return ice


def make_ice(spec):
    rt, im, ps, li = mods()
    k = spec["kind"]
    if k == "antarctic":
        ice = im.AntarcticIce()
    elif k == "greenland":
        ice = im.GreenlandIce()
    elif k == "arasim":
        ice = im.ArasimIce()
    elif k == "exp":
        ice = im.AntarcticIce(n0=spec["n0"], k=spec["k"], a=spec["a"], valid_range=tuple(spec["range"]),
                              index_above=spec.get("above", 1), index_below=spec.get("below"))
    elif k == "uniform":
        ice = im.UniformIce(spec["n"], valid_range=tuple(spec["range"]), index_above=spec.get("above", 1),
                            index_below=spec.get("below"))
    elif k == "layered":
        layers = [make_ice(s) for s in spec["layers"]]
        return li.LayeredIce(layers, index_above=spec.get("above", 1), index_below=spec.get("below"))
    else:
        raise ValueError(k)
    return wrap_ice(ice)


def ice_toks(ice):
    opt = lambda v: "-" if v is None else str(fw.f2b(v))
    if hasattr(ice, "n0"):
        return "%s %s %s" % (fw.fl([ice.n0, ice.k, ice.a, ice.valid_range[0], ice.valid_range[1]]),
                             opt(ice._index_above), opt(ice._index_below))
    return "%s %s %s" % (fw.fl([ice.n, 0.0, 0.0, ice.valid_range[0], ice.valid_range[1]]),
                         opt(ice._index_above), opt(ice._index_below))


SKIPPED = {}
DEEP_KEY = "K26"      # one id for C01 (the ray misses the receiver) and C03 (attenuation exponent too large)
DEEP_TEXT = ("K26: SpecializedRayTracePath below z_uniform, nearly horizontal: the launch angle does not belong to the "
             "straight line whose length is reported, so -log(attenuation) exceeds path_length / L_att")
K27_TEXT = ("K27: BasicRayTracePath on a ray turning below the surface: z_integral stops z_turn_proximity = dz/10 "
            "below the turning depth, so -log(attenuation) misses the flat part of the ray next to it")


def note_skip(key):
    SKIPPED[key] = SKIPPED.get(key, 0) + 1


def flush_skips(run):
    for k, v in SKIPPED.items():
        run.count("skipped_" + k, v)
    SKIPPED.clear()


def make_paths(case):
    """-> list of path objects of the tracer described by `case`"""
    rt, im, ps, li = mods()
    ice = make_ice(case["ice"])
    a, b = case["from"], case["to"]
    t = case["tracer"]
    if t == "basic":
        tr = rt.BasicRayTracer(a, b, ice_model=ice, dz=case.get("dz", 1))
    elif t == "specialized":
        tr = rt.SpecializedRayTracer(a, b, ice_model=ice, dz=case.get("dz", 1))
    elif t == "uniform":
        tr = rt.UniformRayTracer(a, b, ice_model=ice)
        tr.max_reflections = case.get("max_reflections", 2)
    elif t == "layered":
        tr = li.LayeredRayTracer(a, b, ice_model=ice)
        tr.max_reflections = case.get("max_reflections", 1)
    else:
        raise ValueError(t)
    try:
        return list(tr.solutions), ice
    except Exception as e:  # a tracer that cannot handle a geometry is not this property's subject (C02: K17)
        note_skip("tracer_raised_" + t)
        return [], ice


def gen_case(rng, tracer=None):
    tracer = tracer or rng.choice(["basic", "specialized", "specialized", "uniform", "uniform", "layered"])
    case = {"tracer": tracer}
    vertical = rng.random() < 0.12
    if tracer in ("basic", "specialized"):
        case["ice"] = {"kind": rng.choice(["antarctic", "antarctic", "greenland", "arasim"])}
        z0 = -rng.uniform(20, 1500)
        z1 = -rng.uniform(5, 400)
        rho = 0.0 if vertical else rng.uniform(5, 1500)
        if tracer == "basic":
            z0 = -rng.uniform(20, 400)
            rho = 0.0 if vertical else rng.uniform(5, 500)
    elif tracer == "uniform":
        lo = -rng.uniform(300, 2500)
        case["ice"] = {"kind": "uniform", "n": rng.uniform(1.3, 1.8), "range": [lo, 0.0],
                       "above": rng.choice([1, 1, 1.2]), "below": rng.choice([None, 1.0, 2.0, 3.0])}
        case["max_reflections"] = rng.choice([0, 1, 2, 2])
        z0 = rng.uniform(lo * 0.95, -5)
        z1 = rng.uniform(lo * 0.95, -5)
        rho = 0.0 if vertical else rng.uniform(1, 2000)
    else:
        zb = -rng.uniform(50, 300)
        zb2 = zb - rng.uniform(100, 600)
        style = rng.choice(["uu", "uu_down", "uuu", "ue"])
        if style == "uu":
            layers = [{"kind": "uniform", "n": rng.uniform(1.3, 1.5), "range": [zb, 0.0]},
                      {"kind": "uniform", "n": rng.uniform(1.6, 1.8), "range": [-2500.0, zb]}]
        elif style == "uu_down":
            layers = [{"kind": "uniform", "n": rng.uniform(1.6, 1.8), "range": [zb, 0.0]},
                      {"kind": "uniform", "n": rng.uniform(1.3, 1.5), "range": [-2500.0, zb]}]
        elif style == "uuu":
            layers = [{"kind": "uniform", "n": rng.uniform(1.3, 1.45), "range": [zb, 0.0]},
                      {"kind": "uniform", "n": rng.uniform(1.5, 1.6), "range": [zb2, zb]},
                      {"kind": "uniform", "n": rng.uniform(1.7, 1.8), "range": [-2500.0, zb2]}]
        else:
            layers = [{"kind": "uniform", "n": 1.35, "range": [zb, 0.0]},
                      {"kind": "exp", "n0": 1.78, "k": 0.43, "a": 0.0132, "range": [-2850.0, zb]}]
        case["ice"] = {"kind": "layered", "layers": layers, "above": 1, "below": None}
        case["max_reflections"] = rng.choice([0, 1])
        z0 = rng.uniform(-900, -10)
        z1 = rng.uniform(-900, -10)
        rho = 0.0 if vertical else rng.uniform(5, 800)
    if not vertical and tracer in ("specialized", "uniform", "layered") and rng.random() < 0.15:
        # nearly horizontal rays: end points less than one integration step apart in depth, or at equal depth
        z1 = z0 + rng.choice([0.0, 0.3, -0.4, 0.9, -0.05])
        rho = rng.choice([rng.uniform(5, 80), rng.uniform(20, 400)])
        case["near_horizontal"] = True
    phi = rng.uniform(-math.pi, math.pi)
    x0, y0 = rng.uniform(-1000, 1000), rng.uniform(-1000, 1000)
    if vertical:
        case["from"] = [x0, y0, z0]
        case["to"] = [x0, y0, z1]
    else:
        case["from"] = [x0, y0, z0]
        case["to"] = [x0 + rho * math.cos(phi), y0 + rho * math.sin(phi), z1]
    return case


def sub_kind(p):
    n = type(p).__name__
    return {"BasicRayTracePath": "basic", "SpecializedRayTracePath": "specialized",
            "UniformRayTracePath": "uniform", "LayeredRayTracePath": "layered"}[n]


# --------------------------------------------------------------------------------------------
# model requests
def atten_requests(path, freqs):
    """-> (list of request lines, one per frequency | None for layered)  using the recorded ice calls"""
    kind = sub_kind(path)
    f = np.array(freqs, dtype=float)
    ice = path.ice
    log = ice._c03_log
    if kind == "basic":
        del log[:]
        impl = path.attenuation(f)
        legs = list(log)
        reqs = []
        sin0, n0 = float(np.sin(path.theta0)), float(path.n0)
        for j in range(len(f)):
            parts = ["basic", fw.fl([sin0, n0]), str(len(legs))]
            for zs, L in legs:
                ns = np.atleast_1d(ice.index(zs))
                dz = abs((zs[-1] - zs[0]) / (len(zs) - 1)) if len(zs) > 1 else float("nan")
                parts += [str(len(zs)), fw.fl(ns), fw.fl(L[:, j] if L.ndim == 2 else L), fw.fl([dz])]
            reqs.append(" ".join(parts))
        return reqs, [float(v) for v in impl]
    if kind == "specialized":
        calls = []
        orig = type(path)._attenuation_integral_def

        def rec(zs, f=None, beta=None, ice=None, deep=False):
            calls.append((np.array(zs, dtype=float).copy(), bool(deep), float(beta)))
            return orig(zs, f=f, beta=beta, ice=ice, deep=deep)
        path.__dict__["_attenuation_integral_def"] = rec
        try:
            del log[:]
            impl = path.attenuation(f)
            legs = list(log)
        finally:
            path.__dict__.pop("_attenuation_integral_def", None)
        if len(legs) != len(calls):
            return None, [float(v) for v in impl]
        reqs = []
        tol = type(path).beta_tolerance
        for j in range(len(f)):
            parts = ["spec", fw.fl([float(path.beta), ice.k, ice.a]), str(len(legs))]
            for (zs, deep, beta), (zs2, L) in zip(calls, legs):
                plain = deep or bool(np.isclose(beta, 0, atol=tol))
                ns = np.atleast_1d(ice.index(zs))
                parts += ["1" if plain else "0", str(len(zs)), fw.fl(zs), fw.fl(ns),
                          fw.fl(L[:, j] if L.ndim == 2 else L)]
            reqs.append(" ".join(parts))
        return reqs, [float(v) for v in impl]
    if kind == "uniform":
        del log[:]
        impl = path.attenuation(f)
        legs = list(log)
        pts = np.asarray(path._points, dtype=float)
        reqs = []
        for j in range(len(f)):
            parts = ["uniform", fw.fl([1.0]), str(len(pts)), fw.fl(pts.reshape(-1))]
            for zs, L in legs:
                parts += [str(len(zs)), fw.fl(L[:, j] if L.ndim == 2 else np.atleast_1d(L))]
            reqs.append(" ".join(parts))
        return reqs, [float(v) for v in impl]
    return None, [float(v) for v in path.attenuation(f)]


def cplx(v):
    c = complex(v)
    return [c.real, c.imag]


def uniform_reflections(path):
    pts = np.asarray(path._points, dtype=float)
    ice = path.ice
    out = []
    for p1, p2 in zip(pts[:-2], pts[1:-1]):
        n2 = ice.index_below if p2[2] == ice.valid_range[0] else ice.index_above
        dr = float(np.sqrt(np.sum((p2[:2] - p1[:2]) ** 2)))
        dz = float(abs(p2[2] - p1[2]))
        out.append((float(n2), dr, dz))
    return out


def fresnel_request(path):
    kind = sub_kind(path)
    if kind in ("basic", "specialized"):
        return "bfresnel %s %d %s" % (ice_toks(path.ice), 1 if path.direct else 0,
                                      fw.fl([float(path.theta0), float(path.z0)]))
    if kind == "uniform":
        r = uniform_reflections(path)
        return "ufresnel %s %d %s" % (fw.fl([float(path.n0)]), len(r), " ".join(fw.fl(x) for x in r))
    # layered: mirror the boundary bookkeeping (which medium is on the other side), the coefficients are the model's
    ice = path.ice
    bounds = []
    for p1, p2 in zip(path.paths[:-1], path.paths[1:]):
        n1 = float(p1.ice.index(p1.to_point[2]))
        rz = float(p1.received_direction[2])
        refl = np.sign(p1.received_direction[2]) != np.sign(p2.emitted_direction[2])
        if refl:
            i = None
            for ii, bnd in enumerate(ice.boundaries):
                if np.isclose(p1.to_point[2], bnd, rtol=0):
                    i = ii
                    break
            if rz > 0:
                n2 = ice.index_above if i == 0 else ice.layers[i - 1].index(p2.from_point[2])
            else:
                n2 = ice.index_below if i == len(ice.layers) else ice.layers[i].index(p2.from_point[2])
        else:
            n2 = p2.ice.index(p2.from_point[2])
        f2 = p2.fresnel
        bounds.append("%d %s" % (1 if refl else 0, fw.fl([n1, float(n2), rz] + cplx(f2[0]) + cplx(f2[1]))))
    f1 = path.paths[0].fresnel
    return "lfresnel %s %d %s" % (fw.fl(cplx(f1[0]) + cplx(f1[1])), len(bounds), " ".join(bounds))


def atten_table(path, n, dt, interp, grid=None, signed=False):
    """frequencies and attenuation values that define `att` of the model's propagate"""
    import scipy.fft
    freqs = scipy.fft.fftfreq(2 * n, d=dt)
    if sub_kind(path) in ("basic", "specialized"):
        if interp is None:
            fs = np.sort(freqs)
        else:
            fs = np.array(grid, dtype=float)
        return fs, np.asarray(path.attenuation(fs), dtype=float)
    fs = np.unique(freqs) if signed else np.unique(np.abs(freqs))
    return fs, np.asarray(path.attenuation(fs), dtype=float)


def special_pols(path):
    """exact-zero / axis-aligned / basis-aligned polarisation vectors (amplitudes that are exactly 0.0 included)"""
    e = np.asarray(path.emitted_direction, dtype=float)
    us, up1 = path.propagate(polarization=[1.0, 0.0, 0.0])
    us = np.asarray(us, dtype=float)
    c = np.cross(us, e)
    up0 = c / np.linalg.norm(c) if np.linalg.norm(c) > 0 else c
    return [("z", [0.0, 0.0, 1.0]), ("-z", [0.0, 0.0, -1.0]), ("x", [1.0, 0.0, 0.0]), ("y", [0.0, 1.0, 0.0]),
            ("zero", [0.0, 0.0, 0.0]), ("cross_e_z", [float(v) for v in np.cross(e, [0, 0, 1.0])]),
            ("u_s0", [float(v) for v in us]), ("2u_s0", [float(2 * v) for v in us]),
            ("u_p0", [float(v) for v in up0]), ("u_p1", [float(v) for v in up1]),
            ("emitted", [float(v) for v in e])]


def special_signal(kind, n, g):
    """degenerate sample sequences"""
    if kind == "zero":
        return np.zeros(n)
    if kind == "impulse":
        v = np.zeros(n); v[0] = 1.0
        return v
    if kind == "tail":
        v = np.zeros(n); v[n // 2:] = g.standard_normal(n - n // 2)
        return v
    if kind == "const":
        return np.ones(n)
    return g.standard_normal(n)


SIGNAL_KINDS = ["dense", "zero", "impulse", "tail", "const"]


def close_list(got, ex, tol_abs, rel=1e-9):
    if got is None or len(got) != len(ex):
        return False
    for a, b in zip(got, ex):
        if math.isnan(a) or math.isnan(b):
            if not (math.isnan(a) and math.isnan(b)):
                return False
            continue
        if a != b and abs(a - b) > tol_abs + rel * max(abs(a), abs(b)):
            return False
    return True


# --------------------------------------------------------------------------------------------
def corner_cases(rng):
    """boundary geometries that random end points almost never hit: equal depths, end points less than one
    integration step apart, exactly vertical pairs, an end point exactly on a layer boundary / range bound"""
    x0, y0 = rng.uniform(-500, 500), rng.uniform(-500, 500)
    phi = rng.uniform(-math.pi, math.pi)
    c, sn = math.cos(phi), math.sin(phi)
    z = -rng.uniform(50, 600)
    uni = {"kind": "uniform", "n": rng.uniform(1.4, 1.8), "range": [-1500.0, 0.0], "above": 1, "below": 2.0}
    lay = {"kind": "layered", "above": 1, "below": None,
           "layers": [{"kind": "uniform", "n": 1.35, "range": [-150.0, 0.0]},
                      {"kind": "uniform", "n": 1.7, "range": [-2500.0, -150.0]}]}
    r1, r2 = rng.uniform(20, 60), rng.uniform(100, 300)
    cs = [
        {"tracer": "uniform", "ice": uni, "max_reflections": 1, "from": [x0, y0, z], "to": [x0 + r2 * c, y0 + r2 * sn, z]},
        {"tracer": "uniform", "ice": uni, "max_reflections": 0, "from": [x0, y0, z],
         "to": [x0 + r2 * c, y0 + r2 * sn, z + rng.choice([0.4, -0.7])]},
        {"tracer": "uniform", "ice": uni, "max_reflections": 1, "from": [x0, y0, z], "to": [x0, y0, z - 120.0]},
        {"tracer": "specialized", "ice": {"kind": rng.choice(["antarctic", "greenland", "arasim"])},
         "from": [x0, y0, z], "to": [x0 + r1 * c, y0 + r1 * sn, z + rng.choice([0.9, -0.6, 0.3])]},
        {"tracer": "specialized", "ice": {"kind": "antarctic"}, "from": [x0, y0, z], "to": [x0 + r1 * c, y0 + r1 * sn, z]},
        {"tracer": "specialized", "ice": {"kind": "antarctic"}, "from": [x0, y0, z], "to": [x0, y0, z + 35.0]},
        {"tracer": "layered", "ice": lay, "max_reflections": 1, "from": [x0, y0, -400.0],
         "to": [x0 + r2 * c, y0 + r2 * sn, -400.0]},
        {"tracer": "layered", "ice": lay, "max_reflections": 0, "from": [x0, y0, -400.0], "to": [x0, y0, -60.0]},
        {"tracer": "layered", "ice": lay, "max_reflections": 0, "from": [x0, y0, -400.0],
         "to": [x0 + r1 * c, y0 + r1 * sn, -150.0]},
    ]
    same = {"kind": "uniform", "n": 1.5, "range": [-800.0, 0.0], "above": 1.5, "below": 1.5}
    zs_, ze_ = rng.choice([(-500.0, -100.0), (-300.0, -50.0), (-120.0, -700.0), (-60.0, -15.0)])
    cs += [
        # near-vertical rays of the specialized tracer (beta <= beta_tolerance), partly in shallow ice: exactly
        # vertical and a fraction of a metre off axis; both the direct and the surface-reflected solution
        {"tracer": "specialized", "ice": {"kind": rng.choice(["antarctic", "greenland"])}, "from": [x0, y0, zs_],
         "to": [x0, y0, ze_]},
        {"tracer": "specialized", "ice": {"kind": "antarctic"}, "from": [x0, y0, zs_],
         "to": [x0 + 0.001 * abs(zs_ - ze_) * c, y0 + 0.001 * abs(zs_ - ze_) * sn, ze_]},
        # flat refracted rays of the basic and the specialized tracer (turning below the surface; K27 for basic)
        {"tracer": "basic", "ice": {"kind": "antarctic"}, "from": [x0, y0, -170.0],
         "to": [x0 + 430 * c, y0 + 430 * sn, -195.0]},
        {"tracer": "specialized", "ice": {"kind": rng.choice(["antarctic", "greenland"])}, "from": [x0, y0, -170.0],
         "to": [x0 + rng.uniform(300, 500) * c, y0 + rng.uniform(300, 500) * sn, -rng.uniform(150, 260)]},
        # identical end points (zero-length direct path)
        {"tracer": "specialized", "ice": {"kind": "antarctic"}, "from": [x0, y0, z], "to": [x0, y0, z]},
        {"tracer": "uniform", "ice": uni, "max_reflections": 1, "from": [x0, y0, z], "to": [x0, y0, z]},
        {"tracer": "layered", "ice": lay, "max_reflections": 0, "from": [x0, y0, -300.0], "to": [x0, y0, -300.0]},
        # equal indices on both sides of the boundary (r = 0), grazing incidence (|r| -> 1), normal incidence
        {"tracer": "uniform", "ice": same, "max_reflections": 1, "from": [x0, y0, -100.0],
         "to": [x0 + r2 * c, y0 + r2 * sn, -140.0]},
        {"tracer": "uniform", "ice": uni, "max_reflections": 1, "from": [x0, y0, -0.01],
         "to": [x0 + 3000 * c, y0 + 3000 * sn, -0.02]},
    ]
    return cs


def collect_paths(run, npaths):
    """(case, index, path) triples from all four tracers"""
    out = []
    order = ["specialized", "basic", "uniform", "layered"]
    guard = 0
    corners = corner_cases(run.rng)
    corners = corners[:9:2] + corners[11::2]
    while len(out) < npaths and guard < 40 * npaths:
        guard += 1
        case = corners.pop(0) if corners else gen_case(run.rng, tracer=order[guard % 4] if guard <= 4 * 6 else None)
        paths, ice = make_paths(case)
        for i, p in enumerate(paths):
            out.append((case, i, p))
            run.count("paths_" + case["tracer"])
            if case["tracer"] in ("basic", "specialized"):
                run.count("ice_" + case["ice"]["kind"])
    return out


def correspondence(run):
    rt, im, ps, li = mods()
    rng = run.rng
    trip = collect_paths(run, run.scale(36, 280))
    reqs, expect, tols, descs = [], [], [], []
    layered_pending = []     # (desc, impl values, [indices of sub requests per frequency])

    def add(req, ex, tol, desc):
        reqs.append(req); expect.append(ex); tols.append(tol); descs.append(desc)
        return len(reqs) - 1

    # attenuation lengths of the shipped ice models (formulas and constants of the twin are regenerated from the
    # source by the ice_consts translator; this ties the branch structure and the translation)
    for tag, aice in (("a", im.AntarcticIce()), ("g", im.GreenlandIce()), ("r", im.ArasimIce()),
                      ("a", im.UniformIce(1.5))):
        for z in [0.0, -10.0, -150.0, -1000.0, -2850.0, -rng.uniform(0, 2850)]:
            fs = [f for f in FREQS if f > 0] + [10 ** rng.uniform(6, 9.7) for _ in range(4)]
            ex = [float(aice.attenuation_length(z, f)) for f in fs]
            add("alen %s %s %d %s" % (tag, fw.fl([z]), len(fs), fw.fl(fs)), ex, 0.0,
                {"op": "alen", "ice": type(aice).__name__, "z": z})

    prop_jobs = []
    for case, idx, path in trip:
        kind = sub_kind(path)
        base = {"tracer": case["tracer"], "ice": case["ice"], "from": case["from"], "to": case["to"], "sol": idx}
        # ---- attenuation
        freqs = FREQS + [10 ** rng.uniform(6, 9.5) * rng.choice([1, -1]) for _ in range(2)]
        if kind != "layered":
            rq, impl = atten_requests(path, freqs)
            if rq is None:
                run.note_broken("correspondence: could not record the attenuation legs of %s" % base)
            else:
                for j, r in enumerate(rq):
                    add(r, [impl[j]], 1e-300, dict(base, op="attenuation", f=freqs[j]))
        else:
            impl = [float(v) for v in path.attenuation(np.array(freqs))]
            subidx = []
            ok_sub = True
            for sp in path.paths:
                rq, simpl = atten_requests(sp, freqs)
                if rq is None:
                    ok_sub = False
                    break
                subidx.append([add(r, [simpl[j]], 1e-300, dict(base, op="sub-attenuation", f=freqs[j],
                                                              sub=type(sp).__name__)) for j, r in enumerate(rq)])
            if ok_sub:
                layered_pending.append((dict(base, op="attenuation"), impl, subidx, freqs))
        # ---- fresnel
        fr = path.fresnel
        add(fresnel_request(path), cplx(fr[0]) + cplx(fr[1]), 1e-12, dict(base, op="fresnel"))
        if any(abs(complex(c).imag) > 0 for c in fr):
            run.count("fresnel_tir")
        elif any(complex(c) != 1 for c in fr):
            run.count("fresnel_real_reflection")
        # ---- polarisation basis
        e = [float(v) for v in path.emitted_direction]
        r = [float(v) for v in path.received_direction]
        us, up1 = path.propagate(polarization=[1.0, 0.0, 0.0])
        i = add("basis %s" % fw.fl(e + r + [float(path.phi)]), [float(v) for v in us] + [float(v) for v in up1],
                1e-12, dict(base, op="basis"))
        if float(path.rho) == 0.0:
            run.count("vertical_paths")
        # ---- propagate: a short history on this one path object.  First a generic call, then the same length with
        # another sampling step (and the same interpolation setting), then a degenerate polarisation / signal.
        n = rng.randint(2, run.scale(40, 64))
        dt = 10 ** rng.uniform(-10, -8)
        interp = rng.choice([None, None, 0.05, 0.1, 0.5, 1.5])
        if kind in ("uniform", "layered") and rng.random() < 0.5:
            interp = None
        if interp is not None and n == 11:
            n = 12    # fmax/fmin = N-1 = 10: log10 span is exactly a multiple of the step, int() sits on a rounding boundary
        sp_pols = special_pols(path)
        job = dict(base=base, case=case, idx=idx, path=path, n=n, dt=dt, interp=interp, pol=None, sig="dense")
        prop_jobs.append(job)
        prop_jobs.append(dict(job, dt=dt * rng.choice([0.2, 0.5, 3.0, 5.0])))
        name, vec = sp_pols[len(prop_jobs) % len(sp_pols)]
        prop_jobs.append(dict(job, pol=(name, vec), sig=rng.choice(["dense", "dense", "impulse"])))
        prop_jobs.append(dict(job, pol=rng.choice([None, sp_pols[0]]), sig="zero",
                              n=rng.choice([n, 2, 3]) if interp is None else n))
        prop_jobs.append(dict(job, fn=True, n=max(n, 4)))

    # stage 1: everything above + the interpolation grids
    import scipy.fft
    grid_idx = {}
    for k, job in enumerate(prop_jobs):
        base, path, n, dt, interp = job["base"], job["path"], job["n"], job["dt"], job["interp"]
        if interp is not None and sub_kind(path) in ("basic", "specialized"):
            freqs = scipy.fft.fftfreq(2 * n, d=dt)
            fmin, fmax = float(np.min(freqs[freqs > 0])), float(np.max(freqs))
            # the implementation's own grid, recomputed as the code does, is what the model's grid is compared with
            lmin, lmax = np.log10(fmin), np.log10(fmax)
            ns = int((lmax - lmin) / interp)
            if (lmax - lmin) % interp:
                ns += 1
            logf = np.logspace(lmin, lmax, ns + 1)
            ex = list(np.concatenate((-np.flipud(logf), [0], logf)))
            grid_idx[k] = add("grid %s" % fw.fl([fmin, fmax, interp]), [float(v) for v in ex], 0.0,
                              dict(base, op="grid", N=n, dt=dt, step=interp))
    n_stage1 = len(reqs)
    replies = fw.run_driver("C03", reqs)
    ok = judge(run, reqs, expect, tols, descs, replies, grid_rel=1e-12)

    # stage 2: layered products and propagate (uses the model's own grid)
    reqs2, expect2, tols2, descs2 = [], [], [], []
    for desc, impl, subidx, freqs in layered_pending:
        for j in range(len(freqs)):
            try:
                vals = [fw.unfl(replies[col[j]].split())[0] for col in subidx]
            except Exception:
                continue
            reqs2.append("prod %d %s" % (len(vals), fw.fl(vals))); expect2.append([impl[j]]); tols2.append(1e-300)
            descs2.append(dict(desc, f=freqs[j]))
    for k, job in enumerate(prop_jobs):
        base, path, n, dt, interp = job["base"], job["path"], job["n"], job["dt"], job["interp"]
        grid = None
        if k in grid_idx:
            rp = replies[grid_idx[k]]
            if rp in ("bad-op",):
                continue
            grid = fw.unfl(rp.split())
        t0 = rng.choice([0.0, rng.uniform(-1e-6, 1e-6)])
        times = t0 + dt * np.arange(n)
        vals = special_signal(job["sig"], n, run.np_rng) * 10 ** rng.uniform(-4, 2)
        if job["pol"] is None:
            pol = [rng.gauss(0, 1) for _ in range(3)]
            run.count("propagate_pol_generic")
        else:
            pol = list(job["pol"][1])
            run.count("propagate_pol_" + job["pol"][0])
        run.count("propagate_signal_" + job["sig"])
        # the model's attenuation table comes from a path object that has no history
        fp, _ = make_paths(job["case"])
        fresh = fp[job["idx"]] if job["idx"] < len(fp) else path
        kw = {} if interp is None else {"attenuation_interpolation": interp}
        if job.get("fn"):
            # lazily evaluated input: the outputs are read only after a further call on the same path
            sig = ps.FunctionSignal(times.copy(), lambda q, _t=times.copy(), _v=vals.copy(): np.interp(q, _t, _v),
                                    value_type=ps.Signal.Type.field)
            (ss, sp), (us, up1) = path.propagate(sig, pol, **kw)
            path.propagate(ps.Signal(times.copy(), vals[::-1].copy()), [0.3, -0.2, 0.9], **kw)
            ss = ps.Signal(ss.times, ss.values)
            sp = ps.Signal(sp.times, sp.values)
            run.count("propagate_input_FunctionSignal")
        else:
            sig = ps.Signal(times.copy(), vals.copy(), value_type=ps.Signal.Type.field)
            (ss, sp), (us, up1) = path.propagate(sig, pol, **kw)
        fs, av = atten_table(fresh, n, float(times[1] - times[0]), interp, grid)
        fr = path.fresnel
        e = [float(v) for v in path.emitted_direction]
        r = [float(v) for v in path.received_direction]
        req = "propagate %d %s %s %s %s %s %d %s %s" % (
            n, fw.fl(times), fw.fl(vals), fw.fl(pol + [float(path.tof)] + e + r + [float(path.phi)]),
            fw.fl(cplx(fr[0])), fw.fl(cplx(fr[1])), len(fs), fw.fl(fs), fw.fl(av))
        ex = ([float(v) for v in ss.times] + [float(v) for v in ss.values] + [float(v) for v in sp.values]
              + [float(v) for v in us] + [float(v) for v in up1])
        if not np.array_equal(ss.times, sp.times):
            run.note_broken("correspondence: s and p signals on different grids for %s" % base)
            ok = False
        gain = max(1.0, abs(complex(fr[0])), abs(complex(fr[1])))
        vmax = float(np.max(np.abs(vals))) * math.sqrt(sum(p * p for p in pol)) * gain
        reqs2.append(req); expect2.append(ex); tols2.append(("prop", n, 1e-9 * vmax))
        descs2.append(dict(base, op="propagate", N=n, dt=dt, interp=interp, pol=pol, sig=job["sig"], step=k))
        run.count("propagate_interp_%s" % interp)
        if k % 3 == 0:
            out = path.propagate(ps.Signal(times.copy(), vals.copy()), **kw)
            fp, _ = make_paths(job["case"])
            fresh2 = fp[job["idx"]] if job["idx"] < len(fp) else path
            fs, av = atten_table(fresh2, n, float(times[1] - times[0]), interp, grid, signed=True)
            reqs2.append("propscalar %d %s %s %s %d %s %s" % (n, fw.fl(times), fw.fl(vals), fw.fl([float(path.tof)]),
                                                            len(fs), fw.fl(fs), fw.fl(av)))
            expect2.append([float(v) for v in out.times] + [float(v) for v in out.values])
            tols2.append(("prop", n, 1e-9 * float(np.max(np.abs(vals)))))
            descs2.append(dict(base, op="propagate-scalar", N=n, dt=dt, interp=interp, sig=job["sig"], step=k))
    bad = ["basis 0 0", "propagate 2 0 0", "nosuch 1 2", "uniform 0 1 0 0"]
    replies2 = fw.run_driver("C03", reqs2 + bad)
    for b, rp in zip(bad, replies2[len(reqs2):]):
        if rp != "bad-op":
            ok = False
            run.note_broken("correspondence: malformed request %r answered %r" % (b, rp[:60]))
    ok = judge(run, reqs2, expect2, tols2, descs2, replies2[:len(reqs2)]) and ok
    return ok


def judge(run, reqs, expect, tols, descs, replies, grid_rel=None):
    ok = True
    for rq, ex, rp, tol, d in zip(reqs, expect, replies, tols, descs):
        got = fw.unfl(rp.split()) if rp not in ("bad-op", "count-mismatch") else None
        run.case(d, nontrivial=True, sample={k: d[k] for k in d if k in ("tracer", "op", "f", "sol", "N", "interp")})
        if isinstance(tol, tuple):
            _, n, t = tol
            good = (got is not None and len(got) == len(ex)
                    and got[:n] == ex[:n]                                  # output times: exact
                    and close_list(got[n:len(ex) - 6] if len(ex) > 2 * n else got[n:], ex[n:len(ex) - 6]
                                   if len(ex) > 2 * n else ex[n:], t, rel=0.0)
                    and (len(ex) <= 2 * n or close_list(got[-6:], ex[-6:], 1e-12)))
        elif d.get("op") == "basis":
            good = got is not None and len(got) == 9 and close_list(got[:3] + got[6:], ex, 1e-12)
        elif d.get("op") == "grid":
            good = close_list(got, ex, 0.0, rel=grid_rel or 1e-12)
        elif d.get("op") in ("attenuation", "sub-attenuation"):
            # attenuation factors are compared in the exponent (see _factor_gap); factors below 1e-300 count as equal
            good = got is not None and len(got) == len(ex) and all(
                (a < 1e-300 and b < 1e-300 and a >= 0 and b >= 0) or float(_factor_gap(a, b)) <= 1e-9
                for a, b in zip(got, ex))
        elif d.get("op") == "alen":
            good = close_list(got, ex, 0.0, rel=1e-9)
        else:
            good = close_list(got, ex, tol, rel=1e-9)
        if good:
            run.traces += 1
        else:
            ok = False
            run.note_broken("correspondence: case=%s request=%s... model=%s impl=%s"
                            % (d, rq[:120], (got[:6] if got else rp), ex[:6]))
    return ok


# --------------------------------------------------------------------------------------------
# property-level search on the implementation alone
def indep_fresnel(n1, n2, theta1):
    """textbook amplitude reflection coefficients, complex arithmetic"""
    c1 = math.cos(theta1)
    s2 = n1 / n2 * math.sin(theta1)
    c2 = complex(math.sqrt(1 - s2 * s2), 0) if s2 <= 1 else complex(0, math.sqrt(s2 * s2 - 1))
    return ((n1 * c1 - n2 * c2) / (n1 * c1 + n2 * c2), (n2 * c1 - n1 * c2) / (n2 * c1 + n1 * c2))


def indep_transmit(n1, n2, theta1):
    c1 = math.cos(theta1)
    s2 = n1 / n2 * math.sin(theta1)
    c2 = complex(math.sqrt(1 - s2 * s2), 0) if s2 <= 1 else complex(0, math.sqrt(s2 * s2 - 1))
    return (2 * n1 * c1 / (n1 * c1 + n2 * c2), 2 * n1 * c1 / (n2 * c1 + n1 * c2))


def layered_junctions(path):
    """-> (list of ('R'|'T', coefficient pair)), independent recomputation from the sub-paths' geometry"""
    out = []
    for p1, p2 in zip(path.paths[:-1], path.paths[1:]):
        n1 = float(p1.ice.index(p1.to_point[2]))
        th = math.acos(min(1.0, abs(float(p1.received_direction[2]))))
        refl = (p1.received_direction[2] > 0) != (p2.emitted_direction[2] > 0)
        if refl:
            zb = float(p1.to_point[2])
            probe = zb + (1e-6 if p1.received_direction[2] > 0 else -1e-6)
            n2 = float(path.ice.index(probe))
            out.append(("R", indep_fresnel(n1, n2, th)))
        else:
            n2 = float(p2.ice.index(p2.from_point[2]))
            out.append(("T", indep_transmit(n1, n2, th)))
    return out


def exponent_bounds(path, kind, f, m=400):
    """(path_length / max L, path_length / min L) over the depth interval the ray visits; None if not covered"""
    if kind == "layered":
        parts = [exponent_bounds(p, sub_kind(p), f, m) for p in path.paths]
        if any(q is None for q in parts):
            return None
        return (float(sum(q[0] for q in parts)), float(sum(q[1] for q in parts)))
    ice = path.ice
    if kind == "uniform":
        zs = np.asarray(path._points, dtype=float)[:, 2]
        zlo, zhi = float(np.min(zs)), float(np.max(zs))
    else:
        zlo = min(float(path.z0), float(path.z1))
        zhi = max(float(path.z0), float(path.z1))
        if not path.direct:
            zt = float(path.z_turn)
            if not math.isfinite(zt):
                return None
            zhi = max(zhi, min(zt, float(ice.valid_range[1])))
    zz = np.linspace(zlo, zhi, m) if zhi > zlo else np.array([zlo])
    L = np.asarray(ice.attenuation_length(zz, float(f)), dtype=float)
    pl = float(path.path_length)
    if not (math.isfinite(pl) and np.all(np.isfinite(L)) and np.min(L) > 0):
        return None
    return (pl / float(np.max(L)), pl / float(np.min(L)))


def deep_branch_excess(path, kind):
    """for a specialized path with a part below z_uniform where |sin theta| > 0.99: max sec(theta)/min sec(theta)
    of the code's own integrand over that part (the factor by which its attenuation exponent may exceed
    path_length / L_att); None otherwise"""
    if kind == "layered":
        vals = [deep_branch_excess(q, sub_kind(q)) for q in path.paths]
        vals = [v for v in vals if v is not None]
        return max(vals) if vals else None
    if kind != "specialized":
        return None
    try:
        zu = float(path.z_uniform)
    except Exception:      # noqa: BLE001
        return None
    zlo = min(float(path.z0), float(path.z1))
    zhi = min(max(float(path.z0), float(path.z1)) if path.direct else float("inf"), zu)
    if not (zlo < zu) or not math.isfinite(zhi) or zhi <= zlo:
        zhi = zu if zlo < zu else None
    if zhi is None:
        return None
    zs = np.linspace(zlo, min(zhi, zu), 200)
    sn = np.abs(float(path.beta)) / np.asarray(path.ice.index(zs), dtype=float)
    if np.max(sn) <= 0.99:
        return None
    if np.max(sn) >= 1:
        return float("inf")       # the launch angle is at / beyond horizontal for the true index: sec(theta) diverges
    sec = 1 / np.sqrt(1 - sn ** 2)
    if path.direct and float(path.path_length) > 0:
        # the launch angle of the deep branch does not belong to the straight line the branch assumes:
        # |dz| * sec(theta) is the length the attenuation integral describes, path_length the chord
        return max(1.0, float(np.max(sec)) * abs(float(path.z1) - float(path.z0)) / float(path.path_length))
    return float(np.max(sec) / np.min(sec))


def basic_turning_omitted(path, f, m=2000):
    """path integral of ds/L_att over the depth intervals BasicRayTracePath.z_integral leaves out on a turning ray:
    the last z_turn_proximity = dz/10 below the turning depth on both legs, and a whole leg when it is shorter
    than one cell (int(|z_turn - dz/10 - z|/dz) == 0)"""
    ice = path.ice
    beta = float(path.n0) * math.sin(float(path.theta0))
    zt, dz = float(path.z_turn), float(path.dz)
    prox = dz / 10
    tot = 0.0
    for za in (float(path.z0), float(path.z1)):
        cells = int(abs(zt - prox - za) / dz)
        depth = (zt - za) if cells == 0 else prox
        if depth <= 0:
            continue
        big = math.sqrt(depth)
        sv = (np.arange(m) + 0.5) / m * big
        zs, w = zt - sv * sv, 2 * sv * (big / m)
        c2 = 1 - (beta / np.asarray(ice.index(zs), dtype=float)) ** 2
        if np.any(c2 <= 0):
            return None
        tot += float(np.sum(w / np.sqrt(c2) / np.asarray(ice.attenuation_length(zs, float(f)), dtype=float)))
    return tot


def indep_exponent(path, kind, f, m=4000):
    """integral of ds / L_att(z, f) along the path (independent quadrature, see indep_integral)"""
    return indep_integral(path, kind, lambda ice, zs: 1.0 / np.asarray(ice.attenuation_length(zs, float(f)),
                                                                        dtype=float), m)


def indep_tof(path, kind, m=4000):
    """time of flight = integral of n(z) ds / c along the path (independent quadrature, see indep_integral)"""
    import scipy.constants
    return indep_integral(path, kind, lambda ice, zs: np.asarray(ice.index(zs), dtype=float) / scipy.constants.c, m)


def indep_integral(path, kind, wfun, m=4000):
    """integral of w(z) ds along the path by a fine midpoint rule, from the geometry alone (straight segments;
    Snell's law with the path's launch angle for the curved classes, the turning-point singularity removed by the
    substitution z = z_turn - s^2); None where the path class / geometry is not covered"""
    if kind == "layered":
        parts = [indep_integral(p, sub_kind(p), wfun, m) for p in path.paths]
        return None if any(q is None for q in parts) else float(sum(parts))
    ice = path.ice
    if kind == "uniform":
        pts = np.asarray(path._points, dtype=float)
        tot = 0.0
        for p1, p2 in zip(pts[:-1], pts[1:]):
            length = float(np.linalg.norm(p2 - p1))
            if length == 0:
                continue
            u = (np.arange(m) + 0.5) / m
            zs = p1[2] + u * (p2[2] - p1[2])
            tot += length * float(np.mean(wfun(ice, zs)))
        return tot
    if kind in ("basic", "specialized") and not path.direct:
        # turning / surface-reflected ray: two legs up to min(z_turn, surface); at a turning depth cos(theta) -> 0
        # like a square root, removed by the substitution z = z_turn - s^2
        beta = float(path.n0) * math.sin(float(path.theta0))
        zt, surf = float(path.z_turn), float(ice.valid_range[1])
        if not math.isfinite(zt):
            return None
        sing, top = zt < surf, min(zt, surf)
        tot = 0.0
        for za in (float(path.z0), float(path.z1)):
            if top <= za:
                continue
            if sing:
                big = math.sqrt(top - za)
                sv = (np.arange(m) + 0.5) / m * big
                zs, w = top - sv * sv, 2 * sv * (big / m)
            else:
                zs, w = za + (np.arange(m) + 0.5) / m * (top - za), np.full(m, (top - za) / m)
            c2 = 1 - (beta / np.asarray(ice.index(zs), dtype=float)) ** 2
            if np.any(c2 <= 0):
                return None
            tot += float(np.sum(w / np.sqrt(c2) * wfun(ice, zs)))
        return tot
    if kind in ("basic", "specialized") and path.direct:
        z0, z1 = float(path.z0), float(path.z1)
        if z0 == z1:
            return None
        beta = float(path.n0) * math.sin(float(path.theta0))
        zlo, zhi = min(z0, z1), max(z0, z1)

        def plain():
            u = (np.arange(m) + 0.5) / m
            zs = zlo + u * (zhi - zlo)
            c2 = 1 - (beta / np.asarray(ice.index(zs), dtype=float)) ** 2
            if np.any(c2 <= 0):
                return None
            return float(np.sum((zhi - zlo) / m / np.sqrt(c2) * wfun(ice, zs)))
        sin_hi = abs(beta) / float(ice.index(zhi))
        if sin_hi < 0.99:
            return plain()
        # nearly horizontal at the upper end: the would-be turning depth lies just above it; integrate both end
        # points up to that depth with the substitution z = z_t - s^2 and take the difference
        try:
            zt = float(ice.depth_with_index(abs(beta)))
        except Exception:      # noqa: BLE001
            return None
        if not math.isfinite(zt) or zt <= zhi or zt >= float(ice.valid_range[1]):
            return None

        def leg(za):
            big = math.sqrt(zt - za)
            sv = (np.arange(m) + 0.5) / m * big
            zs, w = zt - sv * sv, 2 * sv * (big / m)
            c2 = 1 - (beta / np.asarray(ice.index(zs), dtype=float)) ** 2
            if np.any(c2 <= 0):
                return None
            return float(np.sum(w / np.sqrt(c2) * wfun(ice, zs)))
        a, b = leg(zlo), leg(zhi)
        return None if a is None or b is None else a - b
    return None


def check_path(run, case, idx, path, deep=False):
    rt, im, ps, li = mods()
    kind = sub_kind(path)
    base = {"tracer": case["tracer"], "ice": case["ice"], "from": case["from"], "to": case["to"], "sol": idx,
            "max_reflections": case.get("max_reflections")}
    which = case.get("oracle", "all")

    def fail(name, observed, expected, what, key=None, extra=None):
        c = dict(base)
        c["oracle"] = name
        if extra:
            c.update(extra)
        run.fail_input("propagate-" + name, c, observed=observed, expected=expected, what=what, finding_key=key)

    # ---- attenuation: range, evenness, monotone in |f|
    if which in ("all", "attenuation"):
        fgrid = np.array(sorted(set([10 ** x for x in np.linspace(6, 9.6, 25)] + [f for f in FREQS if f > 0])))
        att = np.asarray(path.attenuation(fgrid), dtype=float)
        attn = np.asarray(path.attenuation(-fgrid), dtype=float)
        a0 = float(np.asarray(path.attenuation(np.array([0.0])))[0])
        # is an exact 0.0 the rounding of a tiny positive number?  path length / shortest attenuation length
        ices = [path.ice] if kind != "layered" else [p.ice for p in path.paths]
        zlo, zhi = min(case["from"][2], case["to"][2]), max(case["from"][2], case["to"][2])
        zs = np.linspace(max(zlo - 50, -2800), min(zhi + 50, -0.5), 40)
        lmin = min(float(np.min(i.attenuation_length(zs, float(fgrid[-1])))) for i in ices)
        underflow_ok = float(path.path_length) / lmin > 300
        if not (np.all(np.isfinite(att)) and np.all(att <= 1.0) and np.all(att >= 0.0)) or not (0 < a0 <= 1.0):
            j = int(np.argmax(~((att <= 1.0) & (att >= 0.0)))) if np.all(np.isfinite(att)) else 0
            fail("attenuation-range", [float(fgrid[j]), float(att[j]), a0], "in (0,1]",
                 "attenuation factor outside (0,1]")
        elif np.any(att == 0.0) and not underflow_ok:
            j = int(np.argmax(att == 0.0))
            if deep_branch_excess(path, kind) == float("inf"):
                # K26 at its extreme: the deep-branch launch angle reaches |sin theta| >= 1 for the true index, the
                # integrand 1/cos(theta) diverges and the factor is exactly 0 (exponent too large: excess only)
                fail("attenuation-range", [float(fgrid[j]), 0.0], "in (0,1]", DEEP_TEXT, key=DEEP_KEY)
            else:
                fail("attenuation-range", [float(fgrid[j]), 0.0], "in (0,1]", "attenuation factor is zero")
        if np.any(att == 0.0) and underflow_ok:
            run.count("attenuation_underflow_to_zero")
        if not np.array_equal(att, attn):
            j = int(np.argmax(att != attn))
            fail("attenuation-even", [float(att[j]), float(attn[j])], "equal", "attenuation(-f) != attenuation(f)",
                 extra={"f": float(fgrid[j])})
        inc = att[1:] > att[:-1] * (1 + 1e-11) + 1e-300
        if np.any(inc):
            j = int(np.argmax(inc))
            fail("attenuation-monotone", [float(fgrid[j]), float(att[j]), float(fgrid[j + 1]), float(att[j + 1])],
                 "non-increasing in |f|", "attenuation grows with |f|")
        if a0 < float(np.max(att)) * (1 - 1e-11):
            fail("attenuation-monotone", [0.0, a0, float(np.max(att))], "attenuation(0) >= attenuation(f)",
                 "attenuation grows with |f| from f=0")
        # long 1-D frequency arrays: every element is the scalar evaluation, in range, non-increasing in |f|
        gl = np.random.default_rng(case.get("vseed", 12345) + 17 * idx)
        for ln in ((1025, 3000) if gl.random() < 0.5 else (1500, 2049)):
            fl = np.sort(10 ** gl.uniform(6, 9.6, size=ln))
            if gl.random() < 0.5:
                fl[::7] *= -1          # mixed signs: only |f| matters
            try:
                al = np.asarray(path.attenuation(fl.copy()), dtype=float)
            except Exception as e:      # noqa: BLE001
                fail("crash", repr(e)[:200], "array of factors", "attenuation raised on a long frequency array",
                     extra={"n_freqs": ln})
                continue
            pick = sorted(set([0, 1, 511, 512, 513, 1023, 1024, ln - 3, ln - 2, ln - 1]
                              + [int(q) for q in gl.integers(0, ln, size=12)]))
            pick = [q for q in pick if q < ln]
            one = np.array([float(np.asarray(path.attenuation(np.array([fl[q]])))[0]) for q in pick])
            run.count("attenuation_long_arrays")
            if al.shape != (ln,):
                fail("attenuation-array", list(al.shape), [ln], "attenuation of a long array has the wrong shape",
                     extra={"n_freqs": ln})
            elif not _same_factors(al[pick], one):
                j = int(np.argmax(_factor_gap(al[pick], one)))
                fail("attenuation-array", [pick[j], float(al[pick[j]])], [pick[j], float(one[j])],
                     "element of attenuation(long array) differs from attenuation of that single frequency",
                     extra={"n_freqs": ln})
            else:
                o = np.argsort(np.abs(fl), kind="stable")
                sa = al[o]
                if np.any(al == 0.0) and deep_branch_excess(path, kind) == float("inf"):
                    run.count("K26_zero_factor_long_array")
                elif not (np.all(np.isfinite(al)) and np.all(al <= 1.0) and np.all(al >= 0.0)) or \
                        (np.any(al == 0.0) and not underflow_ok):
                    fail("attenuation-range", [ln], "in (0,1]", "attenuation of a long array leaves (0,1]",
                         extra={"n_freqs": ln})
                elif np.any(sa[1:] > sa[:-1] * (1 + 1e-11) + 1e-300):
                    j = int(np.argmax(sa[1:] > sa[:-1] * (1 + 1e-11) + 1e-300))
                    fail("attenuation-monotone", [float(np.abs(fl[o][j])), float(sa[j]), float(sa[j + 1])],
                         "non-increasing in |f|", "attenuation of a long array grows with |f|", extra={"n_freqs": ln})
        # path_length / max L  <=  -log(attenuation)  <=  path_length / min L  over the depths the ray visits
        for fq in (1e8, 6e8):
            bnd = exponent_bounds(path, kind, fq)
            av = float(np.asarray(path.attenuation(np.array([fq])))[0])
            if bnd is None or not (av > 1e-280):
                continue
            got = -math.log(av)
            # straight segments are exact; numeric z-integrals get 1.5e-2
            straight = kind == "uniform" or (kind == "layered" and all(sub_kind(q) == "uniform" for q in path.paths))
            slack = 3e-3 if straight else 1.5e-2
            hi = bnd[1] * (1 + slack) + 1e-9
            deep = deep_branch_excess(path, kind)
            if deep is not None and got > hi:
                # SpecializedRayTracePath below z_uniform, |sin theta| > 0.99: path_length is the chord (uniform-ice
                # branch) but the launch angle handed to the attenuation integral describes a longer ray
                # (|dz| sec(theta0) > chord).  Known finding K26 (shared with C01): excess only, at most that ratio.
                run.count("specialized_deep_branch_near_horizontal_excess")
                if got <= bnd[1] * deep * (1 + slack) + 1e-9:
                    if DEEP_KEY:
                        fail("attenuation-bounds", got, list(bnd), DEEP_TEXT, key=DEEP_KEY, extra={"f": fq})
                    continue
            if not (bnd[0] * (1 - slack) - 1e-9 <= got <= hi):
                fail("attenuation-bounds", got, list(bnd),
                     "-log(attenuation) is outside [path_length/max L_att, path_length/min L_att] along the path",
                     extra={"f": fq})
        # the exponent is the path integral of ds / L_att(z,|f|): independent fine quadrature
        for fq in (1e8, 6e8):
            ref = indep_exponent(path, kind, fq)
            av = float(np.asarray(path.attenuation(np.array([fq])))[0])
            if ref is None or not (av > 1e-280):
                continue
            got = -math.log(av)
            run.count("attenuation_exponent_checked")
            if kind == "basic" and not path.direct and float(path.z_turn) < float(path.ice.valid_range[1]):
                # known finding K27: BasicRayTracePath stops its legs z_turn_proximity = dz/10 below the turning
                # depth (and a leg shorter than dz has no cell at all).  Recognised by exactly: Basic path, turning
                # below the surface, |deviation| <= 2.5 x (path integral over the omitted depth intervals) + 4e-3 ref
                # (unchanged tree: at most 2.04 x).  Anything beyond that is a violation.
                dev = abs(got - ref)
                if dev > 4e-3 * ref + 1e-9:
                    allow = basic_turning_omitted(path, fq)
                    if allow is not None and dev <= 2.5 * allow + 4e-3 * ref:
                        fail("attenuation-integral", got, ref, K27_TEXT, key="K27", extra={"f": fq})
                    else:
                        fail("attenuation-integral", [got, allow], ref,
                             "-log(attenuation) of a Basic turning ray is off the path integral by more than the part "
                             "omitted next to the turning depth can explain", extra={"f": fq})
                continue
            # clean-tree agreement: specialized 1e-4 (turning rays 1e-3, nearly horizontal direct rays 1.7e-3),
            # layered 3e-4, uniform 6e-4 (left Riemann sum), direct / surface-reflected basic 1.2e-3
            tolq = {"basic": 4e-3, "specialized": 3e-3}.get(kind, 2e-3)
            if kind == "basic" and path.direct:
                nz = np.asarray(path.ice.index(np.array([float(path.z0), float(path.z1)])), dtype=float)
                if float(path.n0) * abs(math.sin(float(path.theta0))) / float(np.min(nz)) > 0.99:
                    # 1 m trapezoid cells on an integrand that steepens like 1/sqrt towards a would-be turning point
                    # just beyond the shallow end: the unchanged tree is off by up to 1.1 % here
                    tolq = 2e-2
                    run.count("basic_direct_nearly_horizontal_end_tolerance_2e-2")
            if abs(got - ref) > tolq * ref + 1e-9:
                fail("attenuation-integral", got, ref,
                     "-log(attenuation) differs from the path integral of ds/L_att (fine midpoint quadrature)",
                     extra={"f": fq})

    # ---- fresnel magnitude, independent recomputation
    fr = [complex(c) for c in path.fresnel]
    k2 = False
    if which in ("all", "fresnel"):
        if kind in ("basic", "specialized"):
            exp = (1, 1)
            if not path.direct and float(path.z_turn) >= path.ice.valid_range[1]:
                n1 = float(path.ice.index(path.ice.valid_range[1]))
                s1 = float(path.n0) * math.sin(float(path.theta0)) / n1
                exp = indep_fresnel(n1, float(path.ice.index_above), math.asin(min(1.0, s1)))
            if abs(fr[0] - exp[0]) > 1e-9 or abs(fr[1] - exp[1]) > 1e-9:
                fail("fresnel-value", [str(fr[0]), str(fr[1])], [str(exp[0]), str(exp[1])],
                     "Fresnel coefficients differ from the textbook formula")
        if kind == "uniform":
            es, ep = 1, 1
            for n2, dr, dz in uniform_reflections(path):
                a, b = indep_fresnel(float(path.n0), n2, math.atan2(dr, dz))
                es, ep = es * a, ep * b
            if abs(fr[0] - es) > 1e-9 or abs(fr[1] - ep) > 1e-9:
                fail("fresnel-value", [str(fr[0]), str(fr[1])], [str(es), str(ep)],
                     "Fresnel coefficients differ from the textbook formula")
        over = max(abs(fr[0]), abs(fr[1])) > 1 + 1e-12 or not all(math.isfinite(abs(c)) for c in fr)
        if kind == "layered":
            j = layered_junctions(path)
            refl_bad = [c for t, pr in j for c in pr if t == "R" and abs(c) > 1 + 1e-12]
            sub_bad = [c for sp in path.paths for c in sp.fresnel if abs(complex(c)) > 1 + 1e-12]
            trans_big = [c for t, pr in j for c in pr if t == "T" and abs(c) > 1 + 1e-12]
            es, ep = complex(path.paths[0].fresnel[0]), complex(path.paths[0].fresnel[1])
            for (t, pr), sp in zip(j, path.paths[1:]):
                es, ep = es * pr[0] * complex(sp.fresnel[0]), ep * pr[1] * complex(sp.fresnel[1])
            if abs(fr[0] - es) > 1e-9 * max(1, abs(es)) or abs(fr[1] - ep) > 1e-9 * max(1, abs(ep)):
                fail("fresnel-value", [str(fr[0]), str(fr[1])], [str(es), str(ep)],
                     "layered Fresnel factor differs from the product of textbook coefficients")
            if refl_bad or sub_bad:
                fail("fresnel-magnitude", [str(c) for c in (refl_bad + sub_bad)], "<= 1",
                     "a reflection coefficient exceeds 1")
            elif over and trans_big:
                k2 = True
                fail("fresnel-magnitude", [abs(fr[0]), abs(fr[1])], "<= 1",
                     "K2: layered transmission coefficient exceeds 1", key="K2")
            elif over:
                fail("fresnel-magnitude", [abs(fr[0]), abs(fr[1])], "<= 1",
                     "layered Fresnel factor exceeds 1 without a transmission coefficient > 1")
        elif over:
            fail("fresnel-magnitude", [abs(fr[0]), abs(fr[1])], "<= 1", "Fresnel coefficient magnitude exceeds 1")
    elif kind == "layered":
        k2 = any(abs(c) > 1 + 1e-12 for t, pr in layered_junctions(path) for c in pr if t == "T")

    # ---- propagate: grid, basis, energy, linearity, independent recomputation; degenerate inputs; histories
    if which in ("all", "propagate"):
        g = np.random.default_rng(case.get("vseed", 12345) + idx)
        n = case.get("N", int(g.integers(2, 65)))
        dt = case.get("dt", float(10 ** g.uniform(-10, -8)))
        interp = case.get("interp", [None, 0.05, 0.1, 0.5][int(g.integers(0, 4))])
        extra = {"N": n, "dt": dt, "interp": interp, "vseed": case.get("vseed", 12345)}
        t0 = case.get("t0", 0.0)
        x = g.standard_normal(n)
        y = g.standard_normal(n)
        pol = g.standard_normal(3)
        pol2 = g.standard_normal(3)
        ctx = dict(kind=kind, fr=fr, k2=k2, fail=fail)

        ss, sp, us, up1 = verify_propagation(path, ctx, t0, dt, x, pol, interp, dict(extra, step="generic"))
        # directions: the attributes must agree with the geometry of the path, and the returned vectors must be
        # perpendicular to the direction the ray ACTUALLY arrives from
        geo = geometric_directions(path, kind)
        if geo is not None and ss is not None:
            e_geo, r_geo, gtol = geo
            ea, ra = np.asarray(path.emitted_direction, dtype=float), np.asarray(path.received_direction, dtype=float)
            run.count("directions_checked_against_geometry")
            if float(np.linalg.norm(ea - e_geo)) > gtol or float(np.linalg.norm(ra - r_geo)) > gtol:
                fail("directions", [[float(v) for v in ea], [float(v) for v in ra]],
                     [[float(v) for v in e_geo], [float(v) for v in r_geo]],
                     "emitted_direction / received_direction differ from the first / last segment of the path",
                     extra=extra)
            elif abs(float(us @ r_geo)) > 10 * gtol + 1e-9 or abs(float(up1 @ r_geo)) > 10 * gtol + 1e-9:
                fail("basis-geometry", [float(us @ r_geo), float(up1 @ r_geo)], [0, 0],
                     "the returned polarisation vectors are not perpendicular to the direction the ray arrives from "
                     "(last segment of the path)", extra=extra)
        # delay: the shift propagate applies is the time of flight = integral of n ds / c (independent quadrature)
        if ss is not None:
            delay = float(np.mean(np.asarray(ss.times, dtype=float) - (t0 + dt * np.arange(n))))
            skip = (deep_branch_excess(path, kind) is not None
                    or (kind == "basic" and not path.direct and float(path.z_turn) < float(path.ice.valid_range[1])))
            ref_t = None if skip else indep_tof(path, kind)
            if skip:
                run.count("delay_oracle_skipped_K26_K27_region")
            elif ref_t is not None and ref_t > 0:
                run.count("delay_checked_against_quadrature")
                tolt = {"uniform": 1e-6, "layered": 1e-3, "basic": 5e-3}.get(kind, 1e-3 if path.direct else 3e-3) \
                    if kind != "layered" else 3e-3
                # (dt-sized grids: the mean shift equals tof up to the rounding of t + tof)
                if abs(delay - ref_t) > tolt * ref_t + 1e-15:
                    fail("delay", delay, ref_t,
                         "the time shift applied by propagate differs from the integral of n ds / c along the ray",
                         extra=extra)
        if ss is not None:
            times = t0 + dt * np.arange(n)
            kw = {} if interp is None else {"attenuation_interpolation": interp}

            def prop(v, p):
                (a, b), _ = path.propagate(ps.Signal(times.copy(), np.array(v, dtype=float)), p, **kw)
                return a, b
            # linear in the signal and in the polarisation
            a, b = 1.7, -0.6
            s2, p2 = prop(y, pol)
            s3, p3 = prop(a * x + b * y, pol)
            scale = (float(np.max(np.abs(x))) + float(np.max(np.abs(y)))) * float(np.linalg.norm(pol)) \
                * max(1.0, abs(fr[0]), abs(fr[1]))
            d = max(float(np.max(np.abs(s3.values - (a * ss.values + b * s2.values)))),
                    float(np.max(np.abs(p3.values - (a * sp.values + b * p2.values)))))
            if d > 1e-9 * scale:
                fail("linear-signal", d, 0.0, "propagate is not linear in the signal", extra=extra)
            s4, p4 = prop(x, pol2)
            s5, p5 = prop(x, a * pol + b * pol2)
            scale = float(np.max(np.abs(x))) * (float(np.linalg.norm(pol)) + float(np.linalg.norm(pol2))) \
                * max(1.0, abs(fr[0]), abs(fr[1]))
            d = max(float(np.max(np.abs(s5.values - (a * ss.values + b * s4.values)))),
                    float(np.max(np.abs(p5.values - (a * sp.values + b * p4.values)))))
            if d > 1e-9 * scale:
                fail("linear-polarization", d, 0.0, "propagate is not linear in the polarisation vector", extra=extra)

        # degenerate inputs: exact-zero / axis-aligned / basis-aligned polarisations, degenerate signals
        for name, vec in special_pols(path):
            sk = SIGNAL_KINDS[int(g.integers(0, len(SIGNAL_KINDS)))] if name not in ("z", "u_s0") else "dense"
            v = special_signal(sk, n, g)
            verify_propagation(path, ctx, t0, dt, v, np.array(vec), interp,
                               dict(extra, step="pol=%s signal=%s" % (name, sk)))
        for sk in ("zero", "impulse"):
            verify_propagation(path, ctx, t0, dt, special_signal(sk, n, g), pol, None,
                               dict(extra, step="pol=generic signal=%s" % sk, interp=None))
        verify_propagation(path, ctx, t0, dt, np.zeros(n), np.array([0.0, 0.0, 1.0]), interp,
                           dict(extra, step="pol=z signal=zero"))
        # the form without polarisation (no force_real: negative frequencies are looked up), every interpolation step
        for ip in (None, 0.05, 0.1, 0.5, 1.5, 5.0):
            verify_scalar(path, ctx, t0, dt, x if n != 11 or ip is None else x[:10], ip,
                          dict(extra, step="scalar", interp=ip))
        verify_propagation(path, ctx, t0, dt, x if n != 11 else x[:10], pol, float(g.choice([1.5, 5.0, 1e-3])),
                           dict(extra, step="coarse / fine interpolation step"))
        # an interpolation step must be positive: zero, negative and NaN steps are rejected, never silently used
        if kind in ("basic", "specialized") and n >= 2:
            for bad in (0, 0.0, float("nan")):
                try:
                    path.propagate(ps.Signal((t0 + dt * np.arange(n)).copy(), x.copy()), pol.copy(),
                                   attenuation_interpolation=bad)
                    fail("bad-step-accepted", bad, "ZeroDivisionError / OverflowError / ValueError",
                         "attenuation_interpolation=%r was accepted" % bad, extra=dict(extra, step="bad step"))
                except (ZeroDivisionError, OverflowError, ValueError, FloatingPointError):
                    run.count("rejected_interpolation_step")
            # a negative step is rejected (ValueError from logspace) unless the whole log-span is shorter than the
            # step, in which case the table is just [f_min, f_max] and the result must satisfy the property
            try:
                path.propagate(ps.Signal((t0 + dt * np.arange(n)).copy(), x.copy()), pol.copy(),
                               attenuation_interpolation=-0.1)
                run.count("negative_interpolation_step_accepted_as_two_point_table")
                verify_propagation(path, ctx, t0, dt, x, pol, -0.1, dict(extra, step="negative step accepted"))
            except (ZeroDivisionError, OverflowError, ValueError, FloatingPointError):
                run.count("rejected_interpolation_step")
        verify_scalar(path, ctx, t0, dt, np.zeros(n), interp, dict(extra, step="scalar signal=zero"))
        # long signals (more than 512 samples, lengths that are no multiple of 512), un-interpolated: every bin of the
        # spectrum carries gain(|f|), the trailing ones included
        nl = int(g.choice([513, 700, 1025, 1500]))
        xl = g.standard_normal(nl)
        verify_propagation(path, ctx, t0, dt, xl, pol, None, dict(extra, step="long signal", N=nl, interp=None))
        verify_scalar(path, ctx, t0, dt, xl, None, dict(extra, step="long signal scalar", N=nl, interp=None))
        # container / dtype forms of the same numbers
        if ss is not None:
            verify_forms(path, ctx, t0, dt, x, pol, interp, extra)
        # object identity for every signal class: input and the two outputs are three distinct objects
        for cname in ("EmptySignal", "Signal", "FunctionSignal", "GaussianNoise"):
            verify_identity(path, ctx, t0, dt, max(n, 4), cname, pol, interp if n != 11 else None,
                            dict(extra, step="identity: " + cname), g)
        # lazily evaluated inputs: FunctionSignal and the Askaryan pulses (FunctionSignal subclasses)
        fresh_f, _ = make_paths(case)
        ff = fresh_f[idx] if idx < len(fresh_f) else None
        for src in ("interp", "gauss", "zhs", "avz", "arz", "sum"):
            verify_function_signal(path, ctx, t0, dt, n, src, pol, interp if src != "gauss" else None,
                                   dict(extra, step="function-signal:%s" % src), g, fresh=ff)

    # ---- histories on one path object, compared step by step with never-used objects and the recomputation
    if which in ("all", "propagate", "history") and not case.get("_light"):
        check_history(run, case, idx, kind, fr, k2, fail)
    # ---- a used path object re-aimed through its mutable attributes
    if which in ("all", "propagate", "reaim") and kind in ("basic", "specialized", "uniform") \
            and not case.get("_light"):
        check_reaim(run, case, idx, kind, fail)


def attenuation_small_calls(path, f, chunk=97):
    """path.attenuation evaluated in short pieces (independent of how a long array is handled internally)"""
    f = np.asarray(f, dtype=float)
    return np.concatenate([np.atleast_1d(np.asarray(path.attenuation(f[i:i + chunk].copy()), dtype=float))
                           for i in range(0, len(f), chunk)]) if len(f) else np.zeros(0)


def geometric_directions(path, kind):
    """(emitted, received, tolerance) taken from the GEOMETRY of the path - the first and the last segment of its
    points - not from its own direction attributes; straight classes exactly, curved classes from the sampled
    `coordinates` (one dz step: a few mrad); None where the geometry is degenerate"""
    def unit(v):
        nrm = float(np.linalg.norm(v))
        return None if nrm == 0 or not math.isfinite(nrm) else np.asarray(v, dtype=float) / nrm
    try:
        if kind == "layered":
            first, last = path.paths[0], path.paths[-1]
            e = geometric_directions(first, sub_kind(first))
            r = geometric_directions(last, sub_kind(last))
            if e is None or r is None:
                return None
            return e[0], r[1], max(e[2], r[2])
        if kind == "uniform":
            pts = np.asarray(path._points, dtype=float)
            e, r = unit(pts[1] - pts[0]), unit(pts[-1] - pts[-2])
            return None if e is None or r is None else (e, r, 1e-9)
        if not path.direct:
            zt = min(float(path.z_turn), float(path.ice.valid_range[1]))
            if min(abs(zt - float(path.z0)), abs(zt - float(path.z1))) < 5 * float(path.dz):
                # `coordinates` samples in dz steps ("for plotting only"): a ray that turns within a few steps of an
                # end point has no usable first / last segment
                note_skip("coordinates_too_coarse_near_turning_point")
                return None
        xs, ys, zs = path.coordinates
        pts = np.column_stack((np.asarray(xs, dtype=float), np.asarray(ys, dtype=float), np.asarray(zs, dtype=float)))
        if len(pts) < 3:
            return None
        e, r = unit(pts[1] - pts[0]), unit(pts[-1] - pts[-2])
        e2, r2 = unit(pts[2] - pts[1]), unit(pts[-2] - pts[-3])
        if e is None or r is None or e2 is None or r2 is None:
            return None
        # the sampled polyline turns by this much from one dz step to the next at either end (large where the ray runs
        # nearly horizontally in shallow ice): the chord of one step cannot resolve the tangent better than that
        bend = max(float(np.linalg.norm(e2 - e)), float(np.linalg.norm(r2 - r)))
        return (e, r, 3e-2 + 1.5 * bend)
    except Exception:      # noqa: BLE001
        note_skip("coordinates_not_available_" + kind)
        return None


def recompute_reference(path, kind, fr, times, x, pol):
    """numpy-only reference for the un-interpolated propagate: shift, split, attenuation*Fresnel, Hermitian filter"""
    n = len(times)
    freqs = np.fft.fftfreq(2 * n, d=float(times[1] - times[0]))
    fa = np.abs(freqs)
    if kind in ("basic", "specialized"):
        fa = np.minimum(fa, np.max(freqs))      # np.interp holds the last tabulated value at Nyquist
    av = attenuation_small_calls(path, fa)
    ed = np.asarray(path.emitted_direction, dtype=float)
    straight = kind == "uniform" or (kind == "layered" and all(sub_kind(q) == "uniform" for q in path.paths))
    geo = geometric_directions(path, kind) if straight else None
    if geo is not None and geo[2] <= 1e-9:
        ed = geo[0]          # straight classes: the s/p split is recomputed from the geometric launch direction
    c = np.cross(ed, [0, 0, 1.0])
    u0 = c / np.linalg.norm(c) if np.linalg.norm(c) > 1e-12 else np.array(
        [math.sin(float(path.phi)), -math.cos(float(path.phi)), 0.0])
    q0 = np.cross(u0, ed)
    q0 = q0 / np.linalg.norm(q0)
    out = []
    for u, r in ((u0, fr[0]), (q0, fr[1])):
        X = np.fft.fft(np.concatenate((x * float(np.dot(pol, u)), np.zeros(n))))
        H = av * np.where(freqs < 0, np.conj(r), r)
        out.append(np.real(np.fft.ifft(H * X))[:n])
    return out


def verify_propagation(path, ctx, t0, dt, x, pol, interp, extra, fresh=None, ref_path=None):
    """one propagate call on `path` checked against the property (grid, basis, energy, no input mutation, no
    aliasing), against the numpy recomputation (un-interpolated) and, when given, against a never-used path"""
    rt, im, ps, li = mods()
    kind, fr, k2, fail = ctx["kind"], ctx["fr"], ctx["k2"], ctx["fail"]
    n = len(x)
    times = t0 + dt * np.arange(n)
    x = np.array(x, dtype=float)
    pol = np.array(pol, dtype=float)
    pol_in = pol.copy()
    kw = {} if interp is None else {"attenuation_interpolation": interp}
    s = ps.Signal(times.copy(), x.copy())
    try:
        (ss, sp), (us, up1) = path.propagate(s, pol_in, **kw)
    except Exception as e:
        fail("crash", repr(e)[:200], "two signals and two vectors", "propagate raised on a valid input", extra=extra)
        return None, None, None, None
    us, up1 = np.asarray(us, dtype=float), np.asarray(up1, dtype=float)
    if not np.array_equal(s.times, times) or not np.array_equal(s.values, x) or not np.array_equal(pol_in, pol):
        fail("input-mutated", None, None, "propagate changed its input signal or polarisation", extra=extra)
    for o in (ss, sp):
        if np.shares_memory(o.times, s.times) or np.shares_memory(o.values, s.values):
            fail("aliasing", None, None, "an output signal shares memory with the input signal", extra=extra)
    if np.shares_memory(ss.times, sp.times) or np.shares_memory(ss.values, sp.values):
        fail("aliasing", None, None, "the two output signals share memory", extra=extra)
    tof = float(path.tof)
    for comp, o in (("s", ss), ("p", sp)):
        if len(o.times) != n or len(o.values) != n or not np.array_equal(o.times, times + tof):
            d = float(np.max(np.abs(np.asarray(o.times)[:n] - (times + tof)))) if len(o.times) == n else None
            fail("grid", [comp, d], 0.0,
                 "%s output times are not the input times delayed by the time of flight" % comp, extra=extra)
            return None, None, None, None
    rd = np.asarray(path.received_direction, dtype=float)
    gram = [float(us @ us), float(up1 @ up1), float(us @ up1), float(us @ rd), float(up1 @ rd)]
    if not np.allclose(gram, [1, 1, 0, 0, 0], atol=1e-9):
        fail("basis", gram, [1, 1, 0, 0, 0],
             "polarisation vectors are not unit / orthogonal / perpendicular to the received direction", extra=extra)
    e_in = float(np.sum(x * x)) * float(pol @ pol)
    e_out = float(np.sum(ss.values ** 2) + np.sum(sp.values ** 2))
    if not np.all(np.isfinite(ss.values)) or not np.all(np.isfinite(sp.values)):
        fail("energy", "non-finite", e_in, "propagated signal is not finite", extra=extra)
        return None, None, None, None
    if e_out > e_in * (1 + 1e-9):
        gmax = max(abs(fr[0]), abs(fr[1])) ** 2
        if kind == "layered" and k2 and e_out <= e_in * gmax * (1 + 1e-9):
            fail("energy", e_out, e_in, "K2: energy gain from a layered transmission coefficient > 1", key="K2",
                 extra=extra)
        else:
            fail("energy", e_out, e_in, "output carries more energy than the input", extra=extra)
    amp = float(np.max(np.abs(x))) * float(np.linalg.norm(pol)) * max(1.0, abs(fr[0]), abs(fr[1]))
    if interp is None and n >= 2:
        exp = recompute_reference(ref_path if ref_path is not None else path, kind, fr, times, x, pol)
        for comp, ex, got in (("s", exp[0], ss), ("p", exp[1], sp)):
            if float(np.max(np.abs(ex - got.values))) > 1e-7 * amp + 1e-300:
                j = int(np.argmax(np.abs(ex - got.values)))
                fail("recompute-" + comp, [j, float(got.values[j])], [j, float(ex[j])],
                     "propagated %s-signal differs from shift + split + attenuation*Fresnel filter" % comp,
                     extra=extra)
    if fresh is not None:
        (fs_, fp_), (fu, fu1) = fresh.propagate(ps.Signal(times.copy(), x.copy()), pol.copy(), **kw)
        same = (np.array_equal(fs_.times, ss.times) and np.array_equal(fp_.times, sp.times)
                and np.allclose(fs_.values, ss.values, rtol=0, atol=1e-12 * amp)
                and np.allclose(fp_.values, sp.values, rtol=0, atol=1e-12 * amp)
                and np.allclose(fu, us, rtol=0, atol=1e-14) and np.allclose(fu1, up1, rtol=0, atol=1e-14))
        if not same:
            d = max(float(np.max(np.abs(fs_.values - ss.values))), float(np.max(np.abs(fp_.values - sp.values))))
            fail("history", d, 0.0,
                 "propagate on a used path object differs from the same call on a never-used path", extra=extra)
    return ss, sp, us, up1


def reference_attenuation(path, kind, freqs, interp, nyquist_held=False):
    """the attenuation factor the property prescribes for every FFT frequency: a function of |f| only - the path's
    own attenuation(|f|), or for an interpolation step its piecewise-linear interpolation on the log-spaced grid
    between the lowest positive and the highest frequency (0 added), constant beyond the grid"""
    fa = np.abs(freqs)
    if kind in ("uniform", "layered"):
        return attenuation_small_calls(path, fa)
    fmax = float(np.max(freqs))
    if interp is None:
        # (the polarised form looks |f| up in a table that ends at the highest positive frequency, so the Nyquist
        #  bin holds that last value; the scalar form finds -f_Nyquist in the table)
        return attenuation_small_calls(path, np.minimum(fa, fmax) if nyquist_held else fa)
    fmin = float(np.min(freqs[freqs > 0]))
    lmin, lmax = np.log10(fmin), np.log10(fmax)
    ns = int((lmax - lmin) / interp)
    if (lmax - lmin) % interp:
        ns += 1
    grid = np.concatenate(([0.0], np.logspace(lmin, lmax, ns + 1)))
    return np.interp(fa, grid, np.asarray(path.attenuation(grid), dtype=float))


def verify_scalar(path, ctx, t0, dt, x, interp, extra, fresh=None):
    """propagate(signal) without polarisation: grid, energy, no mutation; the applied factor must be the
    |f|-symmetric attenuation (numpy recomputation) and agree with the s-component of the polarised form"""
    rt, im, ps, li = mods()
    kind, fr, fail = ctx["kind"], ctx["fr"], ctx["fail"]
    x = np.array(x, dtype=float)
    n = len(x)
    if n < 2:
        return
    times = t0 + dt * np.arange(n)
    kw = {} if interp is None else {"attenuation_interpolation": interp}
    s = ps.Signal(times.copy(), x.copy())
    try:
        out = path.propagate(s, **kw)
    except Exception as e:      # noqa: BLE001
        fail("crash", repr(e)[:200], "one signal", "propagate(signal) raised on a valid input", extra=extra)
        return
    if not np.array_equal(s.times, times) or not np.array_equal(s.values, x):
        fail("input-mutated", None, None, "propagate(signal) changed its input signal", extra=extra)
    if len(out.times) != n or len(out.values) != n or not np.array_equal(out.times, times + float(path.tof)):
        fail("grid", None, 0.0, "scalar output times are not the input times delayed by the time of flight",
             extra=extra)
        return
    if not np.all(np.isfinite(out.values)):
        fail("energy", "non-finite", None, "propagated signal is not finite", extra=extra)
        return
    amp = float(np.max(np.abs(x)))
    e_in, e_out = float(np.sum(x * x)), float(np.sum(out.values ** 2))
    if e_out > e_in * (1 + 1e-9):
        fail("energy", e_out, e_in, "propagate(signal) output carries more energy than the input", extra=extra)
    freqs = np.fft.fftfreq(2 * n, d=float(times[1] - times[0]))
    a = reference_attenuation(path, kind, freqs, interp)
    exp = np.real(np.fft.ifft(a * np.fft.fft(np.concatenate((x, np.zeros(n))))))[:n]
    if float(np.max(np.abs(exp - out.values))) > 1e-7 * amp + 1e-300:
        j = int(np.argmax(np.abs(exp - out.values)))
        fail("recompute-scalar", [j, float(out.values[j])], [j, float(exp[j])],
             "propagate(signal) differs from shift + filter with the |f|-symmetric attenuation factor", extra=extra)
    # metamorphic: with polarisation u_s0 the s-component is r_s times the scalar form (real r_s)
    if abs(fr[0].imag) == 0 and amp > 0 and not (interp is None and kind in ("basic", "specialized")):
        us, _ = path.propagate(polarization=[1.0, 0.0, 0.0])
        (ss, _sp), _ = path.propagate(ps.Signal(times.copy(), x.copy()), np.asarray(us, dtype=float), **kw)
        d = float(np.max(np.abs(ss.values - fr[0].real * out.values)))
        if d > 1e-9 * amp * max(1.0, abs(fr[0])):
            j = int(np.argmax(np.abs(ss.values - fr[0].real * out.values)))
            fail("scalar-vs-polarised", [j, float(out.values[j]) * fr[0].real], [j, float(ss.values[j])],
                 "propagate(signal) is not the s-component of propagate(signal, u_s0) divided by r_s: the applied "
                 "attenuation is not symmetric in f", extra=extra)
    if fresh is not None:
        o2 = fresh.propagate(ps.Signal(times.copy(), x.copy()), **kw)
        if not np.array_equal(out.times, o2.times) or not np.allclose(out.values, o2.values, rtol=0,
                                                                       atol=1e-12 * amp):
            fail("history", float(np.max(np.abs(out.values - o2.values))), 0.0,
                 "propagate(signal) on a used path object differs from the same call on a never-used path",
                 extra=extra)


def verify_forms(path, ctx, t0, dt, x, pol, interp, extra):
    """the same samples / times / polarisation handed over as lists, tuples, float32 or integer arrays must give
    the same outputs as float64 arrays - integer time grids included (defect F22, repaired in /repo)"""
    rt, im, ps, li = mods()
    kind, fr, fail = ctx["kind"], ctx["fr"], ctx["fail"]
    n = len(x)
    kw = {} if interp is None else {"attenuation_interpolation": interp}
    times = t0 + dt * np.arange(n)
    xi = np.round(np.asarray(x) * 10)
    polf = np.asarray(pol, dtype=float)
    poli = np.round(polf * 3)
    forms = [("lists", [float(q) for q in times], [float(q) for q in x], [float(q) for q in polf], times, x, polf),
             ("tuples", tuple(float(q) for q in times), tuple(float(q) for q in x), tuple(float(q) for q in polf),
              times, x, polf),
             ("int values", times.copy(), xi.astype(np.int64), polf.copy(), times, xi, polf),
             ("float32 values", times.copy(), xi.astype(np.float32), polf.copy(), times, xi, polf),
             ("int polarisation", times.copy(), np.array(x, dtype=float), poli.astype(np.int64), times, x, poli),
             ("int python polarisation", times.copy(), np.array(x, dtype=float), [int(q) for q in poli], times, x,
              poli)]
    for name, tt, vv, pp, rt_, rv_, rp_ in forms:
        ex = dict(extra, step="form: " + name)
        try:
            (a, b), _ = path.propagate(ps.Signal(tt, vv), pp, **kw)
            av, bv = np.array(a.values, dtype=float), np.array(b.values, dtype=float)
        except Exception as e:      # noqa: BLE001
            fail("crash", repr(e)[:200], "two signals", "propagate raised for inputs given as %s" % name, extra=ex)
            continue
        (ra, rb), _ = path.propagate(ps.Signal(np.array(rt_, dtype=float), np.array(rv_, dtype=float)),
                                     np.array(rp_, dtype=float), **kw)
        amp = (float(np.max(np.abs(rv_))) or 1.0) * (float(np.linalg.norm(rp_)) or 1.0) * max(1.0, abs(fr[0]), abs(fr[1]))
        if not (np.array_equal(np.array(a.times, dtype=float), ra.times)
                and np.allclose(av, ra.values, rtol=0, atol=1e-9 * amp)
                and np.allclose(bv, rb.values, rtol=0, atol=1e-9 * amp)):
            fail("forms", None, None, "propagate gives another result when the inputs are given as %s" % name, extra=ex)
    # integer time grids (Signal(range(N), ...), repaired as F22): an ordinary form - dt = 1 s, int64 and Python ints
    for name, ti in (("int64 times", np.arange(n, dtype=np.int64) + 3), ("range times", range(n)),
                     ("int32 times", np.arange(n, dtype=np.int32))):
        ex = dict(extra, step="form: " + name)
        tf = np.array(ti, dtype=float)
        try:
            (a, b), _ = path.propagate(ps.Signal(ti, np.array(x, dtype=float)), polf.copy(), **kw)
            av, bv = np.array(a.values, dtype=float), np.array(b.values, dtype=float)
            ta, tb = np.array(a.times, dtype=float), np.array(b.times, dtype=float)
        except Exception as e:      # noqa: BLE001
            fail("crash", repr(e)[:200], "two signals", "propagate raised for a signal on an integer time grid (%s)"
                 % name, extra=ex)
            continue
        (ra, rb), _ = path.propagate(ps.Signal(tf.copy(), np.array(x, dtype=float)), polf.copy(), **kw)
        amp = (float(np.max(np.abs(x))) or 1.0) * (float(np.linalg.norm(polf)) or 1.0) * max(1.0, abs(fr[0]), abs(fr[1]))
        if not (np.array_equal(ta, tf + float(path.tof)) and np.array_equal(tb, tf + float(path.tof))):
            fail("grid", None, None, "integer time grid (%s) is not delayed by the time of flight" % name, extra=ex)
        elif not (np.allclose(av, ra.values, rtol=0, atol=1e-9 * amp) and np.allclose(bv, rb.values, rtol=0,
                                                                                       atol=1e-9 * amp)):
            fail("forms", None, None, "propagate gives another result on an integer time grid (%s)" % name, extra=ex)
        try:
            sc = path.propagate(ps.Signal(ti, np.array(x, dtype=float)), **kw)
            if not np.array_equal(np.array(sc.times, dtype=float), tf + float(path.tof)):
                fail("grid", None, None, "scalar form: integer time grid (%s) is not delayed by tof" % name, extra=ex)
        except Exception as e:      # noqa: BLE001
            fail("crash", repr(e)[:200], "one signal", "propagate(signal) raised on an integer time grid (%s)" % name,
                 extra=ex)


def verify_identity(path, ctx, t0, dt, n, cname, pol, interp, extra, g):
    """polarised propagate of an EmptySignal (what the kernel hands over for cut rays), Signal, FunctionSignal or
    noise: the caller's object and the two returned signals are THREE distinct objects without shared arrays, the
    input is unchanged, each output sits on the input grid delayed by exactly one tof, and the outputs can be added
    to another signal propagated along the same path"""
    rt, im, ps, li = mods()
    kind, fr, fail = ctx["kind"], ctx["fr"], ctx["fail"]
    kw = {} if interp is None else {"attenuation_interpolation": interp}
    times = t0 + dt * np.arange(n)
    pol = np.array(pol, dtype=float)
    vt = ps.Signal.Type.field
    if cname == "EmptySignal":
        sig = ps.EmptySignal(times.copy(), value_type=vt)
    elif cname == "Signal":
        sig = ps.Signal(times.copy(), g.standard_normal(n), value_type=vt)
    elif cname == "FunctionSignal":
        tt, vv = times.copy(), g.standard_normal(n)
        sig = ps.FunctionSignal(times.copy(), lambda q, _t=tt, _v=vv: np.interp(q, _t, _v), value_type=vt)
    else:
        sig = ps.GaussianNoise(times.copy(), 1.0)
        sig.value_type = vt
    x0 = np.array(sig.values, dtype=float).copy()
    tof = float(path.tof)
    try:
        (ss, sp), _ = path.propagate(sig, pol.copy(), **kw)
        sc = path.propagate(sig, **kw)
    except Exception as e:      # noqa: BLE001
        fail("crash", repr(e)[:200], "signals", "propagate raised for a %s input" % cname, extra=extra)
        return
    outs = (("s", ss), ("p", sp), ("scalar", sc))
    if ss is sp or any(o is sig for _, o in outs) or sc is ss or sc is sp:
        fail("identity", None, None, "propagate of a %s returns the same object twice or the caller's own object" % cname,
             extra=extra)
        return
    for name, o in outs:
        if np.shares_memory(o.times, sig.times) or (name != "s" and np.shares_memory(o.times, ss.times)):
            fail("identity", [name], None, "times arrays are shared between the input / the outputs of propagate (%s)"
                 % cname, extra=extra)
            return
    if not np.array_equal(sig.times, times) or not np.array_equal(np.array(sig.values, dtype=float), x0):
        fail("input-mutated", None, None, "propagate changed its %s input (times shifted or values altered)" % cname,
             extra=extra)
        return
    for name, o in outs:
        if len(o.times) != n or not np.array_equal(np.array(o.times, dtype=float), times + tof):
            d = float(np.max(np.abs(np.array(o.times, dtype=float)[:n] - (times + tof)))) if len(o.times) == n else None
            fail("grid", [name, d, tof], 0.0, "%s output of a propagated %s is not on the input grid delayed by exactly "
                 "one time of flight" % (name, cname), extra=extra)
            return
    # the outputs combine with another signal propagated along the same path
    other = ps.Signal(times.copy(), g.standard_normal(n), value_type=vt)
    (os_, op_), _ = path.propagate(other, pol.copy(), **kw)
    try:
        tot_s, tot_p = ss + os_, sp + op_
        good = (np.allclose(np.array(tot_s.values, dtype=float), np.array(ss.values, dtype=float)
                            + np.array(os_.values, dtype=float), rtol=0, atol=1e-12 * (1 + float(np.max(np.abs(os_.values)))))
                and np.array_equal(np.array(tot_p.times, dtype=float), times + tof))
    except Exception as e:      # noqa: BLE001
        fail("identity", repr(e)[:160], "sum of the two signals",
             "outputs of a propagated %s cannot be added to another signal propagated along the same path" % cname,
             extra=extra)
        return
    if not good:
        fail("identity", None, None, "sum of a propagated %s and another propagated signal is wrong" % cname, extra=extra)
    # later shifting one output must not move the other or the input
    ss.shift(1.0)
    if not (np.array_equal(np.array(sp.times, dtype=float), times + tof) and np.array_equal(sig.times, times)):
        fail("identity", None, None, "shifting one output of propagate moves the other output or the input (%s)" % cname,
             extra=extra)


def make_function_signal(src, times, g):
    """a lazily evaluated input signal and the plain sampled signal with the same values"""
    rt, im, ps, li = mods()
    n = len(times)
    if src == "interp":
        t, v = times.copy(), g.standard_normal(n)
        fs = ps.FunctionSignal(times.copy(), lambda q, _t=t, _v=v: np.interp(q, _t, _v))
    elif src == "gauss":
        c, w = float(times[n // 3]), 2.5 * float(times[1] - times[0])
        fs = ps.FunctionSignal(times.copy(), lambda q, _c=c, _w=w: np.exp(-((q - _c) / _w) ** 2))
    elif src == "sum":
        t, v = times.copy(), g.standard_normal(n)
        a = ps.FunctionSignal(times.copy(), lambda q, _t=t, _v=v: np.interp(q, _t, _v))
        c, w = float(times[n // 2]), 1.5 * float(times[1] - times[0])
        fs = a + 0.5 * ps.FunctionSignal(times.copy(), lambda q, _c=c, _w=w: np.exp(-((q - _c) / _w) ** 2))
    else:
        import pyrex
        from pyrex import askaryan
        cls = {"zhs": askaryan.ZHSAskaryanSignal, "avz": askaryan.AVZAskaryanSignal,
               "arz": askaryan.ARZAskaryanSignal}[src]
        part = pyrex.Particle(particle_id="nu_e", vertex=(0, 0, -1000), direction=(0, 0, 1), energy=1e8,
                              interaction_type="cc")
        fs = cls(times.copy(), part, math.radians(float(g.uniform(40, 70))), viewing_distance=100.0,
                 t0=float(times[n // 4]) + 0.37 * float(times[1] - times[0]))   # off the sample grid: AVZ takes
        # floor((t0 - times[0])/dt) of a float, and (times + tof) - tof is not bit-identical to times
    plain = ps.Signal(times.copy(), np.array(fs.values, dtype=float).copy(), value_type=fs.value_type)
    return fs, plain


def fs_state(fs):
    """the component lists of a FunctionSignal (what propagate must leave alone)"""
    return (len(fs._functions), [float(t) for t in fs._t0s], [[float(b) for b in bb] for bb in fs._buffers],
            [float(f) for f in fs._factors], [len(grp) for grp in fs._filters], [id(f) for f in fs._functions])


def verify_function_signal(path, ctx, t0, dt, n, src, pol, interp, extra, g, fresh=None):
    """propagate a FunctionSignal / Askaryan pulse; the outputs are evaluated only AFTER the call has returned and
    after further calls on the same path; they must equal the identical plain Signal propagated on a never-used
    path and the numpy recomputation, and the input must keep its component / filter lists"""
    rt, im, ps, li = mods()
    kind, fr, k2, fail = ctx["kind"], ctx["fr"], ctx["k2"], ctx["fail"]
    if n < 8:
        n = 8
    if interp is not None and n == 11:
        n = 12
    times = t0 + dt * np.arange(n)
    try:
        fs, plain = make_function_signal(src, times, g)
    except Exception:      # the signal classes themselves are other properties' subject
        note_skip("function_signal_not_constructible_" + src)
        return
    x = np.array(plain.values, dtype=float)
    amp = float(np.max(np.abs(x))) * float(np.linalg.norm(pol)) * max(1.0, abs(fr[0]), abs(fr[1]))
    if not np.all(np.isfinite(x)) or amp == 0:
        return
    kw = {} if interp is None else {"attenuation_interpolation": interp}
    before = fs_state(fs)
    pol = np.array(pol, dtype=float)
    try:
        (ss, sp), (us, up1) = path.propagate(fs, pol.copy(), **kw)
        sc = path.propagate(fs, **kw)
        # further calls on the same path before anything is evaluated
        path.propagate(ps.Signal(times.copy(), g.standard_normal(n)), g.standard_normal(3), **kw)
        _ = (path.tof, path.fresnel)
        vs, vp, vc = (np.array(ss.values, dtype=float), np.array(sp.values, dtype=float),
                      np.array(sc.values, dtype=float))
    except Exception as e:      # noqa: BLE001
        fail("crash", repr(e)[:200], "two signals", "propagate raised on a FunctionSignal input", extra=extra)
        return
    if fs_state(fs) != before or not np.array_equal(fs.times, times) \
            or not np.allclose(fs.values, x, rtol=0, atol=1e-12 * float(np.max(np.abs(x)))):
        fail("input-mutated", None, None, "propagate changed the component / filter lists of its FunctionSignal input",
             extra=extra)
    tof = float(path.tof)
    for comp, o in (("s", ss), ("p", sp), ("scalar", sc)):
        if len(o.times) != n or not np.array_equal(o.times, times + tof):
            fail("grid", [comp], 0.0, "%s output of a FunctionSignal is not on the input grid delayed by tof" % comp,
                 extra=extra)
            return
    ref = fresh if fresh is not None else path
    (rs_, rp_), _ = ref.propagate(ps.Signal(times.copy(), x.copy()), pol.copy(), **kw)
    rc_ = ref.propagate(ps.Signal(times.copy(), x.copy()), **kw)
    for comp, got, ex, a in (("s", vs, rs_.values, amp), ("p", vp, rp_.values, amp),
                             ("scalar", vc, rc_.values, float(np.max(np.abs(x))))):
        if len(got) != len(ex) or float(np.max(np.abs(got - ex))) > 1e-9 * a + 1e-300:
            j = int(np.argmax(np.abs(got - ex))) if len(got) == len(ex) else 0
            fail("function-signal-" + comp, [j, float(got[j])], [j, float(ex[j])],
                 "lazily evaluated %s output of a propagated FunctionSignal differs from the same samples propagated "
                 "as a plain Signal on a never-used path" % comp, extra=extra)
            return
    if interp is None:
        exp = recompute_reference(ref, kind, fr, times, x, pol)
        for comp, ex, got in (("s", exp[0], vs), ("p", exp[1], vp)):
            if float(np.max(np.abs(ex - got))) > 1e-7 * amp + 1e-300:
                j = int(np.argmax(np.abs(ex - got)))
                fail("recompute-" + comp, [j, float(got[j])], [j, float(ex[j])],
                     "propagated %s-signal (FunctionSignal input) differs from shift + split + attenuation*Fresnel "
                     "filter" % comp, extra=extra)
    e_in = float(np.sum(x * x)) * float(pol @ pol)
    e_out = float(np.sum(vs ** 2) + np.sum(vp ** 2))
    if e_out > e_in * (1 + 1e-9):
        gmax = max(abs(fr[0]), abs(fr[1])) ** 2
        if kind == "layered" and k2 and e_out <= e_in * gmax * (1 + 1e-9):
            fail("energy", e_out, e_in, "K2: energy gain from a layered transmission coefficient > 1", key="K2",
                 extra=extra)
        else:
            fail("energy", e_out, e_in, "output carries more energy than the input (FunctionSignal input)",
                 extra=extra)
    # the two outputs must not share their component lists
    if isinstance(ss, ps.FunctionSignal) and isinstance(sp, ps.FunctionSignal):
        if ss._filters is sp._filters or any(a is b for a in ss._filters for b in sp._filters) \
                or ss._filters is fs._filters or any(a is b for a in ss._filters for b in fs._filters):
            fail("aliasing", None, None, "propagated FunctionSignals share their filter lists", extra=extra)


def fresh_like(path, kind, from_point, to_point, theta0=None, ice=None):
    """a never-used path object of the same class with the given attributes (built through the class's own
    constructor from a stand-in for the parent tracer)"""
    import types
    parent = types.SimpleNamespace(from_point=np.array(from_point, dtype=float), to_point=np.array(to_point, dtype=float),
                                   ice=ice if ice is not None else path.ice, dz=getattr(path, "dz", 1))
    th = float(path.theta0) if theta0 is None else float(theta0)
    if kind == "uniform":
        return type(path)(parent, th, path._reflections)
    return type(path)(parent, th, path.direct)


def check_reaim(run, case, idx, kind, fail):
    """propagate - re-aim (to_point / from_point / theta0 assigned on the USED object) - propagate - re-aim back -
    propagate: after every re-aim the basis must be perpendicular to the NEW received direction and all outputs must
    equal those of an identical never-used path"""
    rt, im, ps, li = mods()
    g = np.random.default_rng(case.get("vseed", 12345) * 13 + idx + 5)
    used, _ = make_paths(case)
    if idx >= len(used):
        return
    path = used[idx]
    a0 = np.array(path.from_point, dtype=float)
    b0 = np.array(path.to_point, dtype=float)
    th0 = float(path.theta0)
    n = int(g.integers(8, 40))
    dt = float(10 ** g.uniform(-10, -8.5))
    times = dt * np.arange(n)
    x = g.standard_normal(n)
    pol = g.standard_normal(3)
    interp = [None, 0.1][int(g.integers(0, 2))]
    kw = {} if interp is None else {"attenuation_interpolation": interp}

    def rotated(p, ang, dzv=0.0):
        d = p - a0
        c, sn = math.cos(ang), math.sin(ang)
        return a0 + np.array([c * d[0] - sn * d[1], sn * d[0] + c * d[1], d[2] + dzv])
    ang = float(g.uniform(0.3, 2.5)) * (1 if g.random() < 0.5 else -1)
    shift = np.array([float(g.uniform(-80, 80)), float(g.uniform(-80, 80)), 0.0])
    # (new from_point, new to_point, new theta0): a rotation about the source keeps it a true ray; moving the
    # receiver in depth / the source sideways / changing theta0 gives another, still well-defined, path object
    steps = [("to_point rotated", a0, rotated(b0, ang), th0),
             ("back", a0, b0, th0),
             ("to_point rotated and moved in depth", a0, rotated(b0, -ang, float(g.uniform(-15, 15))), th0),
             ("from_point and to_point translated", a0 + shift, b0 + shift, th0),
             ("back", a0, b0, th0)]
    if kind in ("basic", "specialized") and not (float(path.rho) == 0.0):
        steps.insert(3, ("theta0 changed", a0, rotated(b0, ang / 2), th0 * (1 + float(g.uniform(-0.02, 0.02)))))

    def call(pth):
        (ss, sp), (us, up1) = pth.propagate(ps.Signal(times.copy(), x.copy()), pol.copy(), **kw)
        return (np.array(ss.times, dtype=float), np.array(ss.values, dtype=float), np.array(sp.values, dtype=float),
                np.asarray(us, dtype=float), np.asarray(up1, dtype=float))
    try:
        first = call(path)
    except Exception:      # noqa: BLE001 - the plain call is judged elsewhere
        return
    for k, (name, a, b, th) in enumerate(steps):
        extra = {"reaim_step": k, "reaim": name, "N": n, "dt": dt, "interp": interp, "vseed": case.get("vseed", 12345)}
        try:
            if not np.array_equal(a, np.asarray(path.from_point, dtype=float)):
                path.from_point = np.array(a, dtype=float)
            path.to_point = np.array(b, dtype=float)
            if kind != "uniform" or th != float(path.theta0):
                path.theta0 = th
            got = call(path)
            ref = call(fresh_like(path, kind, a, b, th))
        except Exception as e:      # noqa: BLE001
            # a re-aimed object may describe no physical ray (e.g. arcsin out of range): both must then fail alike
            try:
                call(fresh_like(path, kind, a, b, th))
                fail("reaim", repr(e)[:160], "same as a never-used path",
                     "a re-aimed path object raises where an identical never-used path does not", extra=extra)
            except Exception:      # noqa: BLE001
                run.count("reaim_step_not_a_path")
            continue
        if not all(np.all(np.isfinite(q)) for q in ref):
            run.count("reaim_step_not_a_path")
            continue
        run.count("reaim_steps_checked")
        amp = float(np.max(np.abs(x))) * float(np.linalg.norm(pol)) * max(1.0, float(np.max(np.abs(ref[1]))) /
                                                                       (float(np.max(np.abs(x))) or 1.0))
        rd = np.asarray(path.received_direction, dtype=float)
        gram = [float(got[3] @ got[3]), float(got[4] @ got[4]), float(got[3] @ got[4]), float(got[3] @ rd),
                float(got[4] @ rd)]
        if not np.allclose(gram, [1, 1, 0, 0, 0], atol=1e-9):
            fail("reaim-basis", gram, [1, 1, 0, 0, 0],
                 "after re-aiming a used path the returned vectors are not unit / orthogonal / perpendicular to the "
                 "NEW received direction", extra=extra)
        elif not (np.array_equal(got[0], ref[0]) and np.allclose(got[1], ref[1], rtol=0, atol=1e-12 * amp)
                  and np.allclose(got[2], ref[2], rtol=0, atol=1e-12 * amp)
                  and np.allclose(got[3], ref[3], rtol=0, atol=1e-13) and np.allclose(got[4], ref[4], rtol=0, atol=1e-13)):
            d = max(float(np.max(np.abs(got[1] - ref[1]))), float(np.max(np.abs(got[2] - ref[2]))))
            fail("reaim", d, 0.0, "a used path object re-aimed through its attributes (%s) propagates differently from "
                 "an identical never-used path" % name, extra=extra)
        if name == "back" and not (np.array_equal(got[0], first[0]) and np.allclose(got[1], first[1], rtol=0, atol=1e-12 * amp)
                                   and np.allclose(got[2], first[2], rtol=0, atol=1e-12 * amp)):
            fail("reaim", None, None, "re-aiming a path back to its original end points does not restore its first result",
                 extra=extra)


def check_history(run, case, idx, kind, fr, k2, fail):
    """several propagate / attenuation calls with varying dt, length, interpolation setting and frequency arrays on
    ONE path object (and a sibling solution of the same tracer), interleaved with attribute reads"""
    rt, im, ps, li = mods()
    g = np.random.default_rng(case.get("vseed", 12345) * 7 + idx + 1)
    used, _ = make_paths(case)
    if idx >= len(used):
        return
    path = used[idx]
    sib = (idx + 1) % len(used)
    ctx = dict(kind=kind, fr=fr, k2=k2, fail=fail)

    def fresh_path(i=idx):
        fp, _ = make_paths(case)
        return fp[i] if i < len(fp) else None
    n1 = int(g.integers(4, 48))
    n2 = int(g.integers(4, 48))
    dt1 = float(10 ** g.uniform(-10, -8.5))
    dt2 = dt1 * float(g.choice([0.2, 0.5, 2.0, 5.0]))
    ip = [None, 0.05, 0.1, 0.5][int(g.integers(0, 4))]
    ip2 = [None, 0.1, 0.5][int(g.integers(0, 3))]
    pol = g.standard_normal(3)
    f1 = np.sort(10 ** g.uniform(6, 9.5, size=6)) * g.choice([1, -1], size=6)
    f2 = np.sort(10 ** g.uniform(6, 9.5, size=6))
    uniform_like = kind == "uniform" or (kind == "layered" and all(sub_kind(q) == "uniform" for q in path.paths))
    steps = [("prop", n1, dt1, ip, "dense"), ("read",), ("prop", n1, dt2, ip, "dense"),
             ("atten-dz", f2, float(g.choice([0.25, 3.0, 7.5]))) if uniform_like else ("read",),
             ("atten", f1), ("atten", f2),
             ("prop", n1, dt1, None, "dense"), ("prop", n1, dt2, None, "impulse"), ("sibling", n1, dt2, ip),
             ("scalar", n1, dt1, ip), ("scalar", n1, dt2, ip), ("prop", n2, dt1, ip2, "dense"),
             ("atten-scalar", float(f2[2])), ("basis",), ("prop", n1, dt1, ip, "dense"), ("prop", n2, dt2, ip2, "zero")]
    order = list(range(len(steps)))
    # keep the first four in place (same length / other dt right after the first call; an attenuation call with
    # another integration step before the default ones), shuffle the rest
    rest = order[4:]
    g.shuffle(rest)
    order = order[:4] + [int(i) for i in rest]
    for k, si in enumerate(order):
        st = steps[si]
        extra = {"history_step": k, "op": list(map(str, st)), "vseed": case.get("vseed", 12345)}
        if st[0] == "prop":
            _, n, dt, interp, sk = st
            fp_ = fresh_path()
            verify_propagation(path, ctx, 0.0, dt, special_signal(sk, n, g), pol, interp, extra,
                               fresh=fp_, ref_path=fp_)
        elif st[0] == "sibling" and sib != idx:
            _, n, dt, interp = st
            sfr = [complex(c) for c in used[sib].fresnel]
            sk2 = kind == "layered" and any(abs(c) > 1 + 1e-12 for t, pr in layered_junctions(used[sib])
                                            for c in pr if t == "T")
            verify_propagation(used[sib], dict(ctx, fr=sfr, k2=sk2), 0.0, dt, g.standard_normal(n), pol, interp,
                               dict(extra, sol=sib), fresh=fresh_path(sib), ref_path=fresh_path(sib))
        elif st[0] == "scalar":
            _, n, dt, interp = st
            if interp is not None and n == 11:
                n = 12
            verify_scalar(path, ctx, 0.0, dt, g.standard_normal(n), interp, extra, fresh=fresh_path())
        elif st[0] == "atten-dz":
            _, f, dzv = st
            a1 = np.asarray(path.attenuation(np.array(f, copy=True), dz=dzv), dtype=float)
            a2 = np.asarray(fresh_path().attenuation(np.array(f, copy=True), dz=dzv), dtype=float)
            a3 = np.asarray(fresh_path().attenuation(np.array(f, copy=True)), dtype=float)
            if kind == "layered":
                prod = np.ones(np.shape(a1))
                for q in fresh_path().paths:
                    prod = prod * np.asarray(q.attenuation(np.array(f, copy=True), dz=dzv), dtype=float)
                if not _same_factors(a1, prod):
                    fail("layered-product", [float(v) for v in a1], [float(v) for v in prod],
                         "layered attenuation(f, dz) is not the product of the sub-paths' attenuation(f, dz)",
                         extra=extra)
            if not _same_factors(a1, a2):
                fail("history", [float(v) for v in a1], [float(v) for v in a2],
                     "attenuation(f, dz) on a used path object differs from a never-used path", extra=extra)
            if not np.allclose(np.log(np.maximum(a1, 1e-300)), np.log(np.maximum(a3, 1e-300)), rtol=2e-2 * dzv + 1e-3,
                               atol=1e-9):
                fail("attenuation-dz", [float(v) for v in a1], [float(v) for v in a3],
                     "attenuation computed with integration step dz=%g is far from the default-step value" % dzv,
                     extra=extra)
        elif st[0] in ("atten", "atten-scalar"):
            f = st[1]
            fin = np.array(f, copy=True)
            a1 = np.asarray(path.attenuation(fin), dtype=float)
            a2 = np.asarray(fresh_path().attenuation(np.array(f, copy=True)), dtype=float)
            if not np.array_equal(fin, np.asarray(f)):
                fail("input-mutated", None, None, "attenuation changed its frequency argument", extra=extra)
            if kind == "layered":
                prod = np.ones(np.shape(a1))
                for q in fresh_path().paths:
                    prod = prod * np.asarray(q.attenuation(np.array(f, copy=True)), dtype=float)
                if not _same_factors(a1, prod):
                    fail("layered-product", [float(v) for v in np.atleast_1d(a1)],
                         [float(v) for v in np.atleast_1d(prod)],
                         "layered attenuation is not the product of the sub-paths' attenuations", extra=extra)
            if not _same_factors(a1, a2):
                fail("history", [float(v) for v in np.atleast_1d(a1)], [float(v) for v in np.atleast_1d(a2)],
                     "attenuation(f) on a used path object differs from a never-used path", extra=extra)
            if st[0] == "atten":
                one = np.array([float(np.asarray(path.attenuation(np.array([q])))[0]) for q in f])
                if not _same_factors(one, a1):
                    fail("history", [float(v) for v in a1], [float(v) for v in one],
                         "attenuation of an array differs from attenuation of its elements", extra=extra)
        elif st[0] == "read":
            fp = fresh_path()
            same = (float(path.tof) == float(fp.tof) and float(path.path_length) == float(fp.path_length)
                    and np.array_equal(path.emitted_direction, fp.emitted_direction)
                    and np.array_equal(path.received_direction, fp.received_direction)
                    and [complex(c) for c in path.fresnel] == [complex(c) for c in fp.fresnel])
            if not same:
                fail("history", None, None, "attributes of a used path object differ from a never-used path",
                     extra=extra)
        elif st[0] == "basis":
            b1 = path.propagate(polarization=pol)
            b2 = fresh_path().propagate(polarization=pol)
            if not all(np.array_equal(u, v) for u, v in zip(b1, b2)):
                fail("history", None, None, "polarisation vectors of a used path object differ from a never-used path",
                     extra=extra)


def _factor_gap(a, b):
    """distance between attenuation factors measured in the EXPONENT (a factor exp(-x) carries the rounding of x as a
    relative error x*eps, so tiny factors cannot be compared at a fixed relative tolerance); both zero = equal"""
    a = np.asarray(a, dtype=float); b = np.asarray(b, dtype=float)
    with np.errstate(all="ignore"):
        la, lb = np.log(a), np.log(b)
        gap = np.abs(la - lb) / (1.0 + np.abs(lb))
    gap = np.where((a == 0) & (b == 0), 0.0, gap)
    return np.where(np.isfinite(gap), gap, np.inf)


def _same_factors(a, b, tol=1e-11):
    a, b = np.asarray(a, dtype=float), np.asarray(b, dtype=float)
    return a.shape == b.shape and bool(np.all(_factor_gap(a, b) <= tol))


def search(run, deep):
    npaths = run.scale(40, 200) if not deep else 200
    done = 0
    guard = 0
    order = ["specialized", "basic", "uniform", "layered"]
    corners = corner_cases(run.rng)
    while (done < npaths or corners) and guard < 30 * npaths:
        guard += 1
        corner = bool(corners)
        if corners:
            case = corners.pop(0)
            run.count("search_corner_cases")
        else:
            case = gen_case(run.rng, tracer=order[guard % 4] if guard <= 8 else None)
        case["vseed"] = run.rng.getrandbits(31)
        paths, ice = make_paths(case)
        sols = list(enumerate(paths))
        if corner and not deep and len(sols) > 2:
            sols = [sols[0], sols[-1]]          # quick tier: first and last solution of a corner geometry
        for i, p in sols:
            run.case({"search": case, "sol": i}, sample={"tracer": case["tracer"], "from": case["from"],
                                                         "to": case["to"], "sol": i})
            run.count("search_" + case["tracer"])
            # quick tier: the (costly) histories and re-aiming sequences run on every second path
            case["_light"] = (not deep) and (done % 2 == 1)
            check_path(run, case, i, p, deep)
            done += 1
    flush_skips(run)


def k2_case():
    return {"tracer": "layered", "from": [0, 0, -600], "to": [150, 40, -50], "max_reflections": 1,
            "ice": {"kind": "layered", "above": 1, "below": None,
                    "layers": [{"kind": "uniform", "n": 1.3, "range": [-100.0, 0.0]},
                               {"kind": "uniform", "n": 1.78, "range": [-2000.0, -100.0]}]}}


def known_probes(run):
    """K2: the direct layered path from (0,0,-600) to (150,40,-50), n = 1.78 -> 1.3, has Fresnel factors > 1"""
    paths, ice = make_paths(k2_case())
    if not paths:
        run.notes.append("K2 probe: no layered solution found for the recorded geometry")
        return
    fr = [abs(complex(c)) for c in paths[0].fresnel]
    run.case({"probe": "K2"}, sample={"probe": "K2", "fresnel": fr})
    if max(fr) > 1 + 1e-9:
        run.known_finding("K2")
    else:
        run.notes.append("K2 probe: the recorded geometry no longer shows a factor > 1 (%s)" % fr)
    k27_probe(run)
    k26_probe(run)


def k26_probe(run):
    """K26: short nearly horizontal direct ray below z_uniform in Greenland ice: exponent 8 % above length / L_att"""
    case = {"tracer": "specialized", "ice": {"kind": "greenland"},
            "from": [438.4364097618236, -430.2656341067369, -417.8831960146711],
            "to": [425.10359246806445, -405.6917693131539, -417.5831960146711]}
    paths, _ = make_paths(case)
    if not paths or not paths[0].direct:
        run.notes.append("K26 probe: the recorded geometry has no direct solution any more")
        return
    p = paths[0]
    got = -math.log(float(np.asarray(p.attenuation(np.array([1e8])))[0]))
    bnd = exponent_bounds(p, "specialized", 1e8)
    run.case({"probe": "K26"}, sample={"probe": "K26", "exponent": got, "length_over_L": list(bnd),
                                      "theta0": float(p.theta0)})
    if got > bnd[1] * 1.015:
        run.known_finding("K26")
    else:
        run.notes.append("K26 probe: exponent %.6f is within path_length / L_att = %.6f now" % (got, bnd[1]))


def k27_probe(run):
    """K27: BasicRayTracer((0,0,-170),(430,0,-195)), turning solution: path 398.1 m < chord 430.7 m, exponent low"""
    rt, im, ps, li = mods()
    try:
        pb, _ = make_paths({"tracer": "basic", "ice": {"kind": "antarctic"}, "from": [0, 0, -170], "to": [430, 0, -195]})
        psp, _ = make_paths({"tracer": "specialized", "ice": {"kind": "antarctic"}, "from": [0, 0, -170],
                             "to": [430, 0, -195]})
    except Exception:      # noqa: BLE001
        return
    if not pb or not psp or pb[0].direct or psp[0].direct:
        run.notes.append("K27 probe: the recorded geometry has no turning solution any more")
        return
    eb = -math.log(float(np.asarray(pb[0].attenuation(np.array([3e8])))[0]))
    es = -math.log(float(np.asarray(psp[0].attenuation(np.array([3e8])))[0]))
    chord = math.sqrt(430.0 ** 2 + 25.0 ** 2)
    run.case({"probe": "K27"}, sample={"probe": "K27", "basic": [float(pb[0].path_length), eb],
                                      "specialized": [float(psp[0].path_length), es], "chord": chord})
    if eb < 0.97 * es or float(pb[0].path_length) < chord:
        run.known_finding("K27")
    else:
        run.notes.append("K27 probe: Basic and Specialized agree now (%.5f vs %.5f)" % (eb, es))


def corpus(run):
    """regression inputs of repaired defects: F22 (integer time grid), F11 (exactly vertical ray)"""
    rt, im, ps, li = mods()
    ok = True
    paths, _ = make_paths({"tracer": "specialized", "ice": {"kind": "antarctic"}, "from": [0, 0, -600],
                           "to": [300, 40, -50]})
    for p in paths[:1]:
        run.case({"corpus": "F22"}, sample={"corpus": "F22 Signal(range(8), ...) on the default tracer's path"})
        try:
            (a, b), _ = p.propagate(ps.Signal(range(8), [1, 0, 0, 0, 0, 0, 0, .5]), (0, 0, 1))
            good = (np.array_equal(np.array(a.times, dtype=float), np.arange(8) + float(p.tof))
                    and np.array_equal(np.array(b.times, dtype=float), np.arange(8) + float(p.tof)))
        except Exception as e:      # noqa: BLE001
            good = False
            run.notes.append("corpus F22: %r" % e)
        if not good:
            ok = False
            run.fail_input("corpus-F22", {"tracer": "specialized", "ice": {"kind": "antarctic"}, "from": [0, 0, -600],
                                          "to": [300, 40, -50], "sol": 0, "oracle": "propagate"},
                           what="F22 recurred: Signal(range(8), ...) is not propagated onto range(8) + tof")
    vp, _ = make_paths({"tracer": "specialized", "ice": {"kind": "antarctic"}, "from": [10, -20, -400],
                        "to": [10, -20, -100]})
    for p in vp[:1]:
        run.case({"corpus": "F11"}, sample={"corpus": "F11 exactly vertical ray"})
        us, up1 = p.propagate(polarization=(1, 0, 0))
        if not np.allclose([float(np.dot(us, us)), float(np.dot(up1, up1)), float(np.dot(us, up1))], [1, 1, 0],
                           atol=1e-12):
            ok = False
            run.fail_input("corpus-F11", {"tracer": "specialized", "ice": {"kind": "antarctic"},
                                          "from": [10, -20, -400], "to": [10, -20, -100], "sol": 0},
                           what="F11 recurred: the vertical ray has no orthonormal polarisation basis")
    return ok


def replay(run, data):
    case = dict(data["input"])
    case.pop("oracle", None)      # re-evaluate every oracle on the recorded path
    paths, ice = make_paths(case)
    idx = case.get("sol", 0)
    if idx >= len(paths):
        run.fail_input("replay-no-path", case, what="the recorded ray solution no longer exists")
        return
    check_path(run, case, idx, paths[idx], True)
