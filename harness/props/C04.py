"""C04 - signals keep times and values aligned, copy independently and combine pointwise.

Exact differential run of lean/PyrexVerif/D/Signals.lean (driver lean/Drivers/C04.lean) against
pyrex.signals: random operation histories over a pool of Signal / EmptySignal / FunctionSignal /
GaussianNoise / user-subclass objects with dyadic times and values; after every step the values, the
value types, the classes AND the alias graph (np.shares_memory / `is` over every times, values,
_functions, _t0s, _buffers, _factors, _filters object and the caller's arrays) are compared with the
model.  The search oracle works on the implementation alone: it mutates every array/list of every
result and operand in place and watches all others, and re-derives values independently."""
import operator
import warnings
from fractions import Fraction

import framework as fw

LEVEL = "proof"
TECHNIQUE = "Lean 4 object-graph model + exact differential run with alias-graph probe"
RULE = ("random operation histories (length <= 12, thorough <= 16) over a pool of signals built on 2-3 "
        "time grids per history (lengths 0-6, uniform and non-uniform, negative / huge offsets, dyadic "
        "entries), value arrays of mismatched length, all four value types and the classes Signal, "
        "EmptySignal, FunctionSignal, GaussianNoise, a Signal subclass and a FunctionSignal subclass "
        "overriding __radd__; operations: constructors, copy, +, 0+s, s+0, sum, *, reflected *, /, *=, /=, "
        "with_times, shift, FunctionSignal.filter_frequencies / set_buffers, and composite steps that filter (and buffer) a "
        "function-backed signal and add it to a sampled signal on the same grid in either order, or re-grid the SAME object "
        "repeatedly onto grids of equal length and end points (once more after an in-place scaling); generating functions as plain functions, stateful callable objects or functools.partial, incl. functions that "
        "write to their argument in place; an EmptySignal on the LEFT of a function-backed operand (+, +=, sum with "
        "start) with the result copied / scaled / shifted and re-gridded; array arguments as "
        "ndarray / list / tuple, value types as name / Enum member / int, scale factors as Python or numpy scalars or 0-d "
        "arrays incl. 1, 0.1 and division by 3; a step is non-trivial when "
        "it creates or mutates an object (errors and refusals are counted separately); distinct = "
        "distinct (history prefix, operation) pairs")
LEVEL_TEXT = ("theorems about the executable object-graph model (every constructor/operation keeps "
              "len(values)=len(times), results are freshly allocated, addition/scaling/re-gridding are "
              "pointwise/interp0, no sharing after any history); the model is tied to pyrex.signals by an "
              "exact differential run that compares values and the complete alias partition after every step")
LEVEL_NOTE = ("Assumed: numpy array allocation/copy semantics (np.array copies, slicing gives views, "
              "np.concatenate allocates), np.interp = piecewise linear on non-decreasing grids, CPython "
              "binary-operator dispatch and copy.deepcopy of lists of numbers/functions.  Signal.resample, "
              "envelope, spectrum and FFT filtering of sampled signals (C05) are outside the model; "
              "function-backed signals are built from plain functions, from stateful callable objects (a template with amplitude / "
              "table attributes) and from functools.partial over a mutable parameter list - a new object per signal, in the "
              "initial state equal to a pool function; the Lean step model sees only the pool code (function identity and "
              "state are carried by the small model Sig.deepcopyFns and by the poke oracle, which edits every function "
              "object in place and watches all other signals); they are evaluated for a pool of eleven functions (two of them write to their argument in place, four accept scalar times only and raise TypeError / ValueError on arrays, so that the one-at-a-time fallback of FunctionSignal.values is exercised) and scalar-gain filters.  "
              "Arrays hold float64 values and are handed over as ndarray, list or tuple; value types as name, Enum member or int; "
              "scale factors as Python int/float, numpy float64/int64 scalar or 0-d array "
              "(integer / float32 dtype arrays make `*=`/`+=` with a float raise or round and are excluded).  "
              "No theorem is partial.  Hypotheses of the theorems and what the real code does at the excluded points: "
              "`values` undefined (fewer than two samples: K15; equal first samples) -> the code raises, the model "
              "refuses (C04_add_undefined_values_refused, C04_fn_values_undefined); empty grids in with_times -> "
              "ValueError / IndexError, proved as error branches; division by Python 0 -> ZeroDivisionError for "
              "function-backed signals (proved, in the histories), IEEE inf/nan for sampled ones and for numpy zeros "
              "(outside Q; probe checks shape and independence only); strictly increasing grid in the interp0 theorems "
              "-> outside the claim (ordered sample times are presupposed by the clause; np.interp returns garbage silently on "
              "decreasing / shuffled grids of sampled signals, duplicates give the last duplicate's value; not asserted); "
              "function-backed and empty signals ARE run on decreasing grids; integer dtype -> shift by a float raises TypeError, *= "
              "falls back to a scaled copy (probes).  Kept away from: filters on grids with offsets >= 1e5 (the FFT round-off of "
              "values of magnitude 1e9 survives cancellation in later sums; float rounding is not modelled); shifts of grids "
              "on which t+d is not exact in float64 (counter shift_skipped_inexact_grid).")
EXTRACTORS = []
CHECKER_MODULES = ["PyrexVerif.Proofs.SignalsThms", "PyrexVerif.Proofs.SignalsInterp", "PyrexVerif.Proofs.FnAlgebra"]
ASSUMPTIONS = ["the own grid of a SAMPLED signal is non-decreasing: the property's re-gridding clause ('between samples', "
               "'outside the original span') presupposes ordered sample times; on a decreasing or shuffled grid "
               "Signal/GaussianNoise.with_times silently returns np.interp's garbage - an observation outside the claim, "
               "nothing is asserted about it; function-backed and empty signals ARE run on decreasing grids",
               "arrays are float64; scalars are Python ints/floats",
               "temporaries allocated and dropped inside one operation are not given identities in the model"]

VTS = ["undefined", "voltage", "field", "power"]


def _sig():
    import pyrex.signals as S
    return S


_cache = {}


def env():
    """classes, function pool, filter pool (created once)"""
    if _cache:
        return _cache
    import numpy as np
    S = _sig()

    class UserSig(S.Signal):
        def __radd__(self, other):
            return super().__radd__(other)

    class UserFunc(S.FunctionSignal):
        def __radd__(self, other):
            return super().__radd__(other)

    def f0(t):
        return t

    def f1(t):
        return t * t

    def f2(t):
        return np.ones(len(t))

    def f3(t):
        return 2 * t + 1

    def f4(t):
        return np.abs(t)

    def f5(t):  # scalar only: exercises the one-at-a-time fallback
        if isinstance(t, np.ndarray):
            raise TypeError("scalar only")
        return 1.0 if t >= 0 else 0.0

    import math

    def f6(t):  # scalar only through math.*: TypeError ("only length-1 arrays can be converted") on arrays
        return math.fabs(t) + 2 * t

    def f7(t):  # scalar only through a branch: ValueError ("truth value of an array is ambiguous") on arrays
        if t < 0:
            return -2 * t
        return t * t

    def f8(t):  # scalar only, branch on the sign of t
        return 3 * t + 1 if t >= 0 else 1 - t

    def f9(t):  # re-centres ITS ARGUMENT in place (harmless as long as it receives a temporary array)
        t -= 2.0
        return t * t

    def f10(t):  # rescales its argument in place
        t *= 2.0
        return t + 1.0

    def g0(f):
        return 0.5 * np.ones(len(f))

    def g1(f):
        return 2.0 * np.ones(len(f))

    def g2(f):
        return -1.0 * np.ones(len(f))

    def g3(f):  # scalar only
        if isinstance(f, np.ndarray):
            raise ValueError("scalar only")
        return 1.0
    import functools

    class Template:
        """a STATEFUL callable object used as signal function: amplitude * base(t) + table[0]; in its initial state
        (amplitude 1, table[0] 0) it evaluates exactly like the pool function `base`"""

        def __init__(self, base):
            self.base = base
            self.amplitude = 1.0
            self.table = [0.0, 1.0]

        def __call__(self, t):
            return self.amplitude * self.base(t) + self.table[0]

    def param_fn(params, base, t):      # for functools.partial(param_fn, [amplitude, offset], base)
        return params[0] * base(t) + params[1]
    _cache.update(Template=Template, param_fn=param_fn, partial=functools.partial)
    _cache.update(np=np, S=S, UserSig=UserSig, UserFunc=UserFunc,
                  fns=[f0, f1, f2, f3, f4, f5, f6, f7, f8, f9, f10], gains=[g0, g1, g2, g3],
                  gainv=[0.5, 2.0, -1.0, 1.0])
    _cache["clsname"] = {S.Signal: "signal", S.EmptySignal: "empty", S.FunctionSignal: "func",
                         S.GaussianNoise: "gauss", UserSig: "userSig", UserFunc: "userFunc"}
    return _cache


def fn_parts(f):
    """(pool code, amplitude, offset, mutable state objects) of a signal function: a plain pool function, a
    Template instance or a functools.partial over a parameter list"""
    E = env()
    if isinstance(f, E["Template"]):
        return E["fns"].index(f.base), f.amplitude, f.table[0], [f]
    if isinstance(f, E["partial"]):
        return E["fns"].index(f.args[1]), f.args[0][0], f.args[0][1], [f.args[0]]
    return E["fns"].index(f), 1.0, 0.0, []


def fn_sig(f):
    """state signature of a signal function (identity for plain functions, content for stateful callables)"""
    E = env()
    if isinstance(f, E["Template"]):
        return ("Template", E["fns"].index(f.base), f.amplitude, tuple(f.table))
    if isinstance(f, E["partial"]):
        return ("partial", E["fns"].index(f.args[1]), tuple(f.args[0]))
    return ("plain", id(f))


def frac(x):
    return Fraction(float(x))


def ftok(x):
    f = x if isinstance(x, Fraction) else frac(x)
    return "%d/%d" % (f.numerator, f.denominator)


def vt_name(s):
    return s.value_type.name if s.value_type.name != "unknown" else "undefined"


# ------------------------------------------------------------------------------------------------
# implementation side: one history = pool of objects + caller-owned arrays
class HarnessProblem(Exception):
    """an exception raised by harness code: reported as a broken check, never as a failing input of pyrex"""


def crash_origin(exc):
    """'repo' when the innermost pyrex/harness frame of the traceback lies in the tree under test, else 'harness'"""
    import os
    import traceback
    repo = os.path.realpath(fw.REPO) + os.sep
    here = os.path.realpath(os.path.dirname(os.path.dirname(os.path.abspath(__file__)))) + os.sep
    for fr in reversed(traceback.extract_tb(exc.__traceback__)):
        f = os.path.realpath(fr.filename)
        if f.startswith(repo):
            return "repo", "%s:%d %s" % (os.path.relpath(f, repo), fr.lineno, fr.name)
        if f.startswith(here):
            return "harness", "%s:%d %s" % (os.path.relpath(f, here), fr.lineno, fr.name)
    return "harness", "?"


class Impl:
    def __init__(self):
        self.objs = []
        self.exts = []

    # ---- snapshot in the canonical form shared with the model dump
    def slots(self):
        """(key, python object) for every array/list identity that is part of the object graph"""
        E = env()
        out = [(("ext", i), a) for i, a in enumerate(self.exts)]
        for k, s in enumerate(self.objs):
            out.append((("times", k), s.times))
            if isinstance(s, E["S"].FunctionSignal):
                out += [(("fns", k), s._functions), (("t0s", k), s._t0s), (("bufs", k), s._buffers),
                        (("facs", k), s._factors), (("filts", k), s._filters)]
                out += [(("buf", k, i), b) for i, b in enumerate(s._buffers)]
                out += [(("filt", k, i), b) for i, b in enumerate(s._filters)]
            else:
                out.append((("vals", k), s.values))
        return out

    def partition(self):
        np = env()["np"]
        sl = self.slots()
        parent = list(range(len(sl)))

        def find(i):
            while parent[i] != i:
                parent[i] = parent[parent[i]]
                i = parent[i]
            return i
        for i in range(len(sl)):
            for j in range(i):
                a, b = sl[i][1], sl[j][1]
                if isinstance(a, np.ndarray) and isinstance(b, np.ndarray):
                    sh = np.shares_memory(a, b)
                else:
                    sh = a is b
                if sh:
                    parent[find(i)] = find(j)
        groups = {}
        for i in range(len(sl)):
            groups.setdefault(find(i), []).append(sl[i][0])
        return sorted(sorted(map(str, g)) for g in groups.values())

    def values_of(self, s):
        try:
            with warnings.catch_warnings():
                warnings.simplefilter("ignore")
                return [float(v) for v in s.values]
        except (TypeError, ValueError):     # dt is None / NaN (K15, equal first samples), negative point counts
            return "raise"

    def snapshot(self):
        E = env()
        res = {"nobj": len(self.objs), "exts": [[frac(x) for x in a] for a in self.exts], "objs": []}
        for s in self.objs:
            o = {"cls": E["clsname"].get(type(s), "?" + type(s).__name__), "vt": vt_name(s),
                 "times": [frac(x) for x in s.times], "values": self.values_of(s)}
            if isinstance(s, E["S"].FunctionSignal):
                o["fns"] = [fn_parts(f)[0] for f in s._functions]
                o["t0s"] = [frac(x) for x in s._t0s]
                o["facs"] = [frac(x) for x in s._factors]
                o["bufs"] = [[frac(x) for x in b] for b in s._buffers]
                o["filts"] = [[E["gains"].index(f[0]) for f in g] for g in s._filters]
            else:
                o["vals"] = [float(v) for v in s.values]
            res["objs"].append(o)
        res["partition"] = self.partition()
        return res

    # ---- container / enum forms of the arguments (deterministic in the position within the history, so that
    #      replays see the same forms): ndarray, list, tuple for array arguments; name, Enum member, int for types
    def form(self, arr, salt=0):
        sel = (len(self.objs) * 3 + len(self.exts) + salt) % 5
        if sel == 3:
            return [float(x) for x in arr]
        if sel == 4:
            return tuple(float(x) for x in arr)
        return arr

    def scalar_form(self, q):
        """Python int/float, numpy float64 / int64 scalar or 0-d array"""
        np = env()["np"]
        if q == 0 and isinstance(q, (int, float)) and getattr(self, "_dividing", False):
            return q        # (a numpy zero makes inf/nan factors instead of ZeroDivisionError: IEEE, outside ℚ)
        sel = (2 * len(self.objs) + len(self.exts)) % 6
        if sel == 2:
            return np.float64(q)
        if sel == 3:
            return np.array(float(q))
        if sel == 4 and float(q) == int(q):
            return np.int64(int(q))
        return q        # (float32 scalars are excluded: numpy promotion makes every later factor float32)

    def vt_form(self, vt):
        S = env()["S"]
        sel = (len(self.objs) + 2 * len(self.exts)) % 4
        if vt == "undefined":
            return [None, None, S.Signal.Type.undefined, 0][sel]
        member = S.Signal.Type[vt]
        return [vt, vt, member, member.value][sel]

    # ---- operations; each returns the reply string in the model's vocabulary
    def ident(self, r):
        for j, o in enumerate(self.objs):
            if o is r:
                return "obj %d" % j
        self.objs.append(r)
        return "obj %d" % (len(self.objs) - 1)

    def guarded(self, fn):
        try:
            with warnings.catch_warnings():
                warnings.simplefilter("ignore")
                r = fn()
        except ValueError as e:
            m = str(e)
            if "different times" in m:
                return "errTimes"
            if "different value types" in m:
                return "errTypes"
            return "raise"
        except TypeError:
            return "typeError"
        except (IndexError, ZeroDivisionError):
            return "raise"
        except Exception as e:      # anything else: a crash of the implementation on a valid call form ...
            where, at = crash_origin(e)
            if where == "repo":
                return "crash:" + type(e).__name__
            raise HarnessProblem("%s: %r" % (at, e))      # ... or a defect of this harness (never a failing input)
        if r is None:
            return "unit"
        return self.ident(r)

    def apply(self, op):
        E = env()
        np, S = E["np"], E["S"]
        k = op[0]
        if k == "ext":
            self.exts.append(np.array([float(x) for x in op[1]], dtype=float))
            return "ext"
        if k == "mk":
            cls, t, v, vt = op[1:]
            ta, va = self.form(self.exts[t]), self.form(self.exts[v], 1)
            vtarg = self.vt_form(vt)
            if cls == "gauss":
                tape = list(va)
                orig = np.random.normal
                np.random.normal = lambda loc, scale, size=None: np.array(tape[:size], dtype=float)
                try:
                    return self.guarded(lambda: S.GaussianNoise(ta, 1.0))
                finally:
                    np.random.normal = orig
            c = {"signal": S.Signal, "userSig": E["UserSig"]}[cls]
            return self.guarded(lambda: c(ta, va, vtarg))
        if k == "mkEmpty":
            t, vt = op[1:]
            return self.guarded(lambda: S.EmptySignal(self.form(self.exts[t]), self.vt_form(vt)))
        if k == "mkFunc":
            cls, t, fn, vt = op[1:]
            c = {"func": S.FunctionSignal, "userFunc": E["UserFunc"]}[cls]
            # the generating function as a plain function, as a stateful callable OBJECT or as a functools.partial
            # over a mutable parameter list (a new object per signal; deterministic in the position in the history)
            sel = (len(self.objs) + 2 * len(self.exts)) % 3
            base = E["fns"][fn]
            func = base if sel == 0 else (E["Template"](base) if sel == 1 else E["partial"](E["param_fn"], [1.0, 0.0], base))
            return self.guarded(lambda: c(self.form(self.exts[t]), func, self.vt_form(vt)))
        if k == "copy":
            return self.guarded(lambda: self.objs[op[1]].copy())
        if k == "add":
            def val(x):
                return self.objs[x[1]] if x[0] == "o" else x[1]
            sel = (len(self.objs) + len(self.exts)) % 3
            if sel == 1 and op[1][0] == "o" and op[2][0] == "o":
                def iadd():                 # `w = a; w += b` (no __iadd__: falls back to __add__, `a` is untouched)
                    w = val(op[1])
                    w += val(op[2])
                    return w
                return self.guarded(iadd)
            if sel == 2 and op[1][0] == "o" and op[2][0] == "o" and isinstance(val(op[1]), env()["S"].EmptySignal):
                return self.guarded(lambda: sum([val(op[2])], val(op[1])))      # sum(..., start=empty)
            return self.guarded(lambda: val(op[1]) + val(op[2]))
        if k == "mul":
            return self.guarded(lambda: self.objs[op[1]] * self.scalar_form(op[2]))
        if k == "rmul":
            return self.guarded(lambda: self.scalar_form(op[1]) * self.objs[op[2]])
        if k in ("div", "idiv"):
            self._dividing = True
            try:
                q = self.scalar_form(op[2])
            finally:
                self._dividing = False
            if k == "div":
                return self.guarded(lambda: self.objs[op[1]] / q)
            return self.guarded(lambda: operator.itruediv(self.objs[op[1]], q))
        if k == "div":
            return self.guarded(lambda: self.objs[op[1]] / self.scalar_form(op[2]))
        if k == "imul":
            return self.guarded(lambda: operator.imul(self.objs[op[1]], self.scalar_form(op[2])))
        if k == "idiv":
            return self.guarded(lambda: operator.itruediv(self.objs[op[1]], self.scalar_form(op[2])))
        if k == "withTimes":
            return self.guarded(lambda: self.objs[op[1]].with_times(self.form(self.exts[op[2]])))
        if k == "shift":
            return self.guarded(lambda: self.objs[op[1]].shift(op[2]))
        if k == "filter":
            return self.guarded(lambda: self.objs[op[1]].filter_frequencies(E["gains"][op[2]], force_real=op[2] % 2 == 0))
        if k == "setBuffers":
            return self.guarded(lambda: self.objs[op[1]].set_buffers(leading=op[2], trailing=op[3], force=op[4]))
        raise KeyError(k)


def op_line(op):
    k = op[0]
    if k == "ext":
        return "ext " + " ".join(ftok(x) for x in op[1])
    if k == "mk":
        return "mk %s e%d e%d %s" % (op[1], op[2], op[3], "voltage" if op[1] == "gauss" else op[4])
    if k == "mkEmpty":
        return "mkEmpty e%d %s" % (op[1], op[2])
    if k == "mkFunc":
        return "mkFunc %s e%d %d %s" % (op[1], op[2], op[3], op[4])
    if k == "copy":
        return "copy %d" % op[1]
    if k == "add":
        def t(x):
            return "o%d" % x[1] if x[0] == "o" else "n" + ftok(x[1])
        return "add %s %s" % (t(op[1]), t(op[2]))
    if k in ("mul", "div", "imul", "idiv"):
        return "%s %d %s" % (k, op[1], ftok(op[2]))
    if k == "rmul":
        return "rmul %s %d" % (ftok(op[1]), op[2])
    if k == "withTimes":
        return "withTimes %d e%d" % (op[1], op[2])
    if k == "shift":
        return "shift %d %s" % (op[1], ftok(op[2]))
    if k == "filter":
        return "filter %d %d" % (op[1], op[2])
    if k == "setBuffers":
        return "setBuffers %d %s %s %d" % (op[1], "none" if op[2] is None else ftok(op[2]),
                                           "none" if op[3] is None else ftok(op[3]), op[4])
    raise KeyError(k)


# ------------------------------------------------------------------------------------------------
# generators
def gen_grid(rng):
    n = rng.choice([0, 1, 2, 2, 3, 3, 4, 4, 5, 6])
    start = rng.choice([0.0, 0.0, -2.5, 1.0, -8.0, 3.25, float(2 ** 20), -float(2 ** 30) + 0.5])
    if rng.random() < 0.7:
        dt = rng.choice([0.25, 0.5, 0.5, 1.0, 1.0, 2.0, 0.75, 1.5])
        return [start + dt * i for i in range(n)]
    out, t = [], start
    for _ in range(n):
        out.append(t)
        t += rng.choice([0.25, 0.5, 1.0, 1.5, 3.0])
    return out


def gen_values(rng, n):
    m = max(0, n + rng.choice([0, 0, 0, 0, -1, -2, 1, 2, -n]))
    return [rng.randint(-16, 16) / 4.0 for _ in range(m)]


def regrid(rng, g):
    """a grid related to `g`: sub-grid, refinement, shifted or overlapping copy"""
    if len(g) < 2 or rng.random() < 0.15:
        return gen_grid(rng)
    if rng.random() < 0.35:
        return partial_share(rng, g)
    r = rng.random()
    if r < 0.3:      # contiguous sub-grid (FunctionSignal then sets buffers)
        a = rng.randint(0, len(g) - 1)
        b = rng.randint(a, len(g))
        return g[a:b]
    if r < 0.55:     # refinement incl. midpoints
        out = []
        for x, y in zip(g, g[1:]):
            out += [x, (x + y) / 2]
        return out + [g[-1]]
    if r < 0.8:      # sticks out on both sides
        d = g[1] - g[0]
        return [g[0] - d] + [x + d / 4 for x in g] + [g[-1] + 2 * d]
    d = rng.choice([-1.0, 0.25, 4.0])
    return [x + d for x in g]


def partial_share(rng, g):
    """a grid that shares SOME BUT NOT ALL of (length, first time, last time, interior points, spacing) with
    `g` (len(g) >= 2): the cases a shortcut like "same length and same end points => same grid" gets wrong"""
    import numpy as np
    n = len(g)
    kind = rng.randrange(8)
    if kind == 0 and n >= 3:      # same length, same end points, some interior points moved (others shared)
        out = list(g)
        moved = False
        for i in range(1, n - 1):
            if rng.random() < 0.6:
                out[i] = g[i] + (g[i + 1] - g[i]) * rng.choice([0.5, 0.25]) if rng.random() < 0.5 \
                    else g[i] - (g[i] - g[i - 1]) * rng.choice([0.5, 0.25])
                moved = True
        if not moved:
            out[1] = (g[1] + g[2]) / 2 if n > 3 else g[1] + (g[2] - g[1]) / 2
        return out
    if kind == 1:                 # regularised: uniform grid of the same length over the same span
        return [float(x) for x in np.linspace(g[0], g[-1], n)]
    if kind == 2:                 # same span, one sample more / fewer
        return [float(x) for x in np.linspace(g[0], g[-1], max(2, n + rng.choice([-1, 1, 2])))]
    if kind == 3:                 # same length and first time, other spacing (last time differs)
        d = (g[1] - g[0]) * rng.choice([0.5, 2.0, 0.75])
        return [g[0] + d * i for i in range(n)]
    if kind == 4:                 # same length and last time, other spacing (first time differs)
        d = (g[1] - g[0]) * rng.choice([0.5, 2.0, 0.75])
        return [g[-1] - d * (n - 1 - i) for i in range(n)]
    if kind == 5:                 # same interior points, end points moved (by one ulp or by a quarter step)
        out = list(g)
        if rng.random() < 0.5:
            out[0] = float(np.nextafter(g[0], -np.inf if rng.random() < 0.5 else np.inf))
            out[-1] = float(np.nextafter(g[-1], np.inf if rng.random() < 0.5 else -np.inf))
        else:
            out[0] = g[0] - (g[1] - g[0]) / 4
            out[-1] = g[-1] + (g[-1] - g[-2]) / 4
        return out
    if kind == 6 and n >= 3:      # irregular version of the grid: same length and end points, random interior
        inner = sorted(g[0] + (g[-1] - g[0]) * rng.randint(1, 63) / 64.0 for _ in range(n - 2))
        if len(set(inner)) == len(inner) and inner[0] > g[0] and inner[-1] < g[-1]:
            return [g[0]] + inner + [g[-1]]
    # the identical grid as a different array object
    return list(g)


SCALARS = [2.0, 0.5, -1.0, 4.0, 0.25, 3.0, 1.5, 0.0, 2, -3, 1, 1.0, 0.1]
DIVISORS = [2.0, 4.0, 0.5, -2.0, 2, 8.0, -0.25, 1, 1.0, -1.0, 3.0, 3]


def gen_history(run, im, nsteps):
    """generate and execute one history on the implementation; returns [(op, reply, snapshot)]"""
    rng = run.rng
    np = env()["np"]
    grids = [gen_grid(rng) for _ in range(rng.choice([1, 2, 2, 3]))]
    # DECREASING grids: np.interp (sampled signals) has no meaning there, but function-backed and empty signals do -
    # such histories only build function-backed signals
    decreasing = rng.random() < 0.08
    if decreasing:
        grids = [list(reversed(g)) for g in grids]
        run.count("history_on_decreasing_grids")
    if rng.random() < 0.5:
        grids.append(list(grids[0]))          # equal content, different array object
    ext_of_grid = {}
    trace = []

    def do(op):
        rep = im.apply(op)
        trace.append((op, rep, im.snapshot()))
        return rep

    def ext(values):
        do(("ext", [frac(x) for x in values]))
        return len(im.exts) - 1

    def grid_ext(i):
        if i not in ext_of_grid or rng.random() < 0.2:
            ext_of_grid[i] = ext(grids[i])
        return ext_of_grid[i]

    def new_signal():
        gi = 0 if rng.random() < 0.6 else rng.randrange(len(grids))
        t = grid_ext(gi)
        vt = rng.choice(VTS + ["undefined", "voltage"])
        r = rng.random()
        if decreasing:
            r = 0.6 + 0.4 * r      # function-backed only (a scaled EmptySignal would be a sampled Signal)
        if r < 0.35:
            v = ext(gen_values(rng, len(grids[gi])))
            do(("mk", rng.choice(["signal", "signal", "userSig"]), t, v, vt))
        elif r < 0.45:
            v = ext([rng.randint(-8, 8) / 4.0 for _ in range(len(grids[gi]))])
            do(("mk", "gauss", t, v, "voltage"))
        elif r < 0.6:
            do(("mkEmpty", t, vt))
        else:
            do(("mkFunc", rng.choice(["func", "func", "userFunc"]), t, rng.choice([0, 1, 2, 3, 4, 5, 5, 6, 6, 7, 7, 8, 8, 9, 9, 9, 10, 10]), vt))

    for _ in range(rng.choice([2, 3, 3, 4])):
        new_signal()
    S = env()["S"]
    nsteps += len(trace)          # the set-up does not count
    while len(trace) < nsteps:
        n = len(im.objs)
        if n == 0:
            new_signal()
            continue
        k = rng.randrange(n)
        r = rng.random()
        if r < 0.08:
            new_signal()
        elif r < 0.18:
            do(("copy", k))
        elif r < 0.42:
            q = rng.random()
            if q < 0.72:
                do(("add", ("o", k), ("o", rng.randrange(n))))
            elif q < 0.84:
                do(("add", ("n", rng.choice([0, 0, 0.0, 1, 2.5])), ("o", k)))
            elif q < 0.9:
                do(("add", ("o", k), ("n", rng.choice([0, 1]))))
            else:           # sum([a, b]) = (0 + a) + b
                j = rng.randrange(n)
                if do(("add", ("n", 0), ("o", k))) == "obj %d" % k:
                    do(("add", ("o", k), ("o", j)))
        elif r < 0.5:
            do(("mul", k, rng.choice(SCALARS)))
        elif r < 0.55:
            do(("rmul", rng.choice(SCALARS), k))
        elif r < 0.61:
            if (isinstance(im.objs[k], S.FunctionSignal) and rng.random() < 0.1
                    and all(type(f) in (int, float) for f in im.objs[k]._factors)):   # (numpy factors give inf instead)
                do((rng.choice(["div", "idiv"]), k, rng.choice([0, 0.0])))     # ZeroDivisionError, nothing changes
                run.count("division_by_zero_function_backed")
            else:
                do(("div", k, rng.choice(DIVISORS)))
        elif r < 0.67:
            do(("imul", k, rng.choice(SCALARS)))
        elif r < 0.71:
            do(("idiv", k, rng.choice(DIVISORS)))
        elif r < 0.85:
            g = [float(x) for x in im.objs[k].times]
            do(("withTimes", k, ext(regrid(rng, g))))
        elif r < 0.90:
            d = rng.choice([0.25, -0.5, 1.0, 2.0, -3.0, 0.75])
            # the model shifts exactly; only shift grids on which the float addition is exact too (grids whose
            # end points were moved by one ulp, or linspace grids, may round)
            if all(Fraction(float(t)) + Fraction(d) == Fraction(float(t + d)) for t in im.objs[k].times):
                do(("shift", k, d))
            else:
                run.count("shift_skipped_inexact_grid")
        elif decreasing and r < 0.945:
            continue
        elif r < 0.915:
            # the SAME object re-gridded repeatedly onto grids that agree in length and end points (and once more
            # after its values changed in place): anything remembered between the calls shows up here
            eager = [i for i, o in enumerate(im.objs) if not isinstance(o, S.FunctionSignal) and len(o.times) >= 3]
            if not eager:
                continue
            k = rng.choice(eager)
            g = [float(x) for x in im.objs[k].times]
            span = [g[0]] + sorted(g[0] + (g[-1] - g[0]) * rng.randint(1, 31) / 32.0 for _ in range(len(g) - 2)) + [g[-1]]
            if len(set(span)) != len(span):
                continue
            do(("withTimes", k, ext(span)))
            do(("withTimes", k, ext([float(x) for x in __import__("numpy").linspace(g[0], g[-1], len(g))])))
            if im.objs[k].values.dtype.kind == "f" and rng.random() < 0.7:
                do(("imul", k, rng.choice([2.0, -1.0, 0.5])))
            do(("withTimes", k, ext(span)))
            run.count("regrid_same_object_repeatedly")
        elif r < 0.935 and r >= 0.925 and not decreasing:
            # a function-backed signal plus its own DELAYED copies: g = f.copy(); g.shift(d); g = g.with_times(f.times);
            # f + g (both orders), sums of several delayed copies, the sum re-gridded.  The components then share the
            # function object (plain functions survive deepcopy), buffers and filters and differ only in the offset.
            fs = [i for i, s in enumerate(im.objs) if isinstance(s, S.FunctionSignal) and len(s.times) >= 2
                  and all(np.diff(s.times) > 0)]
            plain = [i for i in fs if not any(fn_parts(f)[3] for f in im.objs[i]._functions)]
            if not fs:
                continue
            k = rng.choice(plain or fs)
            f = im.objs[k]
            g = [float(x) for x in f.times]
            dt = g[1] - g[0]
            grid = ext(g)
            parts = [k]
            for _ in range(rng.choice([1, 1, 2])):
                d = dt * rng.choice([1.0, 2.0, 3.0, 0.25, 0.375, -0.5, 5.0])     # whole samples and sub-sample delays
                if not all(Fraction(float(t)) + Fraction(d) == Fraction(float(t + d)) for t in g):
                    continue
                if not do(("copy", k)).startswith("obj "):
                    break
                c = len(im.objs) - 1
                do(("shift", c, d))
                rep = do(("withTimes", c, grid))
                if rep.startswith("obj "):
                    parts.append(int(rep.split()[1]))
            if len(parts) >= 2:
                order = list(parts)
                if rng.random() < 0.5:
                    order.reverse()
                rep = do(("add", ("o", order[0]), ("o", order[1])))
                for nxt in order[2:]:
                    if rep.startswith("obj "):
                        rep = do(("add", ("o", int(rep.split()[1])), ("o", nxt)))
                if rep.startswith("obj ") and rng.random() < 0.7:
                    do(("withTimes", int(rep.split()[1]), ext(regrid(rng, g))))
                run.count("sum_with_own_delayed_copy")
        elif r < 0.925 and not decreasing:
            fs = [i for i, s in enumerate(im.objs) if isinstance(s, S.FunctionSignal) and len(s.times) >= 2]
            if not fs:
                continue
            k = rng.choice(fs)
            g = [float(x) for x in im.objs[k].times]
            if do(("mkEmpty", ext(g), rng.choice(["undefined", vt_name(im.objs[k])]))).startswith("obj "):
                e = len(im.objs) - 1
                rep = do(("add", ("o", e), ("o", k)))          # empty + f  (also as `w += f` / sum([f], empty))
                do(("add", ("o", k), ("o", e)))                # f + empty must agree
                if rep.startswith("obj "):
                    m = int(rep.split()[1])
                    q = rng.random()
                    if q < 0.3:
                        do(("copy", m))
                        m = len(im.objs) - 1
                    elif q < 0.6:
                        do(("mul", m, rng.choice([2.0, 0.5, -1.0])))
                        m = len(im.objs) - 1
                    elif q < 0.8 and all(Fraction(float(t)) + Fraction(0.5) == Fraction(float(t + 0.5)) for t in im.objs[m].times):
                        do(("shift", m, 0.5))
                    do(("withTimes", m, ext(regrid(rng, [float(x) for x in im.objs[m].times]))))
                run.count("empty_left_of_function_backed")
        elif r < 0.945:
            # mixed history: a FILTERED (and possibly buffered) function-backed signal combined with a sampled
            # signal on the same grid, in both operand orders, then scaled and re-gridded
            # (filters run through an FFT: on grids with offsets of 1e6 and more its round-off, 1e-16 of values of
            #  magnitude 1e9..1e18, survives cancellations in later sums - such grids are never filtered)
            fs = [i for i, s in enumerate(im.objs) if isinstance(s, S.FunctionSignal) and len(s.times) >= 2
                  and max(abs(float(x)) for x in s.times) < 1e5]
            if not fs:
                continue
            k = rng.choice(fs)
            f = im.objs[k]
            if not any(len(g) for g in f._filters) or rng.random() < 0.4:
                do(("filter", k, rng.randrange(4)))
            if rng.random() < 0.4:
                do(("setBuffers", k, rng.choice([0.5, 1.0, 2.5]), rng.choice([None, 1.0]), 0))
            g = [float(x) for x in f.times]
            t = ext(g)
            v = ext(gen_values(rng, len(g)))
            if do(("mk", "signal", t, v, rng.choice(["undefined", vt_name(f)]))).startswith("obj "):
                j = len(im.objs) - 1
                order = (("o", k), ("o", j)) if rng.random() < 0.5 else (("o", j), ("o", k))
                rep = do(("add",) + order)
                run.count("mixed_filtered_func_plus_sampled")
                if rep.startswith("obj ") and rng.random() < 0.6:
                    m = int(rep.split()[1])
                    do(("mul", m, rng.choice(SCALARS)))
                    do(("withTimes", m, ext(regrid(rng, g))))
                if rng.random() < 0.5:          # and function + function, both filtered differently
                    do(("copy", k))
                    c = len(im.objs) - 1
                    do(("filter", c, rng.randrange(4)))
                    do(("add", ("o", k), ("o", c)))
        else:
            fs = [i for i, s in enumerate(im.objs) if isinstance(s, S.FunctionSignal)
                  and (len(s.times) == 0 or max(abs(float(x)) for x in s.times) < 1e5)]
            if not fs:
                continue
            k = rng.choice(fs)
            if rng.random() < 0.5:
                do(("filter", k, rng.randrange(4)))
            else:
                do(("setBuffers", k, rng.choice([None, 0.0, 0.5, 1.0, 2.5, -1.0]),
                    rng.choice([None, None, 0.0, 1.0, 3.0, -0.5]), int(rng.random() < 0.3)))
    return trace


# ------------------------------------------------------------------------------------------------
# model dump parsing
def parse_arr(txt):
    return [Fraction(t) for t in txt.split()]


def parse_dump(line):
    secs = line.split(" || ")
    head = secs[0].split()
    res = {"nobj": int(head[3]), "exts": [], "objs": []}
    ids = []      # (key, id)
    for sec in secs[1:]:
        parts = sec.split(" | ")
        first = parts[0].split()
        if first[0] == "ext":
            i, _, body = parts[0].partition(" : ")
            ids.append((("ext", len(res["exts"])), int(i.split()[1])))
            res["exts"].append(parse_arr(body))
            continue
        k = int(first[1])
        o = {"cls": first[2], "vt": first[3], "bufs": [], "filts": []}
        isfn = False
        for p in parts[1:]:
            name_id, _, body = p.partition(" :")
            toks = name_id.split()
            name = toks[0]
            if name == "values":
                o["values"] = "raise" if toks[-1] == "raise" else parse_arr(body)
                continue
            i = int(toks[1])
            arr = parse_arr(body)
            if name == "times":
                o["times"] = arr
                ids.append((("times", k), i))
            elif name == "vals":
                o["vals"] = arr
                ids.append((("vals", k), i))
            elif name in ("fns", "t0s", "facs"):
                isfn = True
                o[name] = [int(x) for x in arr] if name == "fns" else arr
                ids.append(((name, k), i))
            elif name in ("bufs", "filts"):
                ids.append(((name, k), i))
            elif name == "buf":
                ids.append((("buf", k, len(o["bufs"])), i))
                o["bufs"].append(arr)
            elif name == "filt":
                ids.append((("filt", k, len(o["filts"])), i))
                o["filts"].append([int(x) for x in arr])
        if not isfn:
            del o["bufs"], o["filts"]
        res["objs"].append(o)
    groups = {}
    for key, i in ids:
        groups.setdefault(i, []).append(str(key))
    res["partition"] = sorted(sorted(g) for g in groups.values())
    return res


def vals_match(run, impl, model):
    """exact for dyadic data, 1e-12 relative otherwise (division by 3, huge times, gain filters)"""
    if impl == "raise" or model == "raise":
        return impl == model
    if len(impl) != len(model):
        return False
    for a, b in zip(impl, model):
        if Fraction(a) == b:
            continue
        run.count("inexact_value_comparisons")
        if abs(Fraction(a) - b) > Fraction(1, 10 ** 12) * (1 + abs(b)):
            return False
    return True


def diff_state(run, impl, model):
    """-> None or a description of the first difference"""
    if impl["nobj"] != model["nobj"]:
        return "object count %d vs model %d" % (impl["nobj"], model["nobj"])
    if impl["exts"] != model["exts"]:
        return "caller-owned arrays changed: %s vs model %s" % (impl["exts"], model["exts"])
    for k, (a, b) in enumerate(zip(impl["objs"], model["objs"])):
        for key in ("cls", "vt", "times", "fns", "t0s", "bufs", "filts"):
            if a.get(key) != b.get(key):
                return "object %d %s: %s vs model %s" % (k, key, a.get(key), b.get(key))
        if ("facs" in a) != ("facs" in b) or ("facs" in a and not vals_match(run, a["facs"], b["facs"])):
            # exact for dyadic factors, 1e-12 relative after a division by 3 or a factor 0.1
            return "object %d facs: %s vs model %s" % (k, a.get("facs"), b.get("facs"))
        if not vals_match(run, a["values"], b["values"]):
            return "object %d values: %s vs model %s" % (k, a["values"], b["values"])
        if "vals" in a and not vals_match(run, a["vals"], b.get("vals", "raise")):
            return "object %d stored values: %s vs model %s" % (k, a["vals"], b.get("vals"))
        if a["values"] != "raise" and len(a["values"]) != len(a["times"]):
            return "object %d: len(values) != len(times)" % k
    if impl["partition"] != model["partition"]:
        ia = [g for g in impl["partition"] if g not in model["partition"]]
        mb = [g for g in model["partition"] if g not in impl["partition"]]
        return "alias graph: implementation groups %s vs model groups %s" % (ia[:4], mb[:4])
    return None


def correspondence(run):
    nh = run.scale(150, 2500)
    maxlen = run.scale(12, 16)
    lines, checks = [], []
    for h in range(nh):
        im = Impl()
        try:
            trace = gen_history(run, im, run.rng.randint(4, maxlen))
        except HarnessProblem as e:
            run.note_broken("harness: history generator failed: %s (not a failing input of pyrex)" % (e,))
            return False
        lines.append("reset")
        checks.append(None)
        prefix = []
        for op, rep, snap in trace:
            ln = op_line(op)
            prefix.append(ln)
            lines.append(ln)
            checks.append(("reply", h, len(prefix), ln, rep))
            lines.append("dump")
            checks.append(("state", h, len(prefix), ln, snap))
            run.count("op_" + op[0])
            if rep.startswith("err") or rep in ("typeError", "raise"):
                run.count("refused_" + rep)
            run.case((h, tuple(prefix[-3:]), len(prefix)), nontrivial=op[0] != "ext" and not rep.startswith("err"),
                     sample={"request": ln, "implementation": rep})
        for o in im.objs:
            run.count("final_cls_" + env()["clsname"].get(type(o), "?"))
    replies = fw.run_driver("C04", lines)
    ok = True
    bad_hist = set()
    hist_lines = {}
    for ln, chk, rp in zip(lines, checks, replies):
        if chk is None:
            continue
        kind, h, step, opln, want = chk
        hist_lines.setdefault(h, [])
        if kind == "reply":
            hist_lines[h].append(opln)
        if h in bad_hist:
            continue
        if kind == "reply":
            same = (rp == want) or (want == "ext" and rp.startswith("ext "))
            if not same:
                ok = False
                bad_hist.add(h)
                run.note_broken("correspondence: history `%s` reply of model `%s` implementation `%s`"
                                % (" ; ".join(hist_lines[h]), rp, want))
        else:
            d = diff_state(run, want, parse_dump(rp))
            if d is None:
                run.traces += 1
            else:
                ok = False
                bad_hist.add(h)
                run.note_broken("correspondence: after history `%s`: %s" % (" ; ".join(hist_lines[h]), d))
        if len(run.broken) > 6:
            break
    return ok


# ------------------------------------------------------------------------------------------------
# search: property-level oracles on the implementation alone
def reach_objects(s):
    """every mutable array/list that belongs to signal `s` (name, object)"""
    S = env()["S"]
    out = [("times", s.times)]
    if isinstance(s, S.FunctionSignal):
        out += [("_functions", s._functions), ("_t0s", s._t0s), ("_buffers", s._buffers),
                ("_factors", s._factors), ("_filters", s._filters)]
        out += [("_buffers[%d]" % i, b) for i, b in enumerate(s._buffers)]
        out += [("_filters[%d]" % i, b) for i, b in enumerate(s._filters)]
        for i, f in enumerate(s._functions):      # the mutable state of a stateful generating function
            out += [("function object _functions[%d]" % i, o) for o in fn_parts(f)[3]]
    else:
        out.append(("values", s.values))
    return out


def deep_state(im):
    """value snapshot of everything observable (defining data, not lazily cached values)"""
    S = env()["S"]
    st = [("ext", i, tuple(a.tolist())) for i, a in enumerate(im.exts)]
    for k, s in enumerate(im.objs):
        ent = [type(s).__name__, vt_name(s), tuple(s.times.tolist())]
        if isinstance(s, S.FunctionSignal):
            ent += [tuple(fn_sig(f) for f in s._functions), tuple(s._t0s), tuple(tuple(b) for b in s._buffers),
                    tuple(s._factors), tuple(tuple(id(f[0]) if isinstance(f, tuple) else f for f in g) for g in s._filters)]
        else:
            ent.append(tuple(s.values.tolist()))
        st.append(("obj", k, tuple(ent)))
    return st


def poke(obj):
    """mutate in place; returns an undo function"""
    np = env()["np"]
    if isinstance(obj, np.ndarray):
        if obj.size == 0:
            return None
        saved = obj.copy()
        obj += 1.0
        obj[0] = -777.0

        def undo():
            obj[...] = saved
        return undo
    if isinstance(obj, env()["Template"]):          # a stateful callable: change its attributes in place
        saved_amp, saved_tab = obj.amplitude, list(obj.table)
        obj.amplitude = obj.amplitude * 3.0 + 1.0
        obj.table[0] += 0.5

        def undo():
            obj.amplitude = saved_amp
            obj.table[:] = saved_tab
        return undo
    saved = list(obj)
    obj.append("poked")
    if len(saved) and isinstance(saved[0], (int, float)):
        obj[0] = saved[0] + 1

    def undo():
        obj[:] = saved
    return undo


def expected_interp0(xp, fp, x):
    """independent statement of the re-gridding rule (exact rational arithmetic)"""
    xp = [Fraction(v) for v in xp]
    fp = [Fraction(v) for v in fp]
    x = Fraction(x)
    if x < xp[0] or x > xp[-1]:
        return Fraction(0)
    for i in range(len(xp) - 1, -1, -1):
        if xp[i] == x:
            return fp[i]
    for i in range(len(xp) - 1):
        if xp[i] < x < xp[i + 1]:
            return fp[i] + (fp[i + 1] - fp[i]) * (x - xp[i]) / (xp[i + 1] - xp[i])
    return Fraction(0)


def fn_direct(s, times):
    """Σ factor·gains·f(t − t0) on the given times, for the harness' function/gain pools"""
    E = env()
    tot = [Fraction(0)] * len(times)
    for f, t0, fac, filt in zip(s._functions, s._t0s, s._factors, s._filters):
        g = Fraction(1)
        for (h, _) in filt:
            g *= Fraction(E["gainv"][E["gains"].index(h)])
        code, amp, off, _ = fn_parts(f)
        for i, t in enumerate(times):
            u = Fraction(float(t)) - Fraction(float(t0))
            v = [u, u * u, Fraction(1), 2 * u + 1, abs(u), Fraction(1 if u >= 0 else 0),
                 abs(u) + 2 * u, (-2 * u if u < 0 else u * u), (3 * u + 1 if u >= 0 else 1 - u),
                 (u - 2) * (u - 2), 2 * u + 1][code]
            v = Fraction(float(amp)) * v + Fraction(float(off))
            tot[i] += v * Fraction(float(fac)) * g
    return tot


def near(a, b):
    return abs(Fraction(float(a)) - b) <= Fraction(1, 10 ** 11) * (1 + abs(b))


def oracle_step(run, im, op, rep, before, hist):
    """checks after one executed step; `before` = deep_state before the step"""
    E = env()
    S, np = E["S"], E["np"]
    k = op[0]
    fail = []
    inplace = k in ("imul", "idiv", "shift", "filter", "setBuffers")
    # 1. one value per time sample, for every live object
    for j, s in enumerate(im.objs):
        v = im.values_of(s)
        if v != "raise" and len(v) != len(s.times):
            fail.append("object %d has %d values for %d times" % (j, len(v), len(s.times)))
    if rep.startswith("crash:"):
        fail.append("%s raised %s on a valid call (argument forms: ndarray / list / tuple, type as name / Enum / int)"
                    % (k, rep[6:]))
    # 1a. merely reading `values` must not move the time grid, and a re-evaluation gives the same values
    for j, s in enumerate(im.objs):
        if isinstance(s, S.FunctionSignal):
            t0 = s.times.copy()
            v = im.values_of(s)
            if not np.array_equal(t0, s.times):
                fail.append("reading values of function-backed object %d moved its time grid: %s -> %s"
                            % (j, list(t0), list(s.times)))
            if v != "raise":
                with warnings.catch_warnings():
                    warnings.simplefilter("ignore")
                    c = s.copy()
                    v2 = [float(x) for x in c.values]
                if v2 != v or not np.array_equal(c.times, t0):
                    fail.append("a copy of function-backed object %d re-evaluates to %s on %s, the object reports %s on %s"
                                % (j, v2, list(c.times), v, list(t0)))
    # 1b. a function-backed signal always reports the direct evaluation of its definition on its own times
    #     (Σ factor·gains·f(t − t0); vectorised and scalar-only functions alike)
    for j, s in enumerate(im.objs):
        if isinstance(s, S.FunctionSignal):
            v = im.values_of(s)
            if v != "raise":
                want = fn_direct(s, list(s.times))
                if not all(near(x, w) for x, w in zip(v, want)):
                    fail.append("function-backed object %d reports %s, its definition evaluates to %s"
                                % (j, v, [float(w) for w in want]))
    after = deep_state(im)
    # 2. operands / arguments untouched by non-in-place operations, refusals change nothing
    if not inplace or rep in ("errTimes", "errTypes", "typeError"):
        if k != "ext" and after[:len(before)] != before and not (k == "setBuffers" and rep == "raise"):
            fail.append("operation changed an operand or an argument")
    new = None
    if rep.startswith("obj "):
        idx = int(rep.split()[1])
        created = len(after) > len(before) and idx == len(im.objs) - 1
        if created:
            new = im.objs[idx]
        elif k not in ("imul", "idiv") and not (k == "add" and (op[1][0] == "n" or op[2][0] == "n")):
            fail.append("%s returned an existing object" % k)
        elif k == "add" and not ((op[1] == ("n", 0) or op[1] == ("n", 0.0))):
            fail.append("adding a non-zero number returned an object")
    # 3. mutate every array/list of the result and of every other object, watch all the others
    if new is not None or inplace:
        targets = list(range(len(im.objs))) if inplace else [len(im.objs) - 1] + [op_k for op_k in _operands(op)]
        for t in dict.fromkeys(targets):
            base = deep_state(im)
            vals_before = [im.values_of(s) for s in im.objs]
            for name, o in reach_objects(im.objs[t]):
                if name == "_functions":
                    continue
                undo = poke(o)
                if undo is None:
                    continue
                now = deep_state(im)
                for (a, b) in zip(base, now):
                    if a != b and not (a[0] == "obj" and a[1] == t):
                        fail.append("mutating %s of object %d changed %s %d" % (name, t, a[0], a[1]))
                undo()
            if deep_state(im) != base or [im.values_of(s) for s in im.objs] != vals_before:
                fail.append("probe could not be undone")   # harness self-check
    # 4. independent re-derivation of the result
    if new is not None:
        try:
            fail += rederive(im, op, new)
        except Exception as e:  # an oracle crash is a harness problem: a broken check, not a failing input
            run.note_broken("harness: oracle crashed at %s: %r" % (crash_origin(e)[1], e))
    return fail


def _operands(op):
    k = op[0]
    if k in ("copy", "mul", "div", "imul", "idiv", "withTimes", "shift", "filter", "setBuffers"):
        return [op[1]]
    if k == "rmul":
        return [op[2]]
    if k == "add":
        return [x[1] for x in (op[1], op[2]) if x[0] == "o"]
    return []


def rederive(im, op, new):
    E = env()
    S, np = E["S"], E["np"]
    k = op[0]
    fail = []
    nv = im.values_of(new)
    if k == "add" and op[1][0] == "o" and op[2][0] == "o":
        a, b = im.objs[op[1][1]], im.objs[op[2][1]]
        va, vb = im.values_of(a), im.values_of(b)
        if list(a.times) != list(b.times):
            fail.append("addition accepted different time grids")
        ta, tb = vt_name(a), vt_name(b)
        if ta != "undefined" and tb != "undefined" and ta != tb:
            fail.append("addition accepted value types %s and %s" % (ta, tb))
        want_vt = tb if ta == "undefined" else ta
        if vt_name(new) != want_vt:
            fail.append("value type of sum is %s, expected %s" % (vt_name(new), want_vt))
        if list(new.times) != list(a.times):
            fail.append("sum is not on the operands' time grid")
        if (isinstance(a, S.FunctionSignal) and isinstance(b, S.FunctionSignal) and isinstance(new, S.FunctionSignal)
                and len(a.times) >= 2 and all(np.diff(a.times) > 0) and "raise" not in (va, vb)):
            # independent evaluation: re-grid the OPERANDS (each evaluates its own function at t - t0) and add
            g = [float(x) for x in a.times]
            mid = np.array(sorted(set(g + [(x + y) / 2 for x, y in zip(g, g[1:])] + [g[-1] + (g[1] - g[0]) / 4])))
            with warnings.catch_warnings():
                warnings.simplefilter("ignore")
                got = [float(x) for x in new.with_times(mid).values]
                wa = [float(x) for x in a.with_times(mid).values]
                wb = [float(x) for x in b.with_times(mid).values]
            if not all(near(x, Fraction(p) + Fraction(q)) for x, p, q in zip(got, wa, wb)):
                fail.append("re-gridding the sum of two function-backed signals does not re-evaluate both components: "
                            "%s vs %s + %s" % (got, wa, wb))
        fb = [x for x in (a, b) if isinstance(x, S.FunctionSignal)]
        if fb and any(isinstance(x, S.EmptySignal) for x in (a, b)):
            # the empty signal is neutral: the sum is still function-backed and re-gridding it re-evaluates exactly
            f = fb[0]
            if not isinstance(new, S.FunctionSignal):
                fail.append("empty %s function-backed is a %s, not function-backed" %
                            ("+" if isinstance(a, S.EmptySignal) else "on the right of a", type(new).__name__))
            if len(f.times) >= 2 and all(np.diff(f.times) > 0):
                g = [float(x) for x in f.times]
                mid = sorted(set(g + [(x + y) / 2 for x, y in zip(g, g[1:])] + [g[0] - (g[1] - g[0]) / 2]))
                with warnings.catch_warnings():
                    warnings.simplefilter("ignore")
                    got = [float(x) for x in new.with_times(np.array(mid)).values]
                want = fn_direct(f, mid)
                if not all(near(x, w) for x, w in zip(got, want)):
                    fail.append("re-gridding (empty + function-backed) interpolates instead of re-evaluating: %s vs %s"
                                % (got, [float(w) for w in want]))
        if "raise" not in (va, vb, nv) and not all(near(x, Fraction(p) + Fraction(q)) for x, p, q in zip(nv, va, vb)):
            fail.append("sum is not pointwise: %s + %s -> %s" % (va, vb, nv))
    elif k in ("mul", "rmul", "div"):
        s = im.objs[op[1] if k != "rmul" else op[2]]
        q = Fraction(float(op[2] if k != "rmul" else op[1]))
        vs = im.values_of(s)
        if vs != "raise" and nv != "raise":
            want = [Fraction(x) * q if k != "div" else Fraction(x) / q for x in vs]
            if not all(near(x, w) for x, w in zip(nv, want)):
                fail.append("scaling is not pointwise: %s by %s -> %s" % (vs, q, nv))
        if vt_name(new) != vt_name(s) or list(new.times) != list(s.times):
            fail.append("scaling changed the value type or the times")
    elif k == "copy":
        s = im.objs[op[1]]
        if (list(new.times), vt_name(new)) != (list(s.times), vt_name(s)) or im.values_of(s) != nv:
            fail.append("copy differs from the original")
    elif k == "withTimes":
        s = im.objs[op[1]]
        nt = im.exts[op[2]]
        if list(new.times) != list(nt) or vt_name(new) != vt_name(s):
            fail.append("re-gridded signal is not on the requested grid / keeps not the type")
        if isinstance(s, S.FunctionSignal):
            if nv != "raise":
                want = fn_direct(s, list(nt))
                if not all(near(x, w) for x, w in zip(nv, want)):
                    fail.append("function-backed with_times is not the exact re-evaluation: %s vs %s" % (nv, [float(w) for w in want]))
        elif isinstance(s, S.EmptySignal):
            if any(v != 0 for v in nv):
                fail.append("re-gridded empty signal is not zero")
        else:
            want = [expected_interp0(list(s.times), list(s.values), x) for x in nt]
            if not all(near(x, w) for x, w in zip(nv, want)):
                fail.append("with_times is not interp0: %s vs %s" % (nv, [float(w) for w in want]))
    elif k in ("mk",):
        nt, vals = im.exts[op[2]], im.exts[op[3]]
        want = (list(vals) + [0.0] * len(nt))[:len(nt)]
        if list(new.times) != list(nt) or nv != want:
            fail.append("constructor did not pad/truncate: %s for %d times -> %s" % (list(vals), len(nt), nv))
    return fail


def known_probes(run):
    """K15: a function-backed signal on a one-sample grid cannot be evaluated (dt is None there and the
    buffer bookkeeping divides by it); a sampled Signal handles the same grid."""
    import numpy as np
    from pyrex.signals import FunctionSignal, Signal
    failing = 0
    for make in (lambda: FunctionSignal([0.0], lambda t: 2 * t + 1).values,
                 lambda: FunctionSignal([0.0, 1.0, 2.0], lambda t: 2 * t + 1).with_times([0.5]).values):
        try:
            v = np.asarray(make(), dtype=float)
            if v.shape != (1,):
                failing += 1
        except TypeError:
            failing += 1
    ok_sampled = list(Signal([0.0, 1.0, 2.0], [1, 2, 3]).with_times([0.5]).values) == [1.5]
    run.case(("known", "K15"), sample={"K15_still_fails": failing, "sampled_signal_ok": ok_sampled})
    if failing:
        run.known_finding("K15")
    nonincreasing_probe(run)
    if not ok_sampled:
        run.fail_input("one-sample", {"times": [0.0, 1.0, 2.0], "values": [1, 2, 3], "new_times": [0.5]},
                       what="Signal.with_times onto a one-sample grid is not the linear interpolation")


def search(run, deep):
    nh = 400 if deep else run.scale(40, 400)
    for h in range(nh):
        im = Impl()
        hist = []
        # drive the same generator, but check after every step with the implementation-only oracles
        orig_apply = im.apply
        failures = []

        def apply(op, im=im, hist=hist, failures=failures, orig_apply=orig_apply):
            before = deep_state(im)
            rep = orig_apply(op)
            hist.append(op_line(op) + " -> " + rep)
            f = oracle_step(run, im, op, rep, before, hist)
            if f and not failures:
                failures.append((list(hist), f))
            return rep
        im.apply = apply
        im.snapshot = lambda: None
        try:
            gen_history(run, im, run.rng.randint(4, 12))
        except HarnessProblem as e:
            run.note_broken("harness: history generator failed: %s (not a failing input of pyrex)" % (e,))
            return
        run.case(("search", h, tuple(hist[-2:])), nontrivial=True)
        if failures:
            hh, f = failures[0]
            run.fail_input("history", {"history": hh}, observed=f[:4],
                           expected="values aligned with times, results independent of operands, pointwise results",
                           what=f[0])
    coercion_table(run)
    dtype_probes(run)


def coercion_table(run):
    """all value-type pairs x class pairs on the implementation (independent statement of the rule)"""
    E = env()
    S, np = E["S"], E["np"]
    t = np.array([0.0, 1.0, 2.0])

    def build(c, vt):
        vt = None if vt == "undefined" else vt
        if c == "signal":
            return S.Signal(t, np.array([1.0, 2.0, 3.0]), vt)
        if c == "empty":
            return S.EmptySignal(t, vt)
        return S.FunctionSignal(t, E["fns"][3], vt)
    for ca in ("signal", "empty", "func"):
        for cb in ("signal", "empty", "func"):
            for va in VTS:
                for vb in VTS:
                    a, b = build(ca, va), build(cb, vb)
                    want = None if (va != "undefined" and vb != "undefined" and va != vb) else (vb if va == "undefined" else va)
                    try:
                        got = vt_name(a + b)
                    except ValueError:
                        got = None
                    run.case(("coerce", ca, cb, va, vb), nontrivial=True)
                    if got != want:
                        run.fail_input("coercion", {"classes": [ca, cb], "types": [va, vb]}, observed=got,
                                       expected=want, what="value-type coercion of %s+%s" % (ca, cb))


def nonincreasing_probe(run):
    """Observation OUTSIDE the claim (not a finding, nothing is asserted about it): np.interp does not check that the
    sample points increase, so Signal / GaussianNoise.with_times on a signal whose own grid is decreasing or shuffled
    returns np.interp's garbage (e.g. Signal([2,1,0],[10,20,30]).with_times([1,.5,2,0]) -> zeros); the clause
    "linear interpolation between samples and zero outside the original span" presupposes ordered sample times.
    The generators keep sampled signals away from such grids (counter `history_on_decreasing_grids` builds only
    function-backed / empty signals).  What IS claimed and checked here: function-backed and empty signals work
    on a decreasing grid."""
    E = env()
    S = E["S"]
    run.case(("boundary", "decreasing grid, function-backed / empty"), nontrivial=True)
    f = S.FunctionSignal([2.0, 1.0, 0.0], E["fns"][3])
    if list(f.values) != [5.0, 3.0, 1.0] or list(S.EmptySignal([2.0, 1.0]).with_times([1.0]).values) != [0.0]:
        run.fail_input("decreasing-grid", {"times": [2.0, 1.0, 0.0], "function": "2t+1"}, observed=list(f.values),
                       expected=[5.0, 3.0, 1.0], what="function-backed / empty signal on a decreasing grid")


def dtype_probes(run):
    """integer-dtype arrays (excluded from the histories): `shift` by a float and `*=` by a float must raise a
    TypeError resp. fall back to a scaled copy - never write truncated numbers"""
    E = env()
    np, S = E["np"], E["S"]
    s = S.Signal([0, 1, 2], [1, 2, 3])
    run.case(("dtype", "int shift"), nontrivial=True)
    try:
        s.shift(0.5)
        if list(s.times) != [0.5, 1.5, 2.5]:
            run.fail_input("int-shift", {"times": [0, 1, 2], "shift": 0.5}, observed=[float(x) for x in s.times],
                           expected="TypeError or [0.5, 1.5, 2.5]", what="shift of an integer grid wrote rounded times")
    except TypeError:
        if list(s.times) != [0, 1, 2]:
            run.fail_input("int-shift", {"times": [0, 1, 2], "shift": 0.5}, observed=[float(x) for x in s.times],
                           what="rejected shift changed the times")
    x = S.Signal([0, 1, 2], [1, 2, 3])
    y = x
    x *= 0.5
    run.case(("dtype", "int imul"), nontrivial=True)
    if list(x.values) != [0.5, 1.0, 1.5] or (x is not y and list(y.values) != [1, 2, 3]):
        run.fail_input("int-imul", {"values": [1, 2, 3], "factor": 0.5}, observed=[float(v) for v in x.values],
                       expected=[0.5, 1.0, 1.5], what="*= on integer values")
    z = S.Signal([0.0, 1.0], [1.0, 2.0])
    with warnings.catch_warnings():
        warnings.simplefilter("ignore")
        r = z / 0
    run.case(("boundary", "sampled / 0"), nontrivial=True)
    if len(r.values) != 2 or np.shares_memory(r.values, z.values) or list(z.values) != [1.0, 2.0]:
        run.fail_input("div0", {"values": [1.0, 2.0]}, what="sampled signal / 0 changed or aliased its operand")


def replay(run, data):
    inp = data["input"]
    if data["kind"] == "coercion":
        coercion_table(run)
        return
    im = Impl()
    hist = []
    for entry in inp["history"]:
        ln = entry.split(" -> ")[0]
        op = parse_line(ln)
        before = deep_state(im)
        rep = im.apply(op)
        hist.append(ln + " -> " + rep)
        f = oracle_step(run, im, op, rep, before, hist)
        if f:
            run.fail_input("history", {"history": hist}, observed=f[:4], what=f[0])
            return


def parse_line(ln):
    t = ln.split()
    k = t[0]

    def num(x):
        return float(Fraction(x))

    def e(x):
        return int(x[1:])
    if k == "ext":
        return ("ext", [Fraction(x) for x in t[1:]])
    if k == "mk":
        return ("mk", t[1], e(t[2]), e(t[3]), t[4])
    if k == "mkEmpty":
        return ("mkEmpty", e(t[1]), t[2])
    if k == "mkFunc":
        return ("mkFunc", t[1], e(t[2]), int(t[3]), t[4])
    if k == "copy":
        return ("copy", int(t[1]))
    if k == "add":
        def o(x):
            if x[0] == "o":
                return ("o", int(x[1:]))
            f = Fraction(x[1:])
            return ("n", int(f) if f.denominator == 1 else float(f))
        return ("add", o(t[1]), o(t[2]))
    if k in ("mul", "div", "imul", "idiv"):
        return (k, int(t[1]), num(t[2]))
    if k == "rmul":
        return ("rmul", num(t[1]), int(t[2]))
    if k == "withTimes":
        return ("withTimes", int(t[1]), e(t[2]))
    if k == "shift":
        return ("shift", int(t[1]), num(t[2]))
    if k == "filter":
        return ("filter", int(t[1]), int(t[2]))
    if k == "setBuffers":
        return ("setBuffers", int(t[1]), None if t[2] == "none" else num(t[2]),
                None if t[3] == "none" else num(t[3]), int(t[4]))
    raise KeyError(k)
