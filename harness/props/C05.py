"""C05 - frequency filtering is linear, real-preserving, passive and free of wrap-around.

Float twin of lean/twin/Dft.body (naive O(M^2) DFT on explicit (re,im) pairs) against
pyrex.signals.Signal.filter_frequencies / _get_filter_response / FunctionSignal._apply_filters,
plus a property-level search on the implementation alone."""
import cmath
import logging
import math

import numpy as np

import framework as fw

LEVEL = "proof"
USE_TWINS = True
TECHNIQUE = ("Lean 4 theorems over the real-number reading of a twin model (bridged to Mathlib's ZMod.dft) "
             "+ Float-twin differential run + metamorphic search on the implementation")
RULE = ("signal length N in 2..65 (odd and even, every length hit in the thorough tier), dt = 10^U(-10,0), grid "
        "offset U(-1e3,1e3)*N*dt, values = dense normal / sparse impulses / constant / ramp times 10^U(-6,6); "
        "responses from the family const, whole-sample delay, fractional delay, scaled delay, low-pass, high-pass, "
        "one-pole RC (complex), one-sided complex, gaussian, sinc and |f|/(|f|+f0) with an `if f == 0: return <int>` "
        "guard; vectorised (float, int or bool arrays) or scalar-only (TypeError / ValueError on arrays) with the "
        "RETURN TYPE varying with f (or handing out their own stored, possibly read-only, complex table): int at DC / float elsewhere, float at DC / complex elsewhere, float where real, "
        "bool, numpy scalars, 0-d arrays, Python complex; force_real in {False, True}; Signal and FunctionSignal (1..3 stacked filters). A case is "
        "non-trivial when the signal is not identically zero; distinct = distinct (N, dt, offset, values, "
        "response, force_real, class) tuples. Search: N up to 4096 (linearity, homogeneity, identity, offset, "
        "shift-invariance, Hermitian symmetrisation, energy, delay/drop) on the implementation alone; samples and times "
        "also as int64 / float32 arrays, lists, tuples, integer time grids; every case is filtered twice with the "
        "same response object (nothing remembered, response table and caller arrays untouched), through a copy "
        "(original, product and with_times handles unchanged) and evaluate-filter-evaluate on one handle; the signal is "
        "rescaled by 1e-300 .. 1e290 (homogeneity in the amplitude, nothing thresholded); function-backed signals "
        "carry chains of 2-3 filters with DIFFERENT force_real flags and complex non-Hermitian responses, compared "
        "with the product of the per-filter tables (each mirrored by its own flag) and under reversal of the order; "
        "buffered FunctionSignals are compared with filtering on the extended grid; plain Signal / GaussianNoise / "
        "EmptySignal objects whose sampling step changes (resample(n), new times and values assigned) after dt, "
        "frequencies, spectrum were read or a first filter was applied are filtered with delay / low-pass / the "
        "case's response and compared with a fresh Signal of the current times and values; the SAME response callable (one "
        "function object, equal bound methods) is registered 2-3 times and interleaved with another filter on one "
        "FunctionSignal (table to that power; sampled Signal filtered twice for real gains and whole delays); the "
        "generating FUNCTION of a FunctionSignal returns int64 arrays or Python ints (also times an integer factor 1)")
LEVEL_TEXT = ("theorems C05_* proved over R/C for every length N>=1, every sampling step dt != 0, every signal and every "
              "response function: the pair-DFT of the model is Mathlib's ZMod.dft (bridge lemma), hence linear, "
              "homogeneous, identity for the unit response, offset-free, force_real = Hermitian symmetrisation "
              "with real output, Parseval => passive, whole-sample delay d<=N shifts and drops, N<d<2N wraps (K1). "
              "The same model text run on Float agrees with pyrex.signals on every sampled input to 1e-9*max|x|")
LEVEL_NOTE = ("excluded by the property text ('2..thousands' samples, 'steps from 1e-10 s to 1 s'): N < 2 (the code "
              "raises TypeError for N=1 - Signal.dt is None - and ValueError for N=0; the search checks that it does; "
              "the model's sigDt is totalised with getD, so the theorems at N < 2 speak about the model only) and "
              "dt = 0 (repeated sample times: the code silently returns NaN); theorems that need dt != 0 say so. "
              "A pure delay is proved for whole-sample delays only; fractional delays (band-limited interpolation) "
              "are covered by energy, linearity and shift oracles, not by a theorem. "
              "floating-point rounding and the FFT algorithm are not modelled (scipy.fft.fft/ifft/fftfreq = exact DFT); "
              "filter_homog is stated for real scale factors (the real part is taken after filtering); "
              "delay_wraps_beyond_window is stated as the model behaves (out[k] = x[k+2N-d] for k < d-N, 0 for "
              "d-N <= k < N), which corrects the index range written in DESIGN.md; FunctionSignal with stacked filters sharing the force_real flag is "
              "reached by the theorems through C05_apply_filters_stacked (product of the responses); stacks with "
              "MIXED force_real flags are covered by the correspondence run and the search only; for complex "
              "factors homogeneity is stated before the real part is taken (C05_filter_homog_complex); no _partial theorem")
ASSUMPTIONS = ["len(signal.times) == len(signal.values) (C04 invariant) and N >= 2 so that Signal.dt is defined",
               "a vectorised response function acts pointwise on the frequency array"]

logging.getLogger("pyrex").setLevel(logging.ERROR)
logging.getLogger("pyrex.signals").setLevel(logging.ERROR)


# --------------------------------------------------------------------------------------------
# response family (mirrors Drivers/C05.lean `respOf`)
def resp_fn(kind, p1, p2, scalar_only=None):
    """-> python callable.  scalar_only in {None, 'TypeError', 'ValueError'}"""
    if kind == "const":
        vec = lambda f: (p1 + 1j * p2) + 0 * np.asarray(f)
        sca = lambda f: complex(p1, p2)
    elif kind == "delay":
        vec = lambda f: np.exp(-2j * np.pi * np.asarray(f) * p1)
        sca = lambda f: cmath.exp(-2j * math.pi * f * p1)
    elif kind == "cdelay":
        vec = lambda f: p2 * np.exp(-2j * np.pi * np.asarray(f) * p1)
        sca = lambda f: p2 * cmath.exp(-2j * math.pi * f * p1)
    elif kind == "lowpass":
        vec = lambda f: np.where(np.abs(f) < p1, 1.0, 0.0)
        sca = lambda f: 1.0 if abs(f) < p1 else 0.0
    elif kind == "highpass":
        vec = lambda f: np.where(np.abs(f) > p1, 1.0, 0.0)
        sca = lambda f: 1.0 if abs(f) > p1 else 0.0
    elif kind == "rc":
        vec = lambda f: 1 / (1 + 1j * np.asarray(f) / p1)
        sca = lambda f: 1 / complex(1, f / p1)
    elif kind == "onesided":
        vec = lambda f: np.where(np.asarray(f) > 0, p1 + 1j * p2, 0)
        sca = lambda f: complex(p1, p2) if f > 0 else 0j
    elif kind == "gauss":
        vec = lambda f: np.exp(-(np.asarray(f) / p1) ** 2)
        sca = lambda f: math.exp(-(f / p1) ** 2)
    elif kind == "sinc":
        # the usual division guard: a Python int at DC, floats elsewhere
        vec = lambda f: np.sinc(np.asarray(f) * p1)
        sca = lambda f: 1 if f == 0 else math.sin(math.pi * f * p1) / (math.pi * f * p1)
    elif kind == "invf":
        vec = lambda f: np.abs(f) / (np.abs(f) + p1)
        sca = lambda f: 0 if f == 0 else abs(f) / (abs(f) + p1)
    else:
        raise ValueError(kind)
    mode, _, rtype = (scalar_only or "").partition(":")
    rtype = rtype or None
    if mode in ("", "vec"):
        if rtype is None:
            fn = vec
        elif rtype in ("table", "rotable"):
            # a response that hands out ITS OWN stored complex table (the same ndarray object on every call)
            store = {}

            def fn(f):
                fa = np.asarray(f, dtype=float)
                key = (fa.shape, fa.tobytes())
                if key not in store:
                    r = np.array(vec(fa), dtype=np.complex128)
                    if rtype == "rotable":
                        r.flags.writeable = False
                    store[key] = (r, r.copy())
                return store[key][0]
            fn._store = store
        else:
            def fn(f):
                r = np.asarray(vec(f))
                if np.iscomplexobj(r) and np.all(r.imag == 0):
                    r = r.real
                if not np.iscomplexobj(r) and np.all(r == np.round(r)):
                    if rtype == "bool" and np.all((r == 0) | (r == 1)):
                        return r.astype(bool)
                    return r.astype(int)
                return r
    else:
        exc = {"TypeError": TypeError, "ValueError": ValueError}[mode]

        def fn(f):
            if isinstance(f, np.ndarray) and f.ndim > 0:
                raise exc("response function accepts one frequency at a time")
            return retype(sca(float(f)), float(f), rtype)
    fn.__name__ = "resp_%s" % kind
    return fn


RTYPES = [None, None, "int_dc", "float_dc", "realfloat", "bool", "npscalar", "zerod", "pycomplex"]


def retype(v, f, rtype):
    """the same value in another Python/numpy TYPE (the type may depend on the frequency)"""
    if rtype is None:
        return v
    c = complex(v)
    real = c.imag == 0
    integral = real and c.real == int(c.real)
    if rtype == "int_dc":
        return int(c.real) if (f == 0 and integral) else v
    if rtype == "float_dc":
        return float(c.real) if (f == 0 and real) else c
    if rtype == "realfloat":
        return float(c.real) if real else c
    if rtype == "bool":
        return bool(c.real) if (real and c.real in (0.0, 1.0)) else v
    if rtype == "npscalar":
        if f == 0 and integral:
            return np.int64(int(c.real))
        return np.float64(c.real) if real else np.complex128(c)
    if rtype == "zerod":
        return np.array(v)
    if rtype == "pycomplex":
        return c
    raise ValueError(rtype)


def random_scalar_only(rng):
    """None (vectorised) | 'vec:int' | 'vec:bool' | '<TypeError|ValueError>[:<return type variant>]'"""
    q = rng.random()
    if q < 0.4:
        return None
    if q < 0.5:
        return rng.choice(["vec:int", "vec:bool", "vec:table", "vec:table", "vec:rotable"])
    so = rng.choice(["TypeError", "ValueError"])
    rt = rng.choice(RTYPES)
    return so if rt is None else "%s:%s" % (so, rt)


def is_vectorised(so):
    return (not so) or so.startswith("vec")


def resp_max(kind, p1, p2):
    return {"const": math.hypot(p1, p2), "cdelay": abs(p2), "onesided": math.hypot(p1, p2)}.get(kind, 1.0)


def filt_toks(flt):
    kind, p1, p2, fr, so = flt
    return "%d %d %s %s" % (1 if fr else 0, 1 if is_vectorised(so) else 0, kind, fw.fl([p1, p2]))


def random_response(rng, n, dt, allow_gain=True):
    """-> (kind, p1, p2)"""
    nyq = 0.5 / dt
    kind = rng.choice(["const", "const", "delay", "delay", "fdelay", "cdelay", "lowpass", "highpass", "rc",
                       "onesided", "gauss", "sinc", "invf"])
    if kind == "const":
        c = rng.choice([(1.0, 0.0), (0.5, 0.0), (0.0, 1.0), (-1.0, 0.0), (rng.uniform(-2, 2), rng.uniform(-2, 2))])
        if not allow_gain:
            m = max(1.0, math.hypot(*c))
            c = (c[0] / m * 0.999, c[1] / m * 0.999) if m > 1 else c
        return ("const", c[0], c[1])
    if kind == "delay":
        return ("delay", rng.randint(0, n) * dt, 0.0)
    if kind == "fdelay":
        return ("delay", rng.uniform(0, n) * dt, 0.0)
    if kind == "cdelay":
        a = rng.uniform(-2, 2) if allow_gain else rng.uniform(-1, 1)
        return ("cdelay", rng.uniform(0, n) * dt, a)
    if kind in ("lowpass", "highpass"):
        # keep the cut away from the bin frequencies k/(2N dt): the comparison is a float `<`
        k = rng.randint(0, n) + rng.choice([0.3, 0.5, 0.7])
        return (kind, k / (2 * n * dt), 0.0)
    if kind == "rc":
        return ("rc", rng.uniform(0.05, 1.5) * nyq, 0.0)
    if kind == "onesided":
        c = (rng.uniform(-1, 1), rng.uniform(-1, 1))
        if not allow_gain:
            c = (c[0] * 0.7, c[1] * 0.7)
        return ("onesided", c[0], c[1])
    if kind == "sinc":
        return ("sinc", rng.uniform(0.5, 4) * dt, 0.0)
    if kind == "invf":
        return ("invf", rng.uniform(0.05, 1) * nyq, 0.0)
    return ("gauss", rng.uniform(0.1, 2) * nyq, 0.0)


def random_values(rng, nprng, n):
    style = rng.choice(["dense", "dense", "sparse", "const", "ramp", "front"])
    scale = 10 ** rng.uniform(-6, 6)
    if style == "dense":
        v = nprng.standard_normal(n)
    elif style == "sparse":
        v = np.zeros(n)
        for _ in range(rng.randint(1, 3)):
            v[rng.randrange(n)] = rng.uniform(-1, 1)
    elif style == "const":
        v = np.full(n, rng.uniform(-1, 1))
    elif style == "ramp":
        v = np.linspace(rng.uniform(-1, 1), rng.uniform(-1, 1), n)
    else:
        v = np.zeros(n)
        m = rng.randint(1, n)
        v[:m] = nprng.standard_normal(m)
    return v * scale


def make_times(rng, n, dt):
    t0 = rng.choice([0.0, rng.uniform(-1e3, 1e3) * n * dt, rng.uniform(-1, 1) * dt])
    return t0 + dt * np.arange(n)


def pyrex_mod():
    import pyrex  # noqa: F401
    import pyrex.signals as ps
    return ps


# --------------------------------------------------------------------------------------------
def correspondence(run):
    ps = pyrex_mod()
    rng = run.rng
    reqs, expect, tols, descs = [], [], [], []
    ncases = run.scale(600, 6000)
    crashed = 0
    lengths = list(range(2, 66))
    for i in range(ncases):
        n = lengths[i % len(lengths)] if run.thorough() or i < 128 else rng.randint(2, 65)
        if run.thorough() and i >= 64 * 60:
            n = rng.randint(2, 65)
        dt = 10 ** rng.uniform(-10, 0)
        times = make_times(rng, n, dt)
        vals = random_values(rng, run.np_rng, n)
        dte = float(times[1] - times[0])
        kind, p1, p2 = random_response(rng, n, dte)
        fr = rng.random() < 0.5
        so = random_scalar_only(rng)
        cls = rng.choice(["Signal", "Signal", "FunctionSignal"])
        vmax = float(np.max(np.abs(vals)))
        run.count("N_odd" if n % 2 else "N_even")
        run.count("resp_" + kind)
        run.count("force_real" if fr else "no_force_real")
        run.count("scalar_only_" + str(so))
        run.count("cls_" + cls)
        form = rng.choice(FORMS) if cls == "Signal" else None
        if form in ("int", "inttimes"):
            form = "int"
            vals = np.round(vals / (float(np.max(np.abs(vals))) or 1.0) * 50)
        elif form == "float32":
            vals = vals.astype(np.float32).astype(float)
        vmax = float(np.max(np.abs(vals)))
        run.count("form_" + str(form))
        if cls == "Signal":
            sig = ps.Signal(*as_form(times, vals, form))
            try:
                sig.filter_frequencies(resp_fn(kind, p1, p2, so), force_real=fr)
            except Exception as e:      # noqa: BLE001
                crashed += 1
                run.note_broken("correspondence: filter_frequencies raised %r for N=%d dt=%r response=%s %s "
                                "force_real=%s" % (e, n, dte, kind, so, fr))
                continue
            out = [float(v) for v in sig.values]
            reqs.append("filter %s %d %s %s" % (filt_toks((kind, p1, p2, fr, so)), n, fw.fl(times), fw.fl(vals)))
            tols.append(1e-9 * vmax * max(1.0, resp_max(kind, p1, p2)))
            flts = [(kind, p1, p2, fr, so)]
        else:
            flts = [(kind, p1, p2, fr, so)]
            for _ in range(rng.randint(0, 2)):
                k2, q1, q2 = random_response(rng, n, dte)
                flts.append((k2, q1, q2, rng.random() < 0.5, random_scalar_only(rng)))
            fs = ps.FunctionSignal(times, lambda t, _t=times.copy(), _v=vals.copy(): np.interp(t, _t, _v))
            try:
                for (k2, q1, q2, fr2, so2) in flts:
                    fs.filter_frequencies(resp_fn(k2, q1, q2, so2), force_real=fr2)
                out = [float(v) for v in fs.values]
            except Exception as e:      # noqa: BLE001
                crashed += 1
                run.note_broken("correspondence: FunctionSignal filters raised %r for N=%d dt=%r filters=%s"
                                % (e, n, dte, flts))
                continue
            reqs.append("apply %s %d %s %d %s" % (fw.fl([dte]), len(flts), " ".join(filt_toks(f) for f in flts),
                                                 n, fw.fl(vals)))
            g = 1.0
            for f in flts:
                g *= max(1.0, resp_max(f[0], f[1], f[2]))
            tols.append(1e-9 * vmax * g)
        expect.append(out)
        descs.append({"cls": cls, "N": n, "dt": dte, "t0": float(times[0]), "filters": [list(map(str, f)) for f in flts],
                      "v0": float(vals[0]), "vsum": float(np.sum(vals))})
        # a few direct ties of the response table and of the frequency grid
        if i % 10 == 0:
            m = 2 * n
            freqs = __import__("scipy.fft").fft.fftfreq(n=m, d=dte)
            reqs.append("freqs %d %s" % (m, fw.fl([dte])))
            expect.append([float(f) for f in freqs]); tols.append(0.0)
            descs.append({"op": "freqs", "M": m, "dt": dte})
            try:
                r = ps.Signal._get_filter_response(freqs, resp_fn(kind, p1, p2, so), fr)
            except Exception as e:      # noqa: BLE001
                crashed += 1
                run.note_broken("correspondence: _get_filter_response raised %r for %s %s" % (e, kind, so))
                continue
            flat = []
            for z in r:
                flat += [float(z.real), float(z.imag)]
            reqs.append("resp %s %d %s" % (filt_toks((kind, p1, p2, fr, so)), m, fw.fl([dte])))
            expect.append(flat); tols.append(1e-9 * max(1.0, resp_max(kind, p1, p2)))
            descs.append({"op": "resp", "M": m, "dt": dte, "kind": kind, "p": [p1, p2], "fr": fr, "so": so})
    # transforms themselves
    for n in (1, 2, 3, 4, 7, 16, 31):
        z = run.np_rng.standard_normal(n) + 1j * run.np_rng.standard_normal(n)
        flat = []
        for c in z:
            flat += [float(c.real), float(c.imag)]
        import scipy.fft
        for op, fn in (("dft", scipy.fft.fft), ("idft", scipy.fft.ifft)):
            o = fn(z)
            ex = []
            for c in o:
                ex += [float(c.real), float(c.imag)]
            reqs.append("%s %d %s" % (op, n, fw.fl(flat))); expect.append(ex); tols.append(1e-9 * n)
            descs.append({"op": op, "N": n, "z0": flat[:2]})
    # malformed requests must be rejected, never defaulted
    bad = ["filter 1 1 nosuch 0 0 2 0 0 0 0", "filter 2 1 const 0 0 1 0 0", "freqs x 1", "apply 0 1"]
    replies = fw.run_driver("C05", reqs + bad)
    ok = crashed == 0
    for b, rp in zip(bad, replies[len(reqs):]):
        if rp != "bad-op":
            ok = False
            run.note_broken("correspondence: malformed request %r answered %r" % (b, rp[:60]))
    for rq, ex, rp, tol, d in zip(reqs, expect, replies, tols, descs):
        got = fw.unfl(rp.split()) if rp != "bad-op" else None
        nontriv = any(v != 0 for v in ex) or d.get("op") in ("freqs",)
        run.case(d, nontrivial=nontriv, sample=d)
        good = got is not None and len(got) == len(ex) and all(
            (a == b) or abs(a - b) <= tol for a, b in zip(got, ex)) and all(math.isfinite(a) for a in got)
        if good:
            run.traces += 1
        else:
            ok = False
            worst = None
            if got is not None and len(got) == len(ex):
                j = int(np.argmax([abs(a - b) for a, b in zip(got, ex)]))
                worst = (j, got[j], ex[j], tol)
            run.note_broken("correspondence: case=%s request=%s model=%s impl=%s worst(index,model,impl,tol)=%s"
                            % (d, rq[:200], (got or rp)[:6], ex[:6], worst))
    return ok


# --------------------------------------------------------------------------------------------
# property-level search on the implementation alone
def case_values(case):
    if "values" in case:
        return np.array(case["values"], dtype=float)
    g = np.random.default_rng(case["vseed"])
    n = case["N"]
    style = case.get("style", "dense")
    if style == "dense":
        v = g.standard_normal(n)
    elif style == "front":
        v = np.zeros(n)
        m = max(1, int(case.get("front", 0.5) * n))
        v[:m] = g.standard_normal(m)
    else:
        v = np.zeros(n)
        idx = g.integers(0, n, size=3)
        v[idx] = g.uniform(-1, 1, size=3)
    return v * case.get("scale", 1.0)


FORMS = [None, None, None, "int", "float32", "list", "tuple", "inttimes"]


def as_form(times, vals, form):
    """the same numbers in another container / dtype"""
    t, v = np.array(times, dtype=float), np.array(vals, dtype=float)
    if form == "int":
        return t, v.astype(np.int64)
    if form == "float32":
        return t, v.astype(np.float32)
    if form == "list":
        return [float(q) for q in t], [float(q) for q in v]
    if form == "tuple":
        return tuple(float(q) for q in t), tuple(float(q) for q in v)
    if form == "inttimes":
        return t.astype(np.int64), v.astype(np.int64)
    return t, v


def run_filter(ps, times, vals, fn, fr, cls="Signal", form=None):
    if cls == "Signal":
        t, v = as_form(times, vals, form)
        s = ps.Signal(t, v)
        s.filter_frequencies(fn, force_real=fr)
        return np.array(s.values, dtype=float)
    t = np.array(times, dtype=float)
    v = np.array(vals, dtype=float)
    s = ps.FunctionSignal(t, lambda x: np.interp(x, t, v))
    s.filter_frequencies(fn, force_real=fr)
    return np.array(s.values, dtype=float)


def check_case(run, case):
    """evaluate every oracle on one case dict; an exception on a valid input is a failure of its own"""
    try:
        _check_case(run, case)
    except Exception as e:      # noqa: BLE001 - the implementation must not raise on these inputs
        c = dict(case)
        c["oracle"] = "crash"
        run.fail_input("filter-crash", c, observed=repr(e)[:300], expected="filtered values",
                       what="filter_frequencies raised on a valid signal / response")


def _check_case(run, case):
    """evaluate every oracle on one case dict; reports failures through run.fail_input"""
    ps = pyrex_mod()
    n, dt, t0 = case["N"], case["dt"], case["t0"]
    fr = case["force_real"]
    cls = case.get("cls", "Signal")
    kind, p1, p2 = case["resp"]
    so = case.get("scalar_only")
    times = t0 + dt * np.arange(n)
    dte = float(times[1] - times[0])
    x = case_values(case)
    form = case.get("form")
    if form in ("int", "inttimes"):
        x = np.round(x / (float(np.max(np.abs(x))) or 1.0) * 50)        # integer-valued samples
    elif form == "float32":
        x = x.astype(np.float32).astype(float)
    fn = resp_fn(kind, p1, p2, so)
    vmax = float(np.max(np.abs(x))) or 1.0
    gain = max(1.0, resp_max(kind, p1, p2))
    tol = 1e-9 * vmax * gain * max(1.0, math.log2(n))
    out = run_filter(ps, times, x, fn, fr, cls, form)
    which = case.get("oracle", "all")

    def fail(name, observed, expected, what, key=None):
        c = dict(case)
        c["oracle"] = name
        run.fail_input("filter-" + name, c, observed=observed, expected=expected, what=what, finding_key=key)

    if len(out) != n or not np.all(np.isfinite(out)):
        fail("shape", [len(out)], [n], "filtered values have the wrong length or are not finite")
        return
    if which in ("all", "scale"):
        # homogeneous in the signal over the whole floating-point range: tiny samples are not thresholded away
        xh = x / vmax
        base = run_filter(ps, times, xh, fn, fr, cls)
        for c in ([1e-300, 1e-150, 1e-18, 1e-15, 1e100] + ([1e290] if n <= 600 else [])):
            oc = run_filter(ps, times, c * xh, fn, fr, cls)
            d = float(np.max(np.abs(oc / c - base)))
            if not np.all(np.isfinite(oc)) or d > 4e-9 * gain * max(1.0, math.log2(n)):
                j = int(np.argmax(np.abs(oc / c - base)))
                fail("scale", [c, j, float(oc[j] / c)], [c, j, float(base[j])],
                     "filter(c x) != c filter(x) for a signal of amplitude %g" % c)
                break
    if which in ("all", "stack") and case.get("stack"):
        # a chain of filters with their own force_real flags on ONE function-backed signal: the code multiplies
        # the per-filter response tables (each mirrored according to its own flag) and filters once
        import scipy.fft
        chain = [(kind, p1, p2, fr, so)] + [tuple(q) for q in case["stack"]]
        t = np.array(times, dtype=float)
        v = np.array(x, dtype=float)
        freqs = scipy.fft.fftfreq(2 * n, d=dte)

        def table(k_, a_, b_, fr_, so_):
            f_ = resp_fn(k_, a_, b_, None)
            if fr_:
                r_ = np.array(f_(np.abs(freqs)), dtype=complex)
                return np.where(freqs < 0, np.conj(r_), r_)
            return np.array(f_(freqs), dtype=complex)

        def chained(order):
            fsig = ps.FunctionSignal(t.copy(), lambda q: np.interp(q, t, v))
            for k_, a_, b_, fr_, so_ in order:
                fsig.filter_frequencies(resp_fn(k_, a_, b_, so_), force_real=fr_)
            return np.array(fsig.values, dtype=float)
        tab = np.ones(2 * n, dtype=complex)
        g2 = 1.0
        for q in chain:
            tab = tab * table(*q)
            g2 *= max(1.0, resp_max(q[0], q[1], q[2]))
        exp = np.real(scipy.fft.ifft(tab * scipy.fft.fft(np.concatenate((v, np.zeros(n))))))[:n]
        got = chained(chain)
        tol2 = 1e-9 * vmax * g2 * max(1.0, math.log2(n))
        if float(np.max(np.abs(got - exp))) > 4 * tol2:
            j = int(np.argmax(np.abs(got - exp)))
            fail("stack", [j, float(got[j])], [j, float(exp[j])],
                 "a chain of filters with force_real flags %s is not the product of the per-filter responses, each "
                 "mirrored according to its own flag" % [bool(q[3]) for q in chain])
        else:
            rev = chained(chain[::-1])
            if float(np.max(np.abs(rev - got))) > 4 * tol2:
                j = int(np.argmax(np.abs(rev - got)))
                fail("stack-order", [j, float(rev[j])], [j, float(got[j])],
                     "the result of a filter chain depends on the order in which the filters were added")
    if which in ("all", "repeat"):
        # the SAME response callable (one function object; equal bound methods of one object) registered two or three
        # times with the same flag on one function-backed signal, also interleaved with another filter: the response
        # acts as often as it was registered
        import scipy.fft
        t = np.array(times, dtype=float)
        v = np.array(x, dtype=float)
        freqs = scipy.fft.fftfreq(2 * n, d=dte)

        def tab_of(f_, fr_):
            if fr_:
                r_ = np.array(f_(np.abs(freqs)), dtype=complex)
                return np.where(freqs < 0, np.conj(r_), r_)
            return np.array(f_(freqs), dtype=complex)
        h_vec = resp_fn(kind, p1, p2, None)
        other_vec = resp_fn("rc", 0.4 / dte, 0.0, None)

        class Holder:
            def __init__(self, f_):
                self._f = f_

            def response(self, f):
                return self._f(f)
        holder = Holder(resp_fn(kind, p1, p2, so))
        h_same = resp_fn(kind, p1, p2, so)
        other = resp_fn("rc", 0.4 / dte, 0.0, None)
        Xp = scipy.fft.fft(np.concatenate((v, np.zeros(n))))
        for label, regs, power, with_other in (("same function twice", [h_same, h_same], 2, False),
                                               ("same function three times", [h_same] * 3, 3, False),
                                               ("equal bound methods twice", [holder.response, holder.response], 2, False),
                                               ("interleaved with another filter", [h_same, other, h_same], 2, True)):
            fsig = ps.FunctionSignal(t.copy(), lambda q: np.interp(q, t, v))
            for r_ in regs:
                fsig.filter_frequencies(r_, force_real=(fr if r_ is not other else False))
            got = np.array(fsig.values, dtype=float)
            tabp = tab_of(h_vec, fr) ** power * (tab_of(other_vec, False) if with_other else 1.0)
            exp = np.real(scipy.fft.ifft(tabp * Xp))[:n]
            tolr = 4e-9 * vmax * gain ** power * max(1.0, math.log2(n))
            if float(np.max(np.abs(got - exp))) > tolr:
                j = int(np.argmax(np.abs(got - exp)))
                fail("repeat", [label, j, float(got[j])], [label, j, float(exp[j])],
                     "a response registered repeatedly on one FunctionSignal (%s) does not act once per registration"
                     % label)
                break
            if power == 2 and not with_other and ((kind == "const" and p2 == 0.0) or (kind == "delay" and "d" in case
                                                                                    and 2 * case["d"] <= n)):
                # real gain / causal whole-sample delay: filtering the sampled Signal twice is exactly the same
                sq = ps.Signal(t.copy(), v.copy())
                sq.filter_frequencies(h_same, force_real=fr)
                sq.filter_frequencies(h_same, force_real=fr)
                if float(np.max(np.abs(np.array(sq.values, dtype=float) - got))) > tolr:
                    fail("repeat", [label], None, "a FunctionSignal with a response registered twice differs from the "
                         "sampled Signal filtered twice")
                    break
    if which in ("all", "intfunc"):
        # a function-backed signal whose generating function answers with INTEGERS (int64 array / Python ints from a
        # scalar-only function), with and without an integer scale factor: same result as the float-valued function
        t = np.array(times, dtype=float)
        c0 = n // 2
        ints = np.round(np.array(x, dtype=float) / vmax * 40).astype(np.int64)

        def f_int_array(q):
            return ints[np.clip(np.rint((np.asarray(q, dtype=float) - t[0]) / dte).astype(int), 0, n - 1)]

        def f_boxcar(q):
            if isinstance(q, np.ndarray) and q.ndim > 0:
                raise TypeError("one time at a time")
            return 1 if t[max(0, c0 - n // 4)] <= q <= t[min(n - 1, c0 + n // 4)] else 0
        box = np.array([f_boxcar(float(q)) for q in t], dtype=float)
        one = lambda f: np.ones(len(f)) if isinstance(f, np.ndarray) else 1.0
        one.__name__ = "one"
        for label, func, vals_f in (("int64 array", f_int_array, ints.astype(float)), ("python ints 0/1", f_boxcar, box)):
            scale_ = float(np.max(np.abs(vals_f))) or 1.0
            for scaled in (False, True):
                for resp_name, rf in (("unit response", one), ("the case's response", fn)):
                    fi = ps.FunctionSignal(t.copy(), func)
                    if scaled:
                        fi = fi * 1
                    fi.filter_frequencies(rf, force_real=fr)
                    got = np.array(fi.values, dtype=float)
                    ref = run_filter(ps, t, vals_f, rf, fr)
                    if len(got) != n or float(np.max(np.abs(got - ref))) > 4e-9 * scale_ * gain * max(1.0, math.log2(n)):
                        j = int(np.argmax(np.abs(got - ref))) if len(got) == n else 0
                        fail("intfunc", [label, scaled, resp_name, j, float(got[j])], [j, float(ref[j])],
                             "a FunctionSignal whose function returns integers (%s%s) is not filtered like the sampled "
                             "Signal of the same values (%s)" % (label, ", times 1" if scaled else "", resp_name))
                        break
                else:
                    continue
                break
            else:
                continue
            break
    if which in ("all", "regrid") and cls == "Signal" and n >= 6:
        # the sampling step of a PLAIN signal changes after dt / frequencies were read or a first filter was applied
        # (resample(n), or new times and values assigned): the frequency grid must follow the current step, i.e. the
        # object must filter like a fresh Signal built from its current times and values
        gr = np.random.default_rng(case.get("vseed", 1) + 4242)
        one = lambda f: np.ones(len(f)) if isinstance(f, np.ndarray) else 1.0
        one.__name__ = "one"
        for variant in ("resample", "assign", "noise", "empty"):
            def scenario():
                if variant == "noise":
                    sg = ps.GaussianNoise(np.array(times, dtype=float), vmax)
                elif variant == "empty":
                    sg = ps.EmptySignal(np.array(times, dtype=float))
                else:
                    sg = ps.Signal(np.array(times, dtype=float), np.array(x, dtype=float))
                _ = (sg.dt, sg.frequencies, sg.spectrum)
                if case.get("vseed", 0) % 2:
                    sg.filter_frequencies(one)
                if variant == "resample":
                    sg.resample(max(4, int(round(n * [0.977, 1.3, 0.5][case.get("vseed", 0) % 3]))))
                else:
                    sg.times = float(times[0]) + dte * 1.023 * np.arange(n)
                    if variant != "empty":      # (an EmptySignal stays empty: its filter is a no-op by design)
                        sg.values = np.random.default_rng(case.get("vseed", 1) + 99).standard_normal(n) * vmax
                return sg
            s0 = scenario()
            t2, v2 = np.array(s0.times, dtype=float).copy(), np.array(s0.values, dtype=float).copy()
            dt2 = float(t2[1] - t2[0])
            n2 = len(t2)
            vm2 = float(np.max(np.abs(v2))) or 1.0
            trials = [("delay", min(n2 // 3, 100) * dt2, 0.0), ("lowpass", (n2 // 3 + 0.5) / (2 * n2 * dt2), 0.0)]
            if kind not in ("const",):
                trials.append((kind, p1, p2))
            for k_, a_, b_ in trials:
                used = scenario()
                used.filter_frequencies(resp_fn(k_, a_, b_, None), force_real=fr)
                fresh = ps.Signal(t2.copy(), v2.copy())
                fresh.filter_frequencies(resp_fn(k_, a_, b_, None), force_real=fr)
                ua, fa_ = np.array(used.values, dtype=float), np.array(fresh.values, dtype=float)
                if ua.shape != fa_.shape or float(np.max(np.abs(ua - fa_))) > 1e-12 * vm2 * max(1.0, resp_max(k_, a_, b_)):
                    j = int(np.argmax(np.abs(ua - fa_))) if ua.shape == fa_.shape else 0
                    fail("regrid", [variant, k_, j, float(ua[j])], [variant, k_, j, float(fa_[j])],
                         "a signal whose sampling step changed (%s) after dt / frequencies / a first filter were used "
                         "does not filter like a fresh Signal with its current times and values" % variant)
                    break
            else:
                continue
            break
    if which in ("all", "reuse"):
        # the same response object and the same samples again: nothing may be remembered, nothing may have been
        # written into the response's own table or into the caller's arrays
        out2 = run_filter(ps, times, x, fn, fr, cls, form)
        if float(np.max(np.abs(out2 - out))) > 1e-12 * vmax * gain:
            j = int(np.argmax(np.abs(out2 - out)))
            fail("reuse", [j, float(out2[j])], [j, float(out[j])],
                 "filtering the same samples with the same response object a second time gives another result")
        for r, saved in getattr(fn, "_store", {}).values():
            if not np.array_equal(r, saved):
                fail("response-mutated", None, None, "filter_frequencies wrote into the array returned by the "
                     "response function")
                break
        tb, vb = as_form(times, x, form)
        keep_t, keep_v = np.array(tb, dtype=float), np.array(vb, dtype=float)
        if cls == "Signal":
            s0 = ps.Signal(tb, vb)
            s1 = s0.copy()
            s1.filter_frequencies(fn, force_real=fr)
            if not (np.array_equal(np.array(tb, dtype=float), keep_t) and np.array_equal(np.array(vb, dtype=float), keep_v)
                    and np.array_equal(np.array(s0.values, dtype=float), keep_v)
                    and np.array_equal(np.array(s0.times, dtype=float), keep_t)):
                fail("aliasing", None, None, "filtering a copy changed the original signal or the caller's arrays")
            if float(np.max(np.abs(np.array(s1.values, dtype=float) - out))) > 1e-12 * vmax * gain:
                fail("aliasing", None, None, "a copied signal filters differently from the original")
        else:
            t = np.array(times, dtype=float)
            v = np.array(x, dtype=float)
            f0 = ps.FunctionSignal(t.copy(), lambda q: np.interp(q, t, v))
            _ = f0.values                      # evaluate, then take further handles
            c1 = f0.copy()
            m1 = f0 * 2.0
            w1 = f0.with_times(t.copy())
            c1.filter_frequencies(fn, force_real=fr)
            good = (np.allclose(f0.values, v, rtol=0, atol=1e-12 * vmax)
                    and np.allclose(m1.values, 2 * v, rtol=0, atol=1e-12 * vmax)
                    and np.allclose(w1.values, v, rtol=0, atol=1e-12 * vmax)
                    and [len(grp) for grp in f0._filters] == [0] * len(f0._filters))
            if not good:
                fail("aliasing", None, None, "filtering a copy of a FunctionSignal changed the original or another "
                     "handle derived from it (copy / product / with_times)")
            if float(np.max(np.abs(np.array(c1.values, dtype=float) - out))) > 4 * tol:
                fail("aliasing", None, None, "a copied FunctionSignal filters differently from the original")
            # leading / trailing buffers: the filter acts on the extended grid, the window is cut afterwards
            k1, k2 = int(case.get("vseed", 0) % 4), int((case.get("vseed", 0) // 4) % 3)
            c0, w0 = float(t[n // 2]), 2.0 * dte
            pulse = lambda q: vmax * np.exp(-((q - c0) / w0) ** 2)
            fb = ps.FunctionSignal(t.copy(), pulse)
            # (buffer lengths half a step short of k samples: the code takes int(buffer/dt) and buffer % dt)
            fb.set_buffers(leading=max(0.0, (k1 - 0.5) * dte), trailing=max(0.0, (k2 - 0.5) * dte))
            fb.filter_frequencies(fn, force_real=fr)
            full = np.concatenate((t[0] - dte * np.arange(k1, 0, -1), t, t[-1] + dte * np.arange(1, k2 + 1)))
            ref = run_filter(ps, full, pulse(full), fn, fr)[k1:k1 + n]
            got = np.array(fb.values, dtype=float)
            # the analytic pulse is sampled on two independently built grids: their rounding differs by an ulp of |t|,
            # i.e. by eps*|t|/dt of the pulse width - that, not 1e-6, is the slack
            slack = 1e-9 * max(1.0, math.log2(n)) + 64 * np.finfo(float).eps * float(np.max(np.abs(full))) / dte
            if len(got) != n or float(np.max(np.abs(got - ref))) > slack * vmax * gain:
                fail("buffers", None, None, "a buffered FunctionSignal is not filtered on its extended grid "
                     "(leading %d, trailing %d samples)" % (k1, k2))
            # evaluate - filter - evaluate on one handle
            f0.filter_frequencies(fn, force_real=fr)
            if float(np.max(np.abs(np.array(f0.values, dtype=float) - out))) > 4 * tol:
                fail("stale", None, None, "FunctionSignal.values read before the filter was added is served again")
    if which in ("all", "fallback") and so:
        # the same response, vectorised and uniformly typed: the scalar fall-back / the return type must not matter
        ref = run_filter(ps, times, x, resp_fn(kind, p1, p2, None), fr, cls)
        d = float(np.max(np.abs(ref - out)))
        if d > 4 * tol:
            j = int(np.argmax(np.abs(ref - out)))
            fail("fallback", [j, float(out[j])], [j, float(ref[j])],
                 "scalar-only / differently typed response gives another result than the vectorised response")
    if which in ("all", "linear"):
        g = np.random.default_rng(case.get("vseed", 1) + 7919)
        y = g.standard_normal(n) * vmax
        a, b = case.get("ab", [1.5, -0.75])
        lhs = run_filter(ps, times, a * x + b * y, fn, fr, cls)
        rhs = a * out + b * run_filter(ps, times, y, fn, fr, cls)
        d = float(np.max(np.abs(lhs - rhs)))
        if d > 4 * tol:
            j = int(np.argmax(np.abs(lhs - rhs)))
            fail("linear", [j, float(lhs[j])], [j, float(rhs[j])], "filter(a x + b y) != a filter(x) + b filter(y)")
    if which in ("all", "homog"):
        c = case.get("c", -2.5)
        fn2 = lambda f, _fn=fn: c * np.asarray(_fn(f)) if isinstance(f, np.ndarray) else c * _fn(f)
        fn2.__name__ = "scaled"
        lhs = run_filter(ps, times, x, fn2, fr, cls)
        d = float(np.max(np.abs(lhs - c * out)))
        if d > 4 * tol * abs(c):
            j = int(np.argmax(np.abs(lhs - c * out)))
            fail("homog", [j, float(lhs[j])], [j, float(c * out[j])], "filter(x, c H) != c filter(x, H)")
    if which in ("all", "identity"):
        one = lambda f: np.ones(len(f)) if isinstance(f, np.ndarray) else 1.0
        one.__name__ = "one"
        o1 = run_filter(ps, times, x, one, fr, cls)
        d = float(np.max(np.abs(o1 - x)))
        if d > 1e-9 * vmax * max(1.0, math.log2(n)):
            j = int(np.argmax(np.abs(o1 - x)))
            fail("identity", [j, float(o1[j])], [j, float(x[j])], "unit response is not the identity")
    if which in ("all", "offset"):
        # shifting the grid by a whole number of steps of a dyadic dt is exact: output must be identical up to rounding
        for off in (case.get("offset", 12345.0), -977.0):
            t2 = times + off * dte
            if abs((t2[1] - t2[0]) - dte) > 1e-12 * dte and kind not in ("const",):
                continue  # dt itself changed by rounding; only frequency-independent responses stay comparable
            o2 = run_filter(ps, t2, x, fn, fr, cls)
            d = float(np.max(np.abs(o2 - out)))
            if d > 4 * tol:
                j = int(np.argmax(np.abs(o2 - out)))
                fail("offset", [j, float(o2[j])], [j, float(out[j])],
                     "output depends on the absolute position of the time grid")
    if which in ("all", "shift") and n >= 4:
        m = case.get("shift", max(1, n // 3))
        xs = x.copy()
        xs[n - m:] = 0.0          # support in [0, N-m)
        base = run_filter(ps, times, xs, fn, fr, cls)
        xm = np.concatenate((np.zeros(m), xs[:n - m]))
        sh = run_filter(ps, times, xm, fn, fr, cls)
        d = float(np.max(np.abs(sh[m:] - base[:n - m])))
        if d > 4 * tol:
            j = int(np.argmax(np.abs(sh[m:] - base[:n - m])))
            fail("shift", [j + m, float(sh[j + m])], [j, float(base[j])],
                 "delaying the input by m samples does not delay the output by m samples")
    if which in ("all", "hermitian") and fr:
        nyq = float(np.max(np.abs(__import__("scipy.fft").fft.fftfreq(2 * n, dte))))

        def herm(f, _fn=fn):
            f = np.asarray(f, dtype=float)
            fa = np.abs(f)
            try:
                r = np.array(_fn(fa), dtype=complex)
            except (TypeError, ValueError):
                r = np.array([_fn(q) for q in fa], dtype=complex)
            r = np.where(f < 0, np.conj(r), r)
            selfconj = (f == 0) | (fa == nyq)
            return np.where(selfconj, r.real, r)
        herm.__name__ = "herm"
        o2 = run_filter(ps, times, x, herm, False, cls)
        d = float(np.max(np.abs(o2 - out)))
        if d > 4 * tol:
            j = int(np.argmax(np.abs(o2 - out)))
            fail("hermitian", [j, float(out[j])], [j, float(o2[j])],
                 "force_real output differs from the output of the Hermitian-symmetrised response")
    if which in ("all", "energy") and resp_max(kind, p1, p2) <= 1.0:
        e_in, e_out = float(np.sum(x * x)), float(np.sum(out * out))
        if e_out > e_in * (1 + 1e-9) + 1e-300:
            fail("energy", e_out, e_in, "response of magnitude <= 1 increased the signal energy")
    if which in ("all", "delay") and kind == "delay" and "d" in case:
        d_s = case["d"]
        exp = np.zeros(n)
        if d_s < n:
            exp[d_s:] = x[:n - d_s]
        diff = np.abs(out - exp)
        if float(np.max(diff)) > 4 * tol:
            j = int(np.argmax(diff))
            if d_s > n:
                fail("delay", [j, float(out[j])], [j, float(exp[j])],
                     "K1: pure delay longer than the window wraps round to the start", key="K1")
            else:
                fail("delay", [j, float(out[j])], [j, float(exp[j])],
                     "pure delay of d <= N samples does not move the samples by d and drop the rest")


def gen_case(run, nmax, i):
    rng = run.rng
    r = rng.random()
    if r < 0.5:
        n = rng.randint(2, min(80, nmax))
    elif r < 0.85:
        n = rng.randint(2, min(600, nmax))
    else:
        n = rng.choice([1024, 2048, 4096, 4095, 2047, rng.randint(600, 4096)])
        n = min(n, nmax)
    # dyadic dt keeps grid shifts exact
    dt = rng.choice([2.0 ** rng.randint(-33, 0), 10 ** rng.uniform(-10, 0)])
    t0 = rng.choice([0.0, rng.randint(-1000, 1000) * n * dt, rng.uniform(-1e3, 1e3) * n * dt])
    times = t0 + dt * np.arange(n)
    dte = float(times[1] - times[0])
    case = {"N": n, "dt": dt, "t0": t0, "force_real": rng.random() < 0.5, "vseed": rng.getrandbits(32),
            "style": rng.choice(["dense", "dense", "front", "sparse"]), "front": rng.uniform(0.1, 0.9),
            "scale": 10 ** rng.uniform(-6, 6), "cls": rng.choice(["Signal", "Signal", "Signal", "FunctionSignal"]),
            "scalar_only": random_scalar_only(rng) if n <= 600 else rng.choice([None, "vec:int"])}
    if i % 3 == 0:
        # whole-sample delay, including delays beyond the window (K1 territory)
        q = rng.random()
        if q < 0.6:
            d = rng.randint(0, n)
        elif q < 0.7:
            d = n
        elif q < 0.9:
            d = rng.randint(n + 1, 2 * n - 1)
        else:
            d = rng.randint(2 * n, 3 * n)
        case["resp"] = ["delay", d * dte, 0.0]
        case["d"] = d
    else:
        case["resp"] = list(random_response(rng, n, dte, allow_gain=rng.random() < 0.5))
    if case["cls"] == "FunctionSignal" and rng.random() < 0.7:
        # further filters on the same object, with their own flags; complex non-Hermitian responses so the flag matters
        stack = []
        for _ in range(rng.randint(1, 2)):
            k2 = rng.choice(["onesided", "rc", "const", "cdelay", "delay", "lowpass"])
            nyq = 0.5 / dte
            pr = {"onesided": (rng.uniform(-1, 1), rng.uniform(-1, 1)), "rc": (rng.uniform(0.05, 1.5) * nyq, 0.0),
                  "const": (rng.uniform(-1, 1), rng.uniform(-1, 1)), "cdelay": (rng.uniform(0, n) * dte, rng.uniform(-1, 1)),
                  "delay": (rng.randint(0, n) * dte, 0.0),
                  "lowpass": ((rng.randint(0, n) + 0.5) / (2 * n * dte), 0.0)}[k2]
            stack.append([k2, pr[0], pr[1], rng.random() < 0.5, random_scalar_only(rng) if n <= 600 else None])
        if all(bool(q[3]) == bool(case["force_real"]) for q in stack):
            stack[-1][3] = not case["force_real"]          # at least one flag differs
        case["stack"] = stack
    case["form"] = rng.choice(FORMS) if case["cls"] == "Signal" else None
    if case["form"] == "inttimes":
        # an integer time grid (Signal(range(N), ...)): dt = 1, integer offset
        case["dt"], case["t0"] = 1.0, float(rng.randint(-1000, 1000))
        if "d" in case:
            case["resp"] = ["delay", float(case["d"]), 0.0]
        else:
            case["resp"] = list(random_response(rng, n, 1.0, allow_gain=rng.random() < 0.5))
    case["shift"] = rng.randint(1, max(1, n // 2))
    case["c"] = rng.choice([-2.5, 0.5, 3.0, -1.0])
    case["offset"] = float(rng.randint(-10 ** 6, 10 ** 6))
    return case


def search(run, deep):
    check_rejections(run)
    ncases = run.scale(150, 2500) if not deep else 2500
    nmax = 4096
    for i in range(ncases):
        case = gen_case(run, nmax, i)
        if case["N"] > 600 and not deep and i % 4:
            case["N"] = run.rng.randint(2, 600)
            if "d" in case:
                case["d"] = min(case["d"], 3 * case["N"])
                times = case["t0"] + case["dt"] * np.arange(case["N"])
                case["resp"] = ["delay", case["d"] * float(times[1] - times[0]), 0.0]
            case["shift"] = min(case["shift"], max(1, case["N"] // 2))
        run.case({k: case[k] for k in ("N", "dt", "t0", "resp", "force_real", "vseed", "cls")},
                 sample={k: case[k] for k in ("N", "dt", "resp", "force_real", "cls")})
        run.count("search_N<=80" if case["N"] <= 80 else "search_N<=600" if case["N"] <= 600 else "search_N>600")
        if "d" in case:
            run.count("search_delay_d<=N" if case["d"] <= case["N"] else "search_delay_d>N")
        check_case(run, case)


def check_rejections(run):
    """inputs outside the property's quantifier that the implementation must REJECT rather than answer with garbage:
    a one-sample signal has no sampling step (TypeError), an empty one cannot be transformed (ValueError)"""
    ps = pyrex_mod()
    for name, times, vals, exc in (("N=1", [0.0], [1.0], TypeError), ("N=0", [], [], ValueError)):
        run.case({"reject": name}, nontrivial=False)
        try:
            sig = ps.Signal(times, vals)
            sig.filter_frequencies(resp_fn("const", 0.5, 0.0))
            run.fail_input("filter-not-rejected", {"N": len(vals), "dt": 1.0, "t0": 0.0, "values": vals,
                                                   "resp": ["const", 0.5, 0.0], "force_real": False,
                                                   "oracle": "reject"},
                           observed=[float(v) for v in sig.values], expected=exc.__name__,
                           what="a signal with %s samples was filtered instead of being rejected" % name)
        except exc:
            run.count("rejected_" + name)
        except Exception as e:      # noqa: BLE001
            run.notes.append("filter of a signal with %s raises %r (expected %s)" % (name, e, exc.__name__))
            run.count("rejected_otherwise_" + name)


def known_probes(run):
    """K1: Signal(range(8), [1,0,...,0,.5]) delayed by 12 samples shows 0.5 at index 3"""
    ps = pyrex_mod()
    s = ps.Signal(np.arange(8.0), [1, 0, 0, 0, 0, 0, 0, .5])
    s.filter_frequencies(resp_fn("delay", 12.0, 0.0))
    run.case({"probe": "K1"}, sample={"probe": "K1", "out": [round(float(v), 6) for v in s.values]})
    if abs(float(s.values[3]) - 0.5) < 1e-9:
        run.known_finding("K1")
    else:
        run.notes.append("K1 probe: the recorded input no longer wraps (values=%s)" % [float(v) for v in s.values])


def replay(run, data):
    check_case(run, data["input"])
