"""C06 - lazily evaluated signals and ray objects never serve stale values.

Tie between the Lean model (lean/PyrexVerif/D/Lazy.lean + the REGENERATED tables Gen/LazyOps.lean,
Gen/LazyDeps.lean) and pyrex:
  * translator harness/extract/lazy_ops.py (run by the check before the build);
  * correspondence: random read-mutate-read histories on the FunctionSignal family (FunctionSignal,
    FullThermalNoise, FFTThermalNoise, ZHS/AVZ/ARZ Askaryan signals) and on the ray tracers / ray
    paths; after every step the `_lazy_*` key set of the implementation is compared with the key-set
    machine of the model run over the generated effect table, every lazy attribute is compared with
    a FRESHLY constructed twin that has the same defining attributes, function-backed values are
    compared with an independently coded eager evaluation of the definition, and the lazy properties
    found by introspection are compared with the translator's list;
  * search: the fresh-twin comparison alone (model free) on more and longer histories."""
import copy
import types
import warnings

import framework as fw

LEVEL = "proof"
TECHNIQUE = "Lean 4 cache state machine + effect/dependency tables regenerated from the AST + fresh-twin differential run"
EXTRACTORS = ["lazy_ops"]
CHECKER_MODULES = ["PyrexVerif.Proofs.LazyLemmas", "PyrexVerif.Proofs.SignalsThms", "PyrexVerif.Proofs.FnAlgebra"]
RULE = ("random histories (length <= 15, thorough <= 25) per object: FunctionSignal family - read, shift, *=, /=, "
        "filter_frequencies, set_buffers (incl. force / None / rejected negative; for sample spacings that are not binary "
        "fractions - 0.1, 0.3, 0.7, 1/3, 1e-9, 0.7e-9 and the Askaryan/noise grids - also buffers on and one ulp next to "
        "k*dt, decimal literals, accumulated sums, and values for which fl(b/dt) is an integer while b % dt != 0), "
        "resample, with_times, + (with function-backed, sampled and empty signals, both operand orders), copy, *, "
        "exception safety (a generating function or an ice model that raises once: the failed read must leave no cache "
        "entry and the next read must equal a fresh object's; a uniform tracer with a non-uniform ice model raises "
        "TypeError on every read), several live handles (a sum a+b / b+a of function-backed or thermal-noise signals, sums of sums, copy() and "
        "with_times() of the sum, a + sampled): everything is read, one handle is mutated by filter_frequencies / "
        "set_buffers / shift / *=, and all other handles must equal their earlier values and never-mutated twins; the second "
        "operand may be the signal's own delayed copy (copy, shift by whole or fractional samples, with_times back) and the "
        "sum must be pointwise the operands' values, "
        "*= and /= by 2, -0.5, 3, 0.7 checked against the values read before the scaling, set_buffers calls that are "
        "rejected after the leading part was written, "
        "in-place edit of `times` handed back as the same object (times += d; t = times; t += d; times = t); "
        "tracers and paths - assignments of from_point, to_point, ice, dz, theta0, direct and of the class-level "
        "settings max_reflections, uniformity_factor, beta_tolerance, solution_sorting, in-place edits of an endpoint "
        "array handed back as the same object (obj.to_point += d; p = obj.from_point; p[2] = z; obj.from_point = p), "
        "on all four tracer families (constructor arguments as tuple, list or caller-owned float arrays that the caller "
        "edits afterwards; a user subclass of UniformRayTracer) and on their paths (layered paths included), interleaved with reads of "
        "single lazy properties and of all of them; a step is non-trivial when a read preceded it and a read follows "
        "it; distinct = distinct (class, history prefix) pairs")
LEVEL_TEXT = ("theorems: a method whose extracted effect list passes `safe` preserves cache coherence; every "
              "method of every class derived from LazyMutableClass in the REGENERATED table passes it and every "
              "dependency of every lazy property is a clearing name or private (decide +kernel), hence coherence "
              "after any history of method calls, public assignments and reads; value algebra of function-backed "
              "signals (scale, add, buffers irrelevant for scalar gains).  The tables and the key-set machine "
              "are tied to the code by the translator and the differential run; staleness itself is searched "
              "for by comparing with a freshly constructed twin after every step")
LEVEL_NOTE = ("Assumed (translator, trusted base): the value of a lazy property is a function of the attributes "
              "extracted for it, and a method acts on self by the extracted effects (AST shapes outside the "
              "understood set raise).  An in-place edit of an attribute's array that is handed back through "
              "__setattr__ as the same object (obj.to_point += d; p = obj.from_point; p[2] = z; obj.from_point = p) "
              "IS in the claim: the model's `assign` clears on the name whatever the value "
              "(C06_augassign_is_assign, C06_assign_same_object_clears) and the translator requires the clear in "
              "__setattr__ to be unconditional inside the name test.  Outside the claim: in-place mutation by the "
              "caller WITHOUT any assignment (obj.from_point[0] = x, writing into a returned values array), assignment of private "
              "attributes, and data closed over by a signal function (FullThermalNoise.rms/amps/phases: the "
              "property quantifies over the listed operations, not over attribute assignment on signals).  "
              "Value algebra: scale / add / window length / buffers-irrelevance-without-filters are proved for "
              "filters as abstract length-preserving linear operators (Sig.FilterSem; the scalar-gain model is the "
              "instance gainSem and fnValuesA gainSem = fnValues), window_counts as nbuf = ceil(buffer/dt) over EXACT "
              "rationals - the code takes the floating-point decision int(b/dt) + (b % dt != 0), which differs from the "
              "exact ceiling when b/dt rounds to an integer (dt = 0.1, b = 0.5); what the property needs there is only "
              "that _full_times and _value_window take the SAME decision, and that float boundary is covered by the "
              "correspondence/search (non-binary dt, buffers on and next to multiples of dt, eager evaluation), not by a theorem; "
              "values_def (direct form), values_shift and values_filter_append (values multiplied by the gain) are "
              "proved for the scalar-gain instance only - that the product of frequency responses acts in one "
              "pad/FFT/crop pass is property C05.  The key-set machine flattens branches, so it is compared "
              "as an over-approximation of the `_lazy_*` keys (exact on straight-line methods).  No theorem is partial.  "
              "Hypothesis audit: `Admissible` excludes private-name assignments and constructor calls on live objects "
              "(the property says 'public mutating operations'); `0 <= b/dt` in window_counts excludes negative buffers "
              "(set_buffers raises ValueError: in the histories) and decreasing grids with buffers (values raises "
              "ValueError: boundary probe; without buffers a decreasing grid evaluates correctly: probe); the no-op "
              "branch of resample is skipped in the correspondence only (the flattened effect list has no branches) and "
              "runs in the search; endpoints on or above the surface are sampled.")
FUNCTION_POOL_NOTE = ("signal functions: three vectorised ones and three that accept scalar times only (math.*, a "
                      "branch on the sign of t, an explicit refusal) and raise TypeError / ValueError on arrays, "
                      "so that the one-at-a-time fallback of FunctionSignal.values runs with shifted origins")
ASSUMPTIONS = ["private attributes (leading underscore) are not assigned by users of the objects",
               "functions handed to FunctionSignal are pure functions of their argument"]

_E = {}


def env():
    if _E:
        return _E
    import numpy as np
    import scipy.fft
    import pyrex.signals as S
    import pyrex.askaryan as A
    import pyrex.ray_tracing as R
    import pyrex.ice_model as I
    from pyrex.particle import Particle
    _E.update(np=np, S=S, A=A, R=R, I=I, Particle=Particle, fft=scipy.fft)
    import logging
    logging.getLogger("pyrex").setLevel(logging.CRITICAL)  # "amplitude was lost" / "error calculating launch angle" messages

    def f1(t):
        return np.exp(-((np.asarray(t) - 3.0) / 1.5) ** 2)

    def f2(t):
        return np.sin(np.asarray(t) * 0.7)

    def f3(t):
        return 0.25 * np.asarray(t) + 1.0

    def lp(f):
        return 1 / (1 + 1j * np.abs(f) / 0.2)

    def delay(f):
        return np.exp(-2j * np.pi * f * 2.0)

    def half(f):
        return 0.5 * np.ones(len(f))
    import math

    def s1(t):      # scalar times only (math.*): TypeError on arrays -> one-at-a-time fallback of `values`
        return math.exp(-((t - 3.0) / 1.5) ** 2)

    def s2(t):      # scalar times only (branch on the sign of t): ValueError on arrays
        if t < 0:
            return 0.3 * t
        return math.sin(0.7 * t)

    def s3(t):      # scalar only, explicit refusal
        if isinstance(t, np.ndarray) and t.ndim > 0:
            raise TypeError("scalar times only")
        return 0.25 * float(t) + 1.0 if t >= 1.0 else 0.5 * float(t) * float(t)
    _E["funcs"] = [f1, f2, f3, s1, s2, s3]
    _E["filters"] = [(lp, True), (delay, True), (half, False)]
    try:
        from pyrex.custom.layered_ice import LayeredIce, LayeredRayTracer
        _E["LayeredIce"], _E["LayeredRayTracer"] = LayeredIce, LayeredRayTracer
    except Exception:   # the layered package is optional for this property
        _E["LayeredIce"] = _E["LayeredRayTracer"] = None
    return _E


def lazy_names(obj):
    """lazy properties of type(obj), found behaviourally and without private identifiers of pyrex: a `property` of
    the class whose getter closes over the function it wraps and over the documented cache attribute name
    `_lazy_<property name>` (the attribute `lazy_property` promises to create on first access)"""
    out = []
    for n in dir(type(obj)):
        a = getattr(type(obj), n, None)
        if not isinstance(a, property) or a.fget is None:
            continue
        cells = []
        for c in (a.fget.__closure__ or ()):
            try:
                cells.append(c.cell_contents)
            except ValueError:
                pass
        if any(isinstance(c, str) and c == "_lazy_" + n for c in cells) and any(callable(c) for c in cells):
            out.append(n)
    return sorted(out)


def crash_origin(exc):
    """'repo' when the innermost pyrex/harness frame of the traceback lies in the tree under test (pyrex code
    failed on a valid call -> a failing input), 'harness' when it lies in the harness (a defect of the check)"""
    import os
    import traceback
    repo = os.path.realpath(fw.REPO) + os.sep
    here = os.path.realpath(os.path.dirname(os.path.dirname(os.path.abspath(__file__)))) + os.sep
    for fr in reversed(traceback.extract_tb(exc.__traceback__)):
        f = os.path.realpath(fr.filename)
        if f.startswith(repo):
            return "repo", "%s:%d %s" % (os.path.relpath(f, repo), fr.lineno, fr.name)
        if f.startswith(here):
            return "harness", "%s:%d %s" % (os.path.relpath(f, here), fr.lineno, fr.name)
    return "harness", "?"


def history_crashed(ctx, e):
    where, at = crash_origin(e)
    if where == "repo":
        ctx.note("history crashed inside pyrex (%s): %r" % (at, e))
    else:
        ctx.run.note_broken("harness: history generator failed at %s: %r (not a failing input of pyrex)" % (at, e))


def keyset(obj):
    return sorted(k[6:] for k in obj.__dict__ if k.startswith("_lazy_"))


# ------------------------------------------------------------------------------------------------
# canonical values of lazy attributes
def canon(v, depth=0):
    np = env()["np"]
    if isinstance(v, np.ndarray):
        return ("arr", v.shape, tuple(complex(x) if np.iscomplexobj(v) else float(x) for x in v.ravel()))
    if isinstance(v, (list, tuple)):
        return ("seq", tuple(canon(x, depth + 1) for x in v))
    if isinstance(v, (bool, np.bool_)):
        return ("b", bool(v))
    if isinstance(v, (int, float, np.floating, np.integer)):
        return ("f", float(v))
    if isinstance(v, (complex, np.complexfloating)):
        return ("c", complex(v))
    if v is None:
        return ("none",)
    if hasattr(v, "_static_attrs") and depth < 2:      # a ray path inside `solutions`
        d = {"cls": type(v).__name__}
        for k in ("theta0", "direct", "_reflections"):
            if k in v.__dict__:
                d[k] = canon(v.__dict__[k], depth + 1)
        for k in ("tof", "path_length"):
            d[k] = read_attr(v, k, depth + 1)
        return ("path", tuple(sorted(d.items())))
    return ("obj", type(v).__name__)


def read_attr(obj, name, depth=0):
    try:
        with warnings.catch_warnings():
            warnings.simplefilter("ignore")
            return canon(getattr(obj, name), depth)
    except Exception as e:      # noqa: the twin must fail the same way
        return ("exc", type(e).__name__)


def same(a, b, rel=1e-12):
    if a == b:
        return True
    if type(a) is not tuple or type(b) is not tuple or len(a) != len(b) or a[:1] != b[:1] and not (
            isinstance(a[0], str) and a[0] in "fc" and b[0] in "fc"):
        return False
    tag = a[0]
    if tag in ("f", "c"):
        x, y = complex(a[1]), complex(b[1])
        if x != x and y != y:
            return True
        return abs(x - y) <= rel * max(abs(x), abs(y)) + 1e-300
    if tag == "arr":
        return a[1] == b[1] and all(same(("c", p), ("c", q), rel) for p, q in zip(a[2], b[2]))
    if tag == "seq":
        return len(a[1]) == len(b[1]) and all(same(p, q, rel) for p, q in zip(a[1], b[1]))
    if tag == "path":
        da, db = dict(a[1]), dict(b[1])
        return da.keys() == db.keys() and all(same(da[k], db[k], rel) if isinstance(da[k], tuple) else da[k] == db[k] for k in da)
    return False


# ------------------------------------------------------------------------------------------------
# fresh twins
def twin_signal(s):
    """a freshly constructed FunctionSignal with the same defining attributes"""
    E = env()
    t = E["S"].FunctionSignal(E["np"].array(s.times), None, s.value_type)
    t._functions = list(s._functions)
    t._t0s = [x for x in s._t0s]
    t._buffers = [list(b) for b in s._buffers]
    t._factors = [x for x in s._factors]
    t._filters = [list(g) for g in s._filters]
    return t


def eager_values(s):
    """independently coded evaluation of the definition: sum over components of
    crop(filters(factor * f(full_times - t0)))"""
    E = env()
    np, fft = E["np"], E["fft"]
    times = np.asarray(s.times, float)
    dt = times[1] - times[0]
    total = np.zeros(len(times))
    for fn, t0, buf, fac, filts in zip(s._functions, s._t0s, s._buffers, s._factors, s._filters):
        nb = int(buf[0] / dt) + (1 if buf[0] % dt else 0)
        na = int(buf[1] / dt) + (1 if buf[1] % dt else 0)
        full = np.concatenate((np.linspace(times[0] - nb * dt, times[0], nb, endpoint=False), times,
                               np.linspace(times[-1], times[-1] + na * dt, na + 1)[1:]))
        try:
            v = np.asarray(fn(full - t0), float) * fac
        except (ValueError, TypeError):
            v = np.asarray([fn(t) for t in full - t0], float) * fac
        if filts:
            fr = fft.fftfreq(2 * len(v), d=dt)
            H = np.ones(len(fr), complex)
            for (h, real) in filts:
                r = np.array(h(np.abs(fr) if real else fr), complex)
                if real:
                    r.imag[fr < 0] *= -1
                H *= r
            v = np.real(fft.ifft(H * fft.fft(np.concatenate((v, np.zeros(len(v))))))[:len(v)])
        total += v[nb:nb + len(times)]
    return total


def twin_object(o):
    """a freshly constructed tracer/path with the same defining attributes (incl. instance-level
    overrides of class-level settings)"""
    E = env()
    R = E["R"]
    d = o.__dict__
    cls = type(o)
    if hasattr(cls, "solutions"):       # a tracer
        if cls.__name__ in ("BasicRayTracer", "SpecializedRayTracer"):
            t = cls(d["from_point"], d["to_point"], ice_model=d["ice"], dz=d["dz"])
        else:
            t = cls(d["from_point"], d["to_point"], d["ice"])
    else:
        parent = types.SimpleNamespace(from_point=d["from_point"], to_point=d["to_point"], ice=d["ice"],
                                       dz=d.get("dz"))
        if cls.__name__ == "LayeredRayTracePath":
            t = cls(parent, d["paths"])
        elif cls.__name__ == "UniformRayTracePath":
            t = cls(parent, d["theta0"], d["_reflections"])
            if t.direct != d["direct"]:
                object.__setattr__(t, "direct", d["direct"])
        else:
            t = cls(parent, d["theta0"], d["direct"])
    for k, v in d.items():      # instance-level overrides that are not constructor arguments
        if not k.startswith("_") and k not in t.__dict__:
            object.__setattr__(t, k, v)
        elif not k.startswith("_") and k in ("dz",) and t.__dict__.get(k) is not v:
            object.__setattr__(t, k, v)
    return t


# ------------------------------------------------------------------------------------------------
class Tracked:
    """an object under test together with the model tokens of its history"""

    def __init__(self, obj, cls_name, toks=None):
        self.obj, self.cls_name = obj, cls_name
        self.toks = list(toks or [])
        self.keys = []        # key set of the implementation after every token
        self.read_before = False

    def tok(self, t):
        self.toks.append(t)
        self.keys.append(keyset(self.obj))


class Ctx:
    def __init__(self, run, model=True):
        self.run, self.model = run, model
        self.fail = None          # first failure of the history (string)
        self.hist = []
        self.tracked = []

    def note(self, what):
        if self.fail is None:
            self.fail = what


def check_signal(ctx, tr, explicit_read=True):
    """read `values`, compare with the fresh twin and the eager evaluation"""
    E = env()
    np = E["np"]
    s = tr.obj
    with warnings.catch_warnings():
        warnings.simplefilter("ignore")
        got = np.array(s.values)
        tr.tok("r:values")
        tw = twin_signal(s)
        want = np.array(tw.values)
        eg = eager_values(s)
    ctx.run.count("signal_reads")
    scale = max(1e-300, float(np.max(np.abs(want))) if len(want) else 0.0)
    if got.shape != want.shape or not np.all(np.abs(got - want) <= 1e-12 * scale):
        ctx.note("%s.values differs from a freshly constructed signal with the same definition (max |diff| = %.3g, scale %.3g)"
                 % (type(s).__name__, float(np.max(np.abs(got - want))) if got.shape == want.shape else -1, scale))
    elif not np.all(np.abs(got - eg) <= 1e-9 * scale + 1e-12):
        ctx.note("%s.values differs from the eager evaluation of its definition (max |diff| = %.3g)"
                 % (type(s).__name__, float(np.max(np.abs(got - eg)))))
    if tr.read_before:
        ctx.run.count("read_mutate_read")
    tr.read_before = True


def check_object(ctx, tr, names=None):
    """read lazy attributes (all or the given ones) and compare with a fresh twin"""
    o = tr.obj
    allnames = lazy_names(o)
    names = names or allnames
    tw = twin_object(o)
    for n in names:
        before = keyset(o)
        got = read_attr(o, n)
        after = keyset(o)
        want = read_attr(tw, n)
        new = [k for k in after if k not in before]
        # tell the model which reads happened (nested lazy reads fill the cache too); `n` itself last
        for k in sorted(new, key=lambda k: (k == n, k)):
            tr.tok("r:" + k)
        tr.nested = getattr(tr, "nested", [])
        tr.nested.append((n, new, got[0] == "exc"))
        ctx.run.count("object_reads")
        if not same(got, want):
            ctx.note("%s.%s = %s but a freshly constructed object with the same attributes gives %s"
                     % (type(o).__name__, n, str(got)[:160], str(want)[:160]))
    if tr.read_before:
        ctx.run.count("read_mutate_read")
    tr.read_before = True


# ------------------------------------------------------------------------------------------------
# signal histories
def make_signal(run, kind):
    E = env()
    np, S, A = E["np"], E["S"], E["A"]
    rng = run.rng
    if kind == "FunctionSignal":
        n = rng.choice([8, 16, 33])
        if rng.random() < 0.55:
            dt = rng.choice([0.5, 1.0, 0.25])
            t0 = rng.choice([0.0, -4.0, 10.0])
            return S.FunctionSignal(t0 + dt * np.arange(n), rng.choice(E["funcs"]), rng.choice([None, "voltage"]))
        # sample spacings that are not binary fractions: buffer/dt is then rounded, and the decision
        # `int(b/dt) + (b % dt != 0)` of the code sits on floating-point boundaries
        dt = rng.choice([0.1, 0.1, 0.3, 0.7, 1e-9, 0.7e-9, 1.0 / 3])
        t0 = rng.choice([0.0, 0.0, -4.0, 10.0]) * dt
        times = t0 + dt * np.arange(n) if rng.random() < 0.5 else np.linspace(t0, t0 + n * dt, n, endpoint=False)
        f = rng.choice(E["funcs"])
        run.count("signal_nonbinary_dt")
        return S.FunctionSignal(times, (lambda t, f=f, sc=dt: f(np.asarray(t) / sc)), rng.choice([None, "voltage"]))
    n = rng.choice([32, 64])
    times = np.linspace(-10.0, 40.0, n, endpoint=False) if kind.endswith("Noise") else np.linspace(-10e-9, 40e-9, n, endpoint=False)
    if kind in ("FullThermalNoise", "FFTThermalNoise"):
        np.random.seed(rng.randrange(2 ** 31))
        return getattr(S, kind)(times, (0.05, 0.3), rms_voltage=1.0, uniqueness_factor=rng.choice([1, 2]))
    p = E["Particle"]("nu_e", vertex=(0, 0, -1000), direction=(0, 0, 1), energy=rng.choice([1e7, 1e8]))
    return getattr(A, kind)(times, p, np.radians(rng.choice([40.0, 50.0, 56.0])), viewing_distance=100.0)


def nonbinary(x):
    """is the sample spacing not a short binary fraction (so that buffer/dt gets rounded)?"""
    import math
    return (math.frexp(float(x))[0] * 2 ** 16) % 1 != 0


SIGNAL_KINDS = ["FunctionSignal", "FunctionSignal", "FullThermalNoise", "FFTThermalNoise", "ZHSAskaryanSignal",
                "AVZAskaryanSignal", "ARZAskaryanSignal"]


class OnceFailure(Exception):
    """the failure injected by the user callbacks below (a class of its own: pyrex catches RuntimeError / ValueError /
    TypeError in several places for its own purposes)"""


class FlakyFn:
    """a user generating function that raises (not a TypeError/ValueError, which `values` would absorb) on its next
    call when armed, and works afterwards"""

    def __init__(self, base):
        self.base = base
        self.fail_next = False

    def __call__(self, t):
        if self.fail_next:
            self.fail_next = False
            raise OnceFailure("generating function failed once")
        return self.base(t)


def flaky_function(ctx, tr, kind, unit):
    """EXCEPTION SAFETY of the lazy read: `values` raises half-way (one component evaluated, the next one fails),
    then is read again with no assignment in between: the second read must be what a fresh object reports"""
    E = env()
    np, S = E["np"], E["S"]
    rng = ctx.run.rng
    a = tr.obj
    fl = FlakyFn(rng.choice(E["funcs"][:3]) if kind == "FunctionSignal" else (lambda t: 0 * np.asarray(t) + 1e-3))
    other = S.FunctionSignal(a.times, fl, a.value_type)
    s = (a + other) if rng.random() < 0.5 else (other + a)
    tr.tok("call:__add__")
    ts = Tracked(s, "FunctionSignal", ["call:__add__@new_signal"])
    ts.keys.append(keyset(s))
    ctx.tracked.append(ts)
    ctx.hist.append("s = a + (function that can fail once) ; (continue on the result)")
    if rng.random() < 0.5:
        check_signal(ctx, ts)
        ctx.hist.append("read")
        s.shift(rng.choice([1.0, -2.0]) * unit)      # clears the cache: the next read evaluates again
        ts.tok("call:shift")
        ctx.hist.append("shift")
    for f in s._functions:
        if isinstance(f, FlakyFn):
            f.fail_next = True
    got = None
    try:
        with warnings.catch_warnings():
            warnings.simplefilter("ignore")
            got = s.values
    except OnceFailure:
        pass
    ctx.hist.append("read (the generating function raises)")
    ctx.run.count("failed_lazy_read_signal")
    if got is not None:
        ctx.note("FunctionSignal.values returned %s although its generating function raised" % (str(got)[:80],))
    if "values" in keyset(s):
        ctx.note("a failed read of FunctionSignal.values left a cache entry (%r)" % (s.__dict__.get("_lazy_values"),))
    ts.keys.append(keyset(s))
    ts.toks.append("m:_never_")             # (no effect in the model: a failing evaluation leaves the cache as it was)
    for f in s._functions:                  # the cause is gone (it failed once); make sure it is disarmed
        if isinstance(f, FlakyFn):
            f.fail_next = False
    check_signal(ctx, ts)                   # the second read: twin + eager evaluation
    ctx.hist.append("read again")
    return ts


def sum_handles(ctx, tr, kind, filters, unit):
    """Several live handles: a sum of function-backed signals, its operands, and copies / re-gridded versions
    of the sum must not share mutable internals.  Everything is read first; then one handle is mutated and all
    the OTHER handles are re-read: they must still report what they reported before, which is also what their
    never-mutated twins (built before the mutation) report.  Returns the handle the history continues on."""
    E = env()
    np, S = E["np"], E["S"]
    rng = ctx.run.rng
    a = tr.obj

    def track(obj, entry):
        t = Tracked(obj, "FunctionSignal" if type(obj) is S.FunctionSignal else type(obj).__name__
                    if type(obj).__name__ in SIGNAL_KINDS else "FunctionSignal", [entry])
        t.keys.append(keyset(obj))
        ctx.tracked.append(t)
        return t

    def rd(t):
        with warnings.catch_warnings():
            warnings.simplefilter("ignore")
            v = np.array(t.obj.values)
        if isinstance(t.obj, S.FunctionSignal):
            t.tok("r:values")
            t.read_before = True
        return v

    # the second operand: a plain function signal, another object of the same kind, or a scaled copy
    q = rng.random()
    if q < 0.3:
        # the signal's own DELAYED copy (whole-sample and sub-sample delays): same function object, buffers and filters,
        # only the time offset differs
        d = rng.choice([1.0, 3.0, 7.0, 0.3, 0.25, -0.5]) * unit
        c = a.copy()
        tr.tok("call:copy")
        tc0 = track(c, "call:copy@new_signal")
        c.shift(d)
        tc0.tok("call:shift")
        b = c.with_times(np.array(a.times))
        tc0.tok("call:with_times")
        tb = track(b, "call:with_times@new_signal")
        ctx.run.count("sum_with_own_delayed_copy")
    elif q < 0.6 or kind != "FunctionSignal":
        f = rng.choice(E["funcs"]) if kind == "FunctionSignal" else (lambda t: 0 * np.asarray(t) + 1e-3)
        b = S.FunctionSignal(a.times, f, a.value_type)
        tb = track(b, "call:__init__")
    elif q < 0.8:
        b = make_signal(ctx.run, kind)
        b.times = np.array(a.times)
        tb = track(b, "call:__init__")
        tb.tok("a:times")
    else:
        b = a * rng.choice([2.0, -0.5])
        tr.tok("call:__mul__")
        tb = track(b, "call:__mul__@new_signal")
    if rng.random() < 0.4:
        h, real = rng.choice(filters)
        b.filter_frequencies(h, force_real=real)
        tb.tok("call:filter_frequencies")
    order = rng.random() < 0.5
    ssum = (a + b) if order else (b + a)
    tr.tok("call:__add__")
    tb.tok("call:__add__")
    ts = track(ssum, "call:__add__@new_signal")
    handles = [("left operand" if order else "right operand", tr), ("right operand" if order else "left operand", tb),
               ("sum", ts)]
    desc = "s = %s" % ("a + b" if order else "b + a")
    if rng.random() < 0.4:          # a sum of sums
        c = S.FunctionSignal(a.times, rng.choice(E["funcs"]) if kind == "FunctionSignal" else (lambda t: 0 * np.asarray(t) + 2e-3),
                             a.value_type)
        tc = track(c, "call:__init__")
        s2 = (ssum + c) if rng.random() < 0.5 else (c + ssum)
        ts.tok("call:__add__")
        tc.tok("call:__add__")
        ts2 = track(s2, "call:__add__@new_signal")
        handles += [("third operand", tc), ("sum of sums", ts2)]
        desc += "; s2 = s + c"
    if rng.random() < 0.5:
        cp = ssum.copy()
        ts.tok("call:copy")
        handles.append(("copy of the sum", track(cp, "call:copy@new_signal")))
        desc += "; copy"
    if rng.random() < 0.5 and len(ssum.times) >= 8:
        wt = ssum.with_times(ssum.times[2:-1].copy())
        ts.tok("call:with_times")
        handles.append(("re-gridded sum", track(wt, "call:with_times@new_signal")))
        desc += "; with_times"
    # function-backed + sampled: the result is a sampled signal that must not follow its operands either
    vals = np.array([rng.randint(-8, 8) / 4.0 for _ in range(len(a.times))])
    sampled = S.Signal(a.times, vals, a.value_type)
    mixed = (a + sampled) if rng.random() < 0.5 else (sampled + a)
    tr.tok("call:__add__")
    tr.tok("r:values")
    tmix = Tracked(mixed, "Signal")
    ctx.hist.append("sum handles: %s; a + sampled" % desc)
    # ---- read everything, build never-mutated twins
    before = [rd(t) for _, t in handles]
    mixed_before = np.array(mixed.values)
    twins = [twin_signal(t.obj) for _, t in handles]
    # the sum is pointwise the sum of what its operands report (each evaluates its own function at t - t0)
    sc = max(1e-300, float(np.max(np.abs(before[0]) + np.abs(before[1]))))
    if before[2].shape != before[0].shape or not np.all(np.abs(before[2] - (before[0] + before[1])) <= 1e-9 * sc + 1e-13):
        ctx.note("the sum of two function-backed signals is not the pointwise sum of its operands' values "
                 "(max |diff| %.3g, scale %.3g)" % (float(np.max(np.abs(before[2] - (before[0] + before[1]))))
                                                    if before[2].shape == before[0].shape else -1, sc))
    # ---- mutate one handle after the other; all OTHER handles must be unaffected
    n_mut = rng.randint(1, 3)
    for _ in range(n_mut):
        mi = rng.randrange(len(handles))
        mname, mt = handles[mi]
        m = mt.obj
        how = rng.choice(["filter", "filter", "buffers", "buffers", "shift", "imul"])
        if how == "filter":
            h, real = rng.choice(filters)
            m.filter_frequencies(h, force_real=real)
            mt.tok("call:filter_frequencies")
        elif how == "buffers":
            m.set_buffers(leading=rng.choice([1.0, 2.0, 5.0]) * unit, trailing=rng.choice([None, 3.0 * unit]),
                          force=rng.random() < 0.3)
            mt.tok("call:set_buffers")
        elif how == "shift":
            m.shift(rng.choice([1.0, -2.0]) * unit)
            mt.tok("call:shift")
        else:
            m *= rng.choice([2.0, -0.5])
            mt.tok("call:__imul__")
        ctx.run.count("sum_handles_mutation_" + how)
        ctx.hist.append("%s of the %s" % (how, mname))
        with warnings.catch_warnings():
            warnings.simplefilter("ignore")
            for j, (name, t) in enumerate(handles):
                if j == mi:
                    continue
                now = rd(t)
                fresh = np.array(twins[j].values)
                scale = max(1e-300, float(np.max(np.abs(before[j]))) if len(before[j]) else 0.0)
                tol = 1e-12 * scale + 1e-13
                if now.shape != before[j].shape or not np.all(np.abs(now - before[j]) <= tol):
                    ctx.note("after %s on the %s, the %s reports other values than before (max |diff| %.3g, scale %.3g): "
                             "they share mutable internals" % (how, mname, name, float(np.max(np.abs(now - before[j])))
                                                               if now.shape == before[j].shape else -1, scale))
                elif not np.all(np.abs(np.array(twin_signal(t.obj).values) - fresh) <= tol):
                    ctx.note("after %s on the %s, a fresh copy of the %s evaluates differently from its never-mutated "
                             "twin: its definition was changed through a shared list" % (how, mname, name))
            if not np.array_equal(np.array(mixed.values), mixed_before):
                ctx.note("after %s on the %s, the sampled sum a + sampled changed" % (how, mname))
        # the mutated handle itself: refresh its reference values and twin
        before[mi] = rd(mt)
        twins[mi] = twin_signal(m)
        check_signal(ctx, mt)
    ctx.run.count("sum_handles")
    nxt = rng.choice(handles)[1]
    ctx.hist.append("(continue on the %s)" % [n for n, t in handles if t is nxt][0])
    check_signal(ctx, nxt)
    ctx.hist.append("read")
    return nxt


def signal_history(ctx, nsteps):
    E = env()
    np, S = E["np"], E["S"]
    rng = ctx.run.rng
    kind = rng.choice(SIGNAL_KINDS)
    s = make_signal(ctx.run, kind)
    unit = float(s.times[1] - s.times[0])
    tr = Tracked(s, kind, ["call:__init__"])
    tr.keys.append(keyset(s))
    ctx.tracked.append(tr)
    ctx.hist.append("new " + kind)
    filters = E["filters"] if kind == "FunctionSignal" else [(E["filters"][2][0], False), (lambda f: np.exp(-2j * np.pi * f * 2 * unit), True)]
    for _ in range(nsteps):
        s = tr.obj
        op = rng.choice(["read", "read", "shift", "imul", "idiv", "filter", "buffers", "resample", "with_times",
                         "add", "copy", "mul", "times_inplace", "respace", "add_sampled", "sum_handles", "sum_handles", "flaky_fn"]
                        + (["buffers", "buffers"] if nonbinary(unit) else []))
        ctx.run.count("sig_op_" + op)
        if op == "read":
            check_signal(ctx, tr)
            ctx.hist.append("read")
            continue
        if op == "shift":
            d = rng.choice([1.0, -2.5, 0.75]) * unit
            s.shift(d)
            tr.tok("call:shift")
            ctx.hist.append("shift %g" % d)
        elif op == "respace":
            # filter / read / new sample spacing with the SAME number of samples / read
            if not any(len(g) for g in s._filters) or rng.random() < 0.3:
                h, real = rng.choice(filters[:2] if kind == "FunctionSignal" else filters[1:])
                s.filter_frequencies(h, force_real=real)
                tr.tok("call:filter_frequencies")
                ctx.hist.append("filter_frequencies %s" % getattr(h, "__name__", "delay"))
            check_signal(ctx, tr)
            ctx.hist.append("read")
            k = rng.choice([2.0, 4.0, 0.5])
            nt = s.times[0] - rng.choice([0.0, 1.0]) * unit + (s.times - s.times[0]) * k
            if rng.random() < 0.5:
                s.times = nt
                tr.tok("a:times")
                ctx.hist.append("times = <same length, spacing x%g>" % k)
            else:
                new = s.with_times(nt)
                tr.tok("call:with_times")
                ntr = Tracked(new, "FunctionSignal", ["call:with_times@new_signal"])
                ntr.keys.append(keyset(new))
                ctx.tracked.append(ntr)
                tr = ntr
                ctx.hist.append("with_times <same length, spacing x%g> ; (continue on the result)" % k)
            check_signal(ctx, tr)
            ctx.hist.append("read")
            continue
        elif op == "sum_handles":
            tr = sum_handles(ctx, tr, kind, filters, unit)
            continue
        elif op == "flaky_fn":
            tr = flaky_function(ctx, tr, kind, unit)
            continue
        elif op == "add_sampled":
            # function-backed + sampled / empty signal, both operand orders
            with warnings.catch_warnings():
                warnings.simplefilter("ignore")
                vals = np.array([rng.randint(-8, 8) / 4.0 for _ in range(len(s.times))])
                sig = S.Signal(s.times, vals, s.value_type)
                want = eager_values(s) + vals
                r1, r2 = s + sig, sig + s
                tr.tok("call:__add__")          # (the sampled branch of __add__ reads `values`)
                tr.tok("r:values")
                scale = max(1e-300, float(np.max(np.abs(want))))
                for name, r in (("function + sampled", r1), ("sampled + function", r2)):
                    if type(r) is not S.Signal or not np.all(np.abs(r.values - want) <= 1e-9 * scale + 1e-12):
                        ctx.note("%s: %s is not the pointwise sum of the sampled values and the eager evaluation "
                                 "of the function signal" % (type(s).__name__, name))
                emp = S.EmptySignal(s.times, s.value_type)
                if rng.random() < 0.5:
                    new, entry = s + emp, "__add__"
                    tr.tok("call:__add__")
                else:
                    new, entry = emp + s, "copy"
                    tr.tok("call:copy")
            tr.read_before = True
            ntr = Tracked(new, "FunctionSignal", ["call:%s@new_signal" % entry])
            ntr.keys.append(keyset(new))
            ctx.tracked.append(ntr)
            ctx.hist.append("f+sampled, sampled+f, %s" % ("f+empty" if entry == "__add__" else "empty+f"))
            if rng.random() < 0.6:
                tr = ntr
                ctx.hist.append("(continue on the result)")
            check_signal(ctx, tr)
            ctx.hist.append("read")
            continue
        elif op == "times_inplace":
            # the array is changed in place and the SAME object is handed to __setattr__:
            # `sig.times += d`, or fetch / edit / assign back
            d = rng.choice([0.5, -1.0, 2.0]) * unit
            if rng.random() < 0.5:
                s.times += d
                ctx.hist.append("times += %g (in place)" % d)
            else:
                t = s.times
                t += d
                s.times = t
                ctx.hist.append("t = times; t += %g; times = t (same object)" % d)
            tr.tok("a:times")
        elif op in ("imul", "idiv"):
            # metamorphic oracle, independent of the stored factors: values after = values before * k (or / k)
            k = rng.choice([2.0, -0.5, 3.0, 0.7]) if op == "imul" else rng.choice([2.0, 4.0, 3.0, 0.7])
            before = None
            if rng.random() < 0.5:
                with warnings.catch_warnings():
                    warnings.simplefilter("ignore")
                    before = np.array(s.values)
                tr.tok("r:values")
                tr.read_before = True
            if op == "imul":
                s *= k
                tr.tok("call:__imul__")
                ctx.hist.append("*= %g" % k)
            else:
                s /= k
                tr.tok("call:__itruediv__")
                ctx.hist.append("/= %g" % k)
            if before is not None:
                with warnings.catch_warnings():
                    warnings.simplefilter("ignore")
                    after = np.array(s.values)
                tr.tok("r:values")
                want = before * k if op == "imul" else before / k
                sc = max(1e-300, float(np.max(np.abs(want))))
                if not np.all(np.abs(after - want) <= 1e-9 * sc + 1e-13):    # (floor: a delay can empty the window)
                    ctx.note("%s: values after `%s %g` are not the values before times/divided by the factor "
                             "(max rel. deviation %.3g)" % (type(s).__name__, "*=" if op == "imul" else "/=", k,
                                                           float(np.max(np.abs(after - want))) / sc))
                ctx.hist.append("(values compared with the values before the scaling)")
        elif op == "filter":
            h, real = rng.choice(filters)
            s.filter_frequencies(h, force_real=real)
            tr.tok("call:filter_frequencies")
            ctx.hist.append("filter_frequencies %s" % getattr(h, "__name__", "delay"))
        elif op == "buffers":
            force = rng.random() < 0.3
            if rng.random() < 0.5:
                l = rng.choice([None, 0.0, 1.0, 2.6, 5.0]) if rng.random() < 0.9 else -1.0
                t = rng.choice([None, 0.0, 3.0]) if rng.random() < 0.85 else -2.0   # rejected AFTER the leading part
                l = None if l is None else l * unit
                t = None if t is None else t * unit
            else:
                # on and next to integer multiples of dt, as they come out of floating point arithmetic
                def near_multiple():
                    k = rng.randint(0, 14)
                    if rng.random() < 0.5:
                        # the floating-point boundary itself: b/dt rounds to an integer, b % dt is not zero
                        cands = []
                        for kk in range(1, 15):
                            for c in (kk * unit, float("%.10g" % (kk * unit)), float(np.nextafter(kk * unit, 0.0)),
                                      float(np.nextafter(kk * unit, np.inf)), sum([unit] * kk)):
                                if c > 0 and float(c / unit).is_integer() and c % unit != 0:
                                    cands.append(c)
                        if cands:
                            ctx.run.count("set_buffers_on_float_boundary")
                            return rng.choice(cands)
                    b = k * unit
                    how = rng.randrange(6)
                    if how == 1:
                        b = float(np.nextafter(b, np.inf))
                    elif how == 2 and b > 0:
                        b = float(np.nextafter(b, 0.0))
                    elif how == 3:
                        b = float("%.10g" % b)           # the decimal literal a user would type (0.5, 0.9, 1.3)
                    elif how == 4:
                        b = sum([unit] * k)              # accumulated
                    elif how == 5:
                        b = (k + 0.5) * unit
                    return max(b, 0.0)
                l = near_multiple() if rng.random() < 0.85 else None
                t = near_multiple() if rng.random() < 0.6 else None
                force = force or rng.random() < 0.4
                ctx.run.count("set_buffers_near_multiple_of_dt")
            try:
                s.set_buffers(leading=l, trailing=t, force=force)
            except ValueError:
                ctx.run.count("set_buffers_rejected")
            tr.tok("call:set_buffers")
            ctx.hist.append("set_buffers %s %s %s" % (l, t, force))
        elif op == "resample":
            m = rng.choice([len(s.times), len(s.times) * 2 - 1, len(s.times) + 3])
            if ctx.model and m == len(s.times):
                m += 1        # the no-op branch has no effect; the flattened effect list has (see below)
            s.resample(m)
            tr.tok("call:resample")
            ctx.hist.append("resample %d" % m)
        elif op in ("with_times", "add", "copy", "mul"):
            if op == "with_times":
                a, b = rng.randint(0, 2), rng.randint(0, 2)
                if len(s.times) - a - b < 4:
                    continue
                q = rng.random()
                if q < 0.55:
                    nt = s.times[a:len(s.times) - b].copy()
                elif q < 0.75:
                    nt = s.times + rng.choice([0.5, 3.0]) * unit
                else:       # same number of samples, different sample spacing
                    nt = s.times[0] + (s.times - s.times[0]) * rng.choice([2.0, 0.5, 4.0])
                    ctx.run.count("with_times_new_spacing")
                new = s.with_times(nt)
                entry = "with_times"
            elif op == "add":
                other = S.FunctionSignal(s.times, rng.choice(E["funcs"]) if kind == "FunctionSignal" else (lambda t: 0 * t + 1e-3))
                new = s + other
                entry = "__add__"
            elif op == "copy":
                new = s.copy()
                entry = "copy"
            else:
                new = s * rng.choice([3.0, 0.25])
                entry = "__mul__"
            tr.tok("call:" + entry)
            ntr = Tracked(new, "FunctionSignal", ["call:%s@new_signal" % entry])
            ntr.keys.append(keyset(new))
            ctx.tracked.append(ntr)
            ctx.hist.append(op)
            if rng.random() < 0.6:
                tr = ntr          # continue on the derived object
                ctx.hist.append("(continue on the result)")
        if rng.random() < 0.5:
            check_signal(ctx, tr)
            ctx.hist.append("read")
    check_signal(ctx, tr)
    ctx.hist.append("read")


# ------------------------------------------------------------------------------------------------
# tracer / path histories
def flaky_ice_for(o):
    """an ice model of the right family whose `index` raises once when armed"""
    E = env()
    I = E["I"]
    uniform = type(o).__name__.startswith(("Uniform", "UserUniform"))
    key = "FlakyUniform" if uniform else "FlakyAntarctic"
    if key not in E:
        base = I.UniformIce if uniform else I.AntarcticIce

        class Flaky(base):
            fail_next = False

            def index(self, z):
                if self.fail_next:
                    self.fail_next = False
                    raise OnceFailure("ice model failed once")
                return super().index(z)
        Flaky.__name__ = key
        E[key] = Flaky
    return E[key](1.6) if uniform else E[key]()


def flaky_ice_step(ctx, tr):
    """EXCEPTION SAFETY on tracers and paths: a lazy read raises half-way because the ice model fails once; the next
    read (no assignment in between) must be what a fresh object reports - never None, never a half result"""
    o = tr.obj
    rng = ctx.run.rng
    ice = flaky_ice_for(o)
    o.ice = ice
    tr.tok("a:ice")
    ctx.hist.append("%s.ice = <ice model that can fail once>" % type(o).__name__)
    names = lazy_names(o)
    for n in rng.sample(names, min(len(names), rng.randint(1, 3))):
        before = keyset(o)
        ice.fail_next = True
        r1 = read_attr(o, n)
        failed = ice.fail_next is False and r1[:1] == ("exc",)
        ice.fail_next = False
        after = keyset(o)
        for k in sorted(k for k in after if k not in before):
            tr.tok("r:" + k)
        if failed:
            ctx.run.count("failed_lazy_read_object")
            ctx.hist.append("read %s (the ice model raises)" % n)
            if r1 != ("exc", "OnceFailure"):
                ctx.note("%s.%s: the failure of the ice model surfaced as %s" % (type(o).__name__, n, r1))
            if n in after:
                ctx.note("a failed read of %s.%s left the cache entry %r" % (type(o).__name__, n, o.__dict__.get("_lazy_" + n)))
        check_object(ctx, tr, [n])          # the second read, against a fresh twin
        ctx.hist.append("read %s again" % n)


def ices():
    E = env()
    I = E["I"]
    if "ices" not in E:
        E["ices"] = [I.AntarcticIce(), I.ArasimIce() if hasattr(I, "ArasimIce") else I.AntarcticIce(),
                     I.UniformIce(1.5), I.UniformIce(1.78, index_below=1.2)]
    return E["ices"]


def rnd_point(rng, deep):
    z = rng.uniform(-600, -200) if deep else rng.uniform(-150, -20)
    return (rng.uniform(-50, 50), rng.uniform(-50, 50), z)


def make_tracer(run):
    E = env()
    R, np = E["R"], E["np"]
    rng = run.rng
    kind = rng.choice(["SpecializedRayTracer", "SpecializedRayTracer", "BasicRayTracer", "UniformRayTracer",
                       "UniformRayTracer"] + (["LayeredRayTracer"] if E["LayeredRayTracer"] else []))
    a, b = rnd_point(rng, True), (rng.uniform(60, 400), rng.uniform(-40, 40), rng.uniform(-150, -20))
    if rng.random() < 0.06:       # an endpoint outside the ice: no solutions, still no stale values
        b = (b[0], b[1], rng.choice([5.0, 0.0]))
        run.count("endpoint_on_or_above_surface")
    if rng.random() < 0.5:
        # float arrays owned by the caller (the constructors copy them; the caller may edit them later)
        a, b = np.array(a, dtype=float), np.array(b, dtype=float)
    elif rng.random() < 0.3:
        a, b = list(a), list(b)
    E["last_ctor_args"] = (a, b)
    if kind == "UniformRayTracer":
        cls = R.UniformRayTracer
        if rng.random() < 0.35:
            if "UserUniform" not in E:
                E["UserUniform"] = type("UserUniformRayTracer", (R.UniformRayTracer,), {})   # inherits max_reflections
            cls = E["UserUniform"]
            run.count("user_subclass_tracer")
        return kind, cls(a, b, rng.choice(ices()[2:]))
    if kind == "LayeredRayTracer":
        I = E["I"]
        lay = E["LayeredIce"]([I.UniformIce(1.35, valid_range=(-100, 0)), I.UniformIce(1.78, valid_range=(-2850, -100))])
        return kind, E["LayeredRayTracer"](a, b, lay)
    if kind == "BasicRayTracer":
        return kind, R.BasicRayTracer(a, b, ice_model=ices()[0], dz=rng.choice([2, 5]))
    return kind, R.SpecializedRayTracer(a, b, ice_model=rng.choice(ices()[:2]))


def object_history(ctx, nsteps):
    E = env()
    np = E["np"]
    rng = ctx.run.rng
    kind, rt = make_tracer(ctx.run)
    ctor_args = E.get("last_ctor_args")
    tr = Tracked(rt, kind, ["call:__init__"])
    tr.keys.append(keyset(rt))
    ctx.tracked.append(tr)
    ctx.hist.append("new %s %s -> %s" % (type(rt).__name__, list(map(float, rt.from_point)), list(map(float, rt.to_point))))
    for _ in range(nsteps):
        o = tr.obj
        is_tracer = hasattr(type(o), "solutions")
        r = rng.random()
        if r < 0.3:
            names = [rng.choice(lazy_names(o))] if rng.random() < 0.6 else None
            check_object(ctx, tr, names)
            ctx.hist.append("read %s" % (names or "all"))
            continue
        if r < 0.42 and is_tracer:
            # descend into a path of the current solutions
            check_object(ctx, tr, ["solutions"])      # first, so that the model is told about the reads
            try:
                with warnings.catch_warnings():
                    warnings.simplefilter("ignore")
                    sols = o.solutions
            except Exception:
                sols = []
            if sols:
                p = rng.choice(sols)
                ptr = Tracked(p, type(p).__name__, ["call:__init__"])
                ptr.keys.append([])
                for k in keyset(p):         # comparing `solutions` has already read tof / path_length
                    ptr.tok("r:" + k)
                ptr.read_before = True
                ctx.tracked.append(ptr)
                tr = ptr
                ctx.hist.append("descend into solution %d (%s)" % (sols.index(p), type(p).__name__))
            continue
        cname = type(o).__name__
        if cname.startswith("UserUniform"):
            cname = "UniformRayTracer"
        if "ice" in o.__dict__ and not cname.startswith("Layered") and rng.random() < 0.07:
            flaky_ice_step(ctx, tr)
            continue
        if o is rt and isinstance(ctor_args[0], np.ndarray) and rng.random() < 0.15:
            # the caller edits the arrays it passed to the constructor: the tracer must not notice (it copied them)
            ctor_args[rng.randrange(2)][2] -= 7.5
            ctx.hist.append("caller edits its own constructor array in place")
            ctx.run.count("caller_edits_ctor_array")
            check_object(ctx, tr, None if rng.random() < 0.5 else [rng.choice(lazy_names(o))])
            ctx.hist.append("read")
            continue
        if r < 0.56:
            # in-place change of an endpoint array, then the SAME object goes through __setattr__
            attr = rng.choice(["from_point", "to_point"])
            cur = getattr(o, attr)
            target = np.array(rnd_point(rng, True)) if attr == "from_point" else \
                np.array((rng.uniform(60, 400), rng.uniform(-40, 40), rng.uniform(-150, -20)))
            if not (isinstance(cur, np.ndarray) and cur.dtype == float):
                setattr(o, attr, np.array(cur, dtype=float))      # (make it an editable float array first)
                tr.tok("a:" + attr)
                cur = getattr(o, attr)
            how = rng.randrange(3)
            if how == 0:
                delta = target - cur
                if attr == "from_point":
                    o.from_point += delta
                else:
                    o.to_point += delta
                ctx.hist.append("%s.%s += %s (in place)" % (cname, attr, [round(float(x), 3) for x in delta]))
            elif how == 1:
                p = getattr(o, attr)
                p[2] = target[2]
                p[0] = target[0]
                setattr(o, attr, p)
                ctx.hist.append("p = %s.%s; p[0], p[2] = %.3f, %.3f; %s = p (same object)" % (cname, attr, target[0], target[2], attr))
            else:
                p = getattr(o, attr)
                p[...] = target
                setattr(o, attr, p)
                ctx.hist.append("p = %s.%s; p[...] = %s; %s = p (same object)" % (cname, attr, [round(float(x), 3) for x in target], attr))
            tr.tok("a:" + attr)
            ctx.run.count("assign_same_object_" + attr)
            if rng.random() < 0.75:
                check_object(ctx, tr, None if rng.random() < 0.5 else [rng.choice(lazy_names(o))])
                ctx.hist.append("read")
            continue
        # an assignment
        choices = ["from_point", "to_point"]
        if "ice" in o.__dict__ and cname not in ("LayeredRayTracer", "LayeredRayTracePath"):
            choices.append("ice")
        if "dz" in o.__dict__:
            choices.append("dz")
        if cname == "UniformRayTracer":
            choices += ["max_reflections", "max_reflections"]
        if cname == "LayeredRayTracer":
            choices += ["max_reflections", "solution_sorting"]
        if cname == "SpecializedRayTracePath":
            choices += ["uniformity_factor", "beta_tolerance", "theta0", "direct"]
        if cname == "BasicRayTracePath":
            choices += ["theta0", "direct"]
        if cname == "UniformRayTracePath":
            choices += ["theta0"]
        attr = rng.choice(choices)
        if attr == "from_point":
            val = np.array(rnd_point(rng, True))
        elif attr == "to_point":
            val = np.array((rng.uniform(60, 400), rng.uniform(-40, 40), rng.uniform(-150, -20)))
        elif attr == "ice":
            pool = ices()[2:] if cname.startswith("Uniform") else ices()[:2]
            if cname == "UniformRayTracer" and rng.random() < 0.2:
                pool = ices()[:1]       # a non-uniform ice model: `exists` / `solutions` raise TypeError, persistently
                ctx.run.count("uniform_tracer_with_nonuniform_ice")
            val = rng.choice(pool)
        elif attr == "dz":
            val = rng.choice([1, 2, 5])
        elif attr == "max_reflections":
            val = rng.choice([0, 1, 2])
        elif attr == "solution_sorting":
            val = rng.choice([None, (lambda path: -path.tof), (lambda path: path.path_length)])
        elif attr == "uniformity_factor":
            val = rng.choice([0.99999, 0.9, 0.95])
        elif attr == "beta_tolerance":
            val = rng.choice([0.005, 0.05, 0.2])
        elif attr == "theta0":
            val = o.theta0 * rng.choice([0.9, 1.05, 0.5]) if abs(o.theta0) > 1e-6 else 0.3
        elif attr == "direct":
            val = not o.direct
        setattr(o, attr, val)
        tr.tok("a:" + attr)
        ctx.run.count("assign_" + attr)
        ctx.hist.append("%s.%s = %s" % (cname, attr, str(val)[:60]))
        if rng.random() < 0.6:
            check_object(ctx, tr, None if rng.random() < 0.5 else [rng.choice(lazy_names(o))])
            ctx.hist.append("read")
    check_object(ctx, tr)
    ctx.hist.append("read all")


# ------------------------------------------------------------------------------------------------
_info = {}


def class_info(name):
    """clearing set / lazy properties / lazy closure / method entries of a class, from the model driver"""
    if name not in _info:
        rep = fw.run_driver("C06", ["info " + name])[0]
        if not rep.startswith("ok "):
            _info[name] = None
        else:
            a, b, c = rep[3:].split(" ; ")
            lz = {}
            for ent in b.split():
                p, _, ds = ent.partition(":")
                lz[p] = [d for d in ds.split(",") if d]
            clo = {}
            for p in lz:
                seen, todo = set(), [p]
                while todo:
                    q = todo.pop()
                    for d in lz.get(q, []):
                        if d not in seen:
                            seen.add(d)
                            todo.append(d)
                clo[p] = seen
            _info[name] = {"clearing": a.split(","), "lazy": sorted(lz), "closure": clo, "methods": c.split()}
    return _info[name]


def correspondence(run):
    nh = run.scale(120, 1500)
    maxlen = run.scale(15, 25)
    ok = True
    reqs, wants = [], []
    for h in range(nh):
        ctx = Ctx(run)
        sig = run.rng.random() < 0.5
        try:
            (signal_history if sig else object_history)(ctx, run.rng.randint(3, maxlen))
        except Exception as e:
            history_crashed(ctx, e)
        for i in range(len(ctx.hist)):
            run.case(("hist", ctx.hist[0], tuple(ctx.hist[max(1, i - 2):i + 1]), i), nontrivial=i > 0,
                     sample={"history": ctx.hist[:12]})
        if ctx.fail:
            ok = False
            run.note_broken("correspondence: history `%s`: %s" % (" ; ".join(ctx.hist)[:900], ctx.fail))
            run.fail_input("history", {"history": ctx.hist, "seed_note": "re-run the check with the same VERIF_SEED"},
                           observed=ctx.fail, expected="every lazy attribute equals the freshly constructed twin's",
                           what=ctx.fail)
        for tr in ctx.tracked:
            run.count("tracked_" + tr.cls_name)
            info = class_info(tr.cls_name)
            if info is None:
                ok = False
                run.note_broken("correspondence: class %s is not in the generated table" % tr.cls_name)
                continue
            # translator's lazy list vs introspection
            if info["lazy"] != lazy_names(tr.obj):
                ok = False
                run.note_broken("correspondence: lazy properties of %s: translator %s, introspection %s"
                                % (tr.cls_name, info["lazy"], lazy_names(tr.obj)))
            # nested reads must stay inside the extracted lazy closure
            for (n, new, failed) in getattr(tr, "nested", []):
                extra = [k for k in new if k != n and k not in info["closure"].get(n, ())]
                if extra:
                    ok = False
                    run.note_broken("correspondence: reading %s.%s filled %s, outside the extracted lazy dependencies %s"
                                    % (tr.cls_name, n, extra, sorted(info["closure"].get(n, ()))))
            # `method@new_signal` names the object created inside `method`; the local variable may be called
            # differently in the source: use a table entry `method@<variable>`
            toks = []
            for t in tr.toks:
                if t.startswith("call:") and t.endswith("@new_signal") and t[5:] not in info["methods"]:
                    cands = [m for m in info["methods"] if m.startswith(t[5:].split("@")[0] + "@")]
                    if cands:       # (several branches may each create the object: the entries are fresh-object
                        t = "call:" + sorted(cands)[0]     #  effect lists without reads, any of them gives the same keys)
                toks.append(t)
            tr.toks = toks
            reqs.append("keys %s %s" % (tr.cls_name, " ".join(tr.toks)))
            wants.append((tr, list(ctx.hist)))
        if len(run.broken) > 6:
            break
    replies = fw.run_driver("C06", reqs)
    for rq, (tr, hist), rp in zip(reqs, wants, replies):
        if not rp.startswith("ok "):
            ok = False
            run.note_broken("correspondence: request `%s` model `%s`" % (rq[:300], rp))
            continue
        model = [[k for k in part.split(",") if k] for part in rp[3:].split("|")]
        impl = tr.keys
        # The effect lists flatten branches (conditional reads count, conditional clears do not), so the
        # model's key set is an over-approximation of the `_lazy_*` keys: a key the implementation holds
        # and the model does not means the implementation kept an entry the model says was dropped.
        for i, (tok, mk, ik) in enumerate(zip(tr.toks, model, impl)):
            nxt = tr.toks[i + 1] if i + 1 < len(tr.toks) else ""
            if tok.startswith("r:") and nxt.startswith("r:"):
                continue
            if not set(ik) <= set(mk):
                ok = False
                run.note_broken("correspondence: %s after `%s` (token %d of `%s`): model cache keys %s, implementation %s; history `%s`"
                                % (tr.cls_name, tok, i, " ".join(tr.toks)[:300], mk, ik, " ; ".join(hist)[:500]))
                break
            run.count("keyset_exact" if sorted(mk) == sorted(ik) else "keyset_model_superset")
            run.traces += 1
        if len(run.broken) > 8:
            break
    return ok


def search(run, deep):
    """model-free: the fresh-twin comparison on more and longer histories"""
    nh = 600 if deep else run.scale(60, 600)
    for h in range(nh):
        ctx = Ctx(run, model=False)
        sig = run.rng.random() < 0.5
        try:
            (signal_history if sig else object_history)(ctx, run.rng.randint(3, 25 if deep else 15))
        except Exception as e:
            history_crashed(ctx, e)
        for i in range(len(ctx.hist)):
            run.case(("search", ctx.hist[0], tuple(ctx.hist[max(1, i - 2):i + 1]), i), nontrivial=i > 0)
        if ctx.fail:
            run.fail_input("history", {"history": ctx.hist, "search_index": h},
                           observed=ctx.fail, expected="every lazy attribute equals the freshly constructed twin's",
                           what=ctx.fail)
    fixed_regressions(run)
    boundary_probes(run)


def fixed_regressions(run):
    """the failing inputs of the repaired defects F2 and F14 stay in the corpus"""
    E = env()
    np, S, R, I = E["np"], E["S"], E["R"], E["I"]
    fs = S.FunctionSignal(np.arange(32) * 0.5, E["funcs"][0])
    fs.filter_frequencies(E["filters"][0][0], force_real=True)
    fs.values
    fs.set_buffers(leading=5.0)
    got, want = np.array(fs.values), np.array(twin_signal(fs).values)
    run.case(("regression", "F2"), nontrivial=True)
    if not np.allclose(got, want, rtol=0, atol=1e-12 * np.max(np.abs(want))):
        run.fail_input("F2", {"history": ["FunctionSignal", "filter_frequencies(lp)", "read", "set_buffers(leading=5)", "read"]},
                       observed="stale values after set_buffers (max diff %.3g)" % float(np.max(np.abs(got - want))),
                       expected="values of a fresh signal", what="set_buffers does not invalidate cached values")
    rt = R.UniformRayTracer((0, 0, -300), (100, 0, -100), I.UniformIce(1.78, index_below=1.2))
    n0 = len(rt.solutions)
    rt.max_reflections = 2
    n1 = len(rt.solutions)
    tw = twin_object(rt)
    run.case(("regression", "F14"), nontrivial=True)
    if n1 != len(tw.solutions):
        run.fail_input("F14", {"history": ["UniformRayTracer", "read solutions", "max_reflections = 2", "read solutions"]},
                       observed="%d solutions (before the assignment: %d)" % (n1, n0), expected=len(tw.solutions),
                       what="assigning a class-level setting does not invalidate cached solutions")


def boundary_probes(run):
    """regions the histories keep away from: function-backed signals on a DECREASING grid (dt < 0)"""
    E = env()
    np, S = E["np"], E["S"]
    f = E["funcs"][2]
    s = S.FunctionSignal(np.array([3.0, 2.5, 2.0, 1.5, 1.0]), f)
    v0 = np.array(s.values)
    run.case(("boundary", "decreasing grid"), nontrivial=True)
    if not np.allclose(v0, f(s.times), rtol=1e-12, atol=0):
        run.fail_input("decreasing-grid", {"times": list(s.times)}, observed=list(v0), expected=list(f(s.times)),
                       what="function-backed signal on a decreasing grid is not f(times)")
    s.shift(0.5)
    s *= 2.0
    if not np.allclose(s.values, 2.0 * v0, rtol=1e-12, atol=0) or not np.allclose(s.values, twin_signal(s).values):
        run.fail_input("decreasing-grid", {"times": list(s.times), "history": ["read", "shift 0.5", "*= 2", "read"]},
                       what="stale or wrong values after shift / scaling on a decreasing grid")
    s.set_buffers(leading=1.0)
    try:
        s.values
        got = "values"
    except ValueError:
        got = "ValueError"
    except Exception as e:      # noqa
        got = type(e).__name__
    if got != "ValueError":      # a negative point count must be refused, not evaluated on a wrong grid
        run.fail_input("decreasing-grid", {"times": list(s.times), "leading_buffer": 1.0}, observed=got,
                       expected="ValueError", what="leading buffer on a decreasing grid")


def known_probes(run):
    """K10: data closed over by the signal function of the thermal-noise classes is not tracked"""
    E = env()
    np, S = E["np"], E["S"]
    for cls in (S.FullThermalNoise, S.FFTThermalNoise):
        np.random.seed(0)
        n = cls(np.linspace(0, 50, 64, endpoint=False), (0.05, 0.3), rms_voltage=1.0)
        a = np.array(n.values)
        n.rms = 2.0
        b = np.array(n.values)
        n._clear_cache()
        c = np.array(n.values)
        if np.array_equal(a, b) and not np.allclose(b, c):
            run.known_finding("K10")
    known_probes_k16(run)


def known_probes_k16(run):
    """K19: a ray path shares the endpoint arrays of the tracer that created it"""
    E = env()
    np, R = E["np"], E["R"]
    rt = R.SpecializedRayTracer((0, 0, -300.0), (150.0, 40.0, -100.0))
    sols = rt.solutions
    if not sols:
        return
    p = sols[0]
    n0_before = float(p.n0)
    rt.from_point += np.array([0.0, 0.0, -200.0])        # an attribute assignment on the TRACER
    tw = twin_object(p)
    run.case(("known", "K19"), sample={"shared_array": p.from_point is rt.from_point})
    if p.from_point is rt.from_point and float(p.n0) == n0_before and abs(float(tw.n0) - n0_before) > 1e-6:
        run.known_finding("K19")


def replay(run, data):
    """histories are regenerated from the recorded seed: the generation loops of the correspondence run and of
    the search are repeated in the original order (the model driver is not needed for the fresh-twin oracle)"""
    import random
    if data.get("kind") in ("F2", "F14"):
        fixed_regressions(run)
        return
    run.rng = random.Random("%s-%d" % (run.pid, int(data.get("seed", run.seed))))
    run.tier = data.get("tier", run.tier)
    nh = run.scale(120, 1500)
    maxlen = run.scale(15, 25)
    for h in range(nh):
        ctx = Ctx(run)
        sig = run.rng.random() < 0.5
        try:
            (signal_history if sig else object_history)(ctx, run.rng.randint(3, maxlen))
        except Exception as e:
            history_crashed(ctx, e)
        if ctx.fail:
            run.fail_input("history", {"history": ctx.hist}, observed=ctx.fail, what=ctx.fail)
    search(run, True)
