"""C07 - Askaryan pulses obey their scaling laws and fail gracefully.

Float twin of lean/twin/Askaryan.body against pyrex.askaryan (ZHS / AVZ / ARZ), plus a property-level
search on the implementation alone (the scaling relations themselves)."""
import math
import warnings

import numpy as np

import framework as fw

LEVEL = "proof"
USE_TWINS = True
EXTRACTORS = ["askaryan_consts"]
TECHNIQUE = ("Lean 4 theorems over the real-number reading of a twin model (spectra, naive DFTs, roll/pad/crop, "
             "ARZ index bookkeeping) + Float-twin differential run + metamorphic search on the implementation")
RULE = ("energies 10^U(3,12) GeV x (EM only / hadronic only / mixed fractions) x viewing angles in [-pi,pi] (on the "
        "cone, 1e-4..0.2 rad off it on either side, uniform, 0, +-pi, both signs) x distances 10^U(0,4) m x vertex "
        "depths U(-2800,-5) m (index from AntarcticIce) x grids (odd and even N, dt in 0.05..2 ns incl. non-round, "
        "offsets 0 / -37 ns / 1 us / random) x shower times t0 = times[0]+(k+frac)dt with frac in [0.1,0.9] (for ARZ "
        "also the fractional part of the sub-sample index kept in [0.1,0.9]; for ZHS/AVZ frac = 0, i.e. exactly on a "
        "grid sample, in half of the cases), k inside, before and far outside the "
        "window; plus, for the search, ARZ pulses 5e-4..0.13 rad off the cone compared with an independent quadrature "
        "of the convolution integral, and weak showers (hadronic energy 3e-3 GeV..1.6 TeV, EM part absent / dominant / "
        "weak) exactly on the cone (+-arccos(1/n) bitwise), near and off it for all three models (finite, right "
        "length); ice models: the AntarcticIce defaults, AntarcticIce with random (n0,k,a), UniformIce, GreenlandIce, "
        "ArasimIce (index at the vertex differs from the module default); ARZ angles inside the +-4.5e-7 rad on-cone "
        "window; shower times exactly at the ZHS/AVZ cut |shift| = len(trace) +- 2; call forms (list / tuple times, "
        "Python-int, numpy-int, numpy-scalar and 0-d-array scalars, keywords, omitted defaults, tuple vertex, the "
        "aliases AskaryanSignal and ARVZAskaryanSignal), caller-owned arrays (also modified in place before the first "
        "read of a lazily evaluated pulse), re-gridding with with_times / "
        "times assignment, and evaluation order with importlib.reload in between; a case is non-trivial when the energy is non-zero and the pulse is not cut to all-zero; distinct = "
        "distinct (model, parameters, grid) tuples")
LEVEL_TEXT = ("theorems C07_* proved over R for the model text (1/R exactly, evenness in the angle, joint shift, "
              "whole-sample moves (ARZ up to the signal class, sum over showers), zero energy, non-vanishing "
              "denominators, cone factors maximal at theta_c and strictly monotone, linearity in E on the cone - for "
              "ARZ for every shower mixture); the same text run on Float agrees with the three "
              "pyrex classes on every sampled input (1e-9 of the peak) and, for ARZ, the index bookkeeping and the "
              "shift/pad/crop/decimate/diff stage agree on the implementation's own profile/RAC arrays and on "
              "arbitrary (random) profile and potential functions")
LEVEL_NOTE = ("floating-point rounding is not modelled (tolerance run; ARZ fractional parts kept away from int() "
              "boundaries); numpy fft/ifft/irfft/convolve/trapz are modelled by their mathematical definition. "
              "_partial theorems: C07_whole_sample_move_arz_partial (signal class, sum over both showers) and "
              "C07_whole_sample_move_arz_shower_partial (one shower, arbitrary profile/potential) prove new[i] = old[i-m] "
              "for every m <= i < N under ArzShowerMoves: zero energy, or on the cone with a uniform grid, or off the "
              "cone with dt != 0, z_to_t != 0, neither shower time skipped, n_RAC >= 1 and the argument of n_shift = "
              "int((t_start+10ns)/(dt/dt_divider)) not crossing zero under the move; what keeps them _partial is only "
              "that zero crossing, where int() keeps one more / one fewer +-10 ns tail sample of RAC (difference <= "
              "4e-5 of the potential's peak, no exact equality). The correspondence run evaluates ArzMoveHyp on the "
              "Float twin (counter arz_move_hyp_holds) and checks the index conclusion there. The ingredient "
              "theorems C07_whole_sample_move_arz_partial_{oncone,rac,trunc,place,offcone} and C07_arz_placement (the "
              "four-way shift/pad/crop is one index formula, full strength) are kept; "
              "C07_arz_cone_partial (only the time-compression factor (1-n cos theta)/c is "
              "shown to vanish at theta_c and to grow strictly with the angular distance on either side, not the "
              "sampled amplitude, which on coarse grids is not ordered: K13); C07_cone_factor_max_mono is about the "
              "ZHS Gaussian and the AVZ width factor at every frequency (C07_zhs_amplitude_max_on_cone lifts it to the "
              "whole ZHS spectral amplitude) - the extra sin(theta)/sin(theta_c) prefactor of AVZ/ARZ moves the exact "
              "maximum outward by about 0.49*width^2 rad, i.e. < 0.1 degree above 500 MHz, below the 0.5 degree "
              "resolution of the search sweep (which uses dt <= 0.5 ns for AVZ and <= 0.1 ns for ARZ). "
              "C07_finite_* state that every denominator of the model is non-zero (hadronic ARZ profile: for "
              "X_max > interaction length, i.e. shower energy > 2.96 GeV - below that see K12); they do not bound "
              "magnitudes. Whole-sample moves of ZHS/AVZ are stated inside the placement range |shift| <= N beyond "
              "which the code deliberately returns zeros; AVZ for samples 0..N-2 when N is odd (last sample: K5, "
              "C07_avz_odd_last_sample_extrapolated proves what it is). ARZ energies at or below the critical "
              "energy give zeros; n_Q = 0 is outside the model's claims. Constants are extracted: a changed literal "
              "regenerates the twin and re-checks the theorems (a benign change of an amplitude constant is, "
              "correctly, not a violation); a changed code shape fails the extractor closed. Round-4 input classes: 'forms' (every call form / alias / default / re-gridding gives the same "
              "values, inputs untouched), 'order' (values do not depend on what was evaluated before: family of "
              "single-ingredient variants evaluated in opposite orders around importlib.reload), 'centre' (ZHS even "
              "about t0, AVZ odd about floor((t0-times[0])/dt)), 'far_zero' (C07_far_shower_time_zero_{zhs,avz}), "
              "'raises' (|angle| > pi rejected, exactly pi accepted); implementation calls run under an 8 GiB "
              "address-space cap so that an absurd allocation is a MemoryError with a replay, not a killed check. "
              "The cut-off point |shift| > len(trace) itself is only fixed by the model (correspondence), not by a "
              "relation of the property. The zero-crossing case of the ARZ move is characterised by "
              "C07_whole_sample_move_arz_zero_crossing_{index,grid} (n_shift moves by m*dt_divider - 1, RAC grid "
              "advanced by one sub-sample) - no equality of traces holds there. C07_ice_enters_through_vertex_index "
              "and C07_any_ice_model: theta_c is arccos(1/index) of the supplied ice model at the vertex. "
              "Hypothesis audit (real code run at every excluded point): shower time exactly on a grid sample - was "
              "a genuine AVZ defect (float floor), repaired as F21 and now generated in half of all ZHS/AVZ cases plus "
              "a corpus probe; C07_avz_round_fixes_grid_samples / C07_avz_floor_alone_is_fragile state why. ZHS cut "
              "|shift| > len: genuine, K24, proved of the model (C07_zhs_move_fails_across_cut); the move relation is "
              "now evaluated across the cut too (K24 only for ZHS, exactly-zero far side, deviation bounded by the "
              "in-window content; AVZ is continuous there). ARZ shower energy within 1e-4 above 0.0786 GeV: K25 "
              "(C07_arz_subsample_count_unbounded, C07_arz_max_length_zero_at_critical_energy; at exactly that energy "
              "the code raises OverflowError and the totalised real model is silent - every energy theorem is meant "
              "above it); cases needing more than 3e7 sub-samples (counter skipped_too_large: energies up to 1e-3 "
              "above critical on long grids, angles within 3e-6 rad of the on-cone window) are not evaluated - the "
              "code is finite and right there when memory allows (probed), the property does not promise bounded "
              "memory. ARZ zero crossing of int(): real code deviates by <= 3e-6 of the peak, sampled explicitly. "
              "Micro-radian offsets from the cone: 'cone_limit' (convolution branch approaches the on-cone shortcut, "
              "<= 5 % at 1e-5 rad). Index n <= 1 at the vertex (above the surface): no Cherenkov cone exists, outside "
              "the property; AVZ/ARZ return NaN there (C07_cone_undefined_at_index_one, counters index_one_*). "
              "Viewing distance 0 gives inf/NaN and a negative one the negated field: a distance is positive. Grids "
              "with fewer than two samples raise TypeError (FunctionSignal.dt is None), equal times ValueError, "
              "decreasing times give NaN in AVZ: a time grid has a positive step. n_RAC >= 1 of ArzMoveHyp always "
              "holds for dt > 0 (C07_arz_nRAC_ge_two). K12's band is now computed from had_shower_profile's own "
              "defaults (upper edge 2.96071432 GeV, not 2.9607). Harness artefacts: implementation calls run under an address-space cap; a MemoryError is reported "
              "as a failing input only when the independent size predictor arz_size (N*dt_divider, n_RAC = 20 ns * "
              "dt_divider/dt, n_Q) says every ARZ evaluation of that relation is small (< 1/4 of the 3e7 generator "
              "bound), otherwise it is counted (capped_memory_not_reported / skipped_too_large) and never reported; "
              "every stream that evaluates ARZ passes through the predictor. ZHS with an on-grid shower time whose "
              "nominal shift is within one of the cut is K24 under a joint shift as well (the cut decision int() of "
              "a float quotient flips). The fingerprints ignore logger calls, message texts and the names of local "
              "variables (alpha-renamed), so only structural changes fail the translator closed. Caller-owned time array modified in place between construction and first read (pulses are lazy): "
              "relation 'lazy_grid' (grid += delta / grid *= 2 / grid[:] = ... on the float64 array given to the "
              "constructor, all three models and both ARZ aliases, dt not a multiple of 10 ps): the pulse keeps the "
              "times and values of the grid it was built with and the joint-shift pair built that way agrees. K13's region is expressed in the physically relevant quantity (cone_resolution): ARZ sweeps are "
              "claimed for q = sqrt(n^2-1)*step*max_length(E_max)/(c*dt) >= 4.5 - a scan of the unchanged code over "
              "index 1.05..2.0 (4400 sweeps) found the ordering violated only for q <= 3.30, for small indices already "
              "at dt = 0.1 ns because the pulse one step off the cone is sqrt(n^2-1) times narrower; below 4.5 a failing "
              "sweep is K13. AVZ fails only for dt >= 1 ns at every index 1.05..2.0 (claimed for dt <= 0.5 ns), ZHS "
              "never. 'linear_low': on the cone the field per GeV is the same constant from 1e-6 GeV up, across the "
              "critical energies of the profiles (ARZ EM and hadronic, ZHS, AVZ EM), and never all-zero for E > 0. Index off-by-ones: a "
              "misplacement of the convolution (n_shift += n_Q_negative +- 1, decimation offset, shifted z or t_RAC "
              "grid, wrong LQ_tot) is caught on the implementation alone by the independent-quadrature oracle "
              "'position'; n_shift + 1 *before* t_RAC_vals is computed and n_extra + 1 move / extend the +-10 ns "
              "RAC window and the placement consistently, change the field by <= 4e-5 of the peak and violate no "
              "relation of the property - they are reported only as model/code disagreement (correspondence, "
              "fingerprint)")
ASSUMPTIONS = ["viewing index n > 1, dt > 0, at least two samples",
               "scipy.constants.c and float64 eps are hard-coded in the twin (checked by the correspondence run)"]

KINDS = ("zhs", "avz", "arz")


def _classes():
    import pyrex  # noqa: F401
    from pyrex import askaryan as A
    return {"zhs": A.ZHSAskaryanSignal, "avz": A.AVZAskaryanSignal, "arz": A.ARZAskaryanSignal}


_ICE = []


def ice():
    if not _ICE:
        from pyrex.ice_model import AntarcticIce
        _ICE.append(AntarcticIce())
    return _ICE[0]


def mkp(E, em, had, z):
    from pyrex.particle import Particle
    # the interaction model cannot be built for energy 0; the Askaryan classes only read the attributes
    p = Particle("nu_e", vertex=(0, 0, z), direction=(0, 0, 1), energy=1e6, interaction_type="cc")
    p.energy = E
    p.interaction.em_frac = em
    p.interaction.had_frac = had
    return p


def grid(c):
    return c["off"] + c["dt"] * np.arange(c["N"])


def t0_of(c):
    return float(grid(c)[0] + (c["k"] + c["frac"]) * c["dt"])


_ICES = {}


def ice_of(c):
    """the ice model object of a case: None = AntarcticIce() defaults; otherwise a non-default model, so that the
    index at the vertex (hence theta_c) differs from what the module-level default `pyrex.ice_model.ice` gives"""
    spec = c.get("ice")
    if not spec:
        return ice()
    key = tuple(spec)
    if key not in _ICES:
        from pyrex import ice_model as M
        if spec[0] == "custom":
            _ICES[key] = M.AntarcticIce(n0=spec[1], k=spec[2], a=spec[3])
        elif spec[0] == "uniform":
            _ICES[key] = M.UniformIce(spec[1])
        elif spec[0] == "greenland":
            _ICES[key] = M.GreenlandIce()
        elif spec[0] == "arasim":
            _ICES[key] = M.ArasimIce()
        else:
            raise ValueError("unknown ice spec %r" % (spec,))
    return _ICES[key]


def n_of(c):
    return float(ice_of(c).index(c["z"]))


def thc_of(c):
    return float(np.arccos(1 / n_of(c)))


def psi_of(c):
    """viewing angle: `dpsi` is the offset from the Cherenkov angle (sign `sgn` applied at the end), or an
    absolute angle `psi`"""
    if c.get("psi") is not None:
        return float(c["psi"])
    return float(c["sgn"] * (thc_of(c) + c["dpsi"]))


class mem_cap:
    """soft address-space cap (what the process maps now + 3 GiB) while the implementation runs, so that a changed
    tree which asks for an absurd amount of memory ends in MemoryError (reported as a failing input with a replay)
    instead of exhausting the machine.  Re-entrant; the Lean driver subprocesses are started outside it."""
    depth = 0
    saved = None

    def __enter__(self):
        import resource
        if mem_cap.depth == 0:
            try:
                mem_cap.saved = resource.getrlimit(resource.RLIMIT_AS)
                with open("/proc/self/statm") as f:
                    now = int(f.read().split()[0]) * resource.getpagesize()
                cap = now + (3 << 30)
                if mem_cap.saved[1] != resource.RLIM_INFINITY:
                    cap = min(cap, mem_cap.saved[1])
                resource.setrlimit(resource.RLIMIT_AS, (cap, mem_cap.saved[1]))
            except (ValueError, OSError):
                mem_cap.saved = None
        mem_cap.depth += 1
        return self

    def __exit__(self, *a):
        import resource
        mem_cap.depth -= 1
        if mem_cap.depth == 0 and mem_cap.saved is not None:
            resource.setrlimit(resource.RLIMIT_AS, mem_cap.saved)
        return False


def capped(fn):
    def wrapper(*a, **k):
        with mem_cap():
            return fn(*a, **k)
    wrapper.__name__ = fn.__name__
    wrapper.__doc__ = fn.__doc__
    return wrapper


class SkipCase(Exception):
    """the case is outside the generator's bounds (not evaluated, not a verdict)"""


MAX_SAMPLES = 30_000_000


_PRED = {"max": 0.0}     # largest predicted ARZ size among the evaluations of the relation being checked


def arz_size(theta, n, dt, N, energies):
    """sub-samples the *unchanged* ARZ code allocates off the cone for a grid of N samples with step dt:
    max(N*dt_divider, n_RAC = 20 ns*dt_divider/dt + 2) + n_Q over the showers with energy above 0.0786 GeV
    (dt_divider = max(100 dt/max_length/z_to_t, dt/10 ps) + 1: unbounded near the critical energy and next to the
    on-cone window; n_RAC dominates when the grid is shorter than 20 ns); 0 on the cone; inf where it divides by 0"""
    worst = 0.0
    try:
        if not n > 1 or abs(theta - float(np.arccos(1 / n))) <= 4.6e-7:
            return 0.0
        for en in energies:
            if not en > 0.0786:
                continue
            d, z_to_t, dz, xq, xn = arz_divider(en, dt, theta, n)
            worst = max(worst, max((N + 1) * d, 2e-8 * d / dt + 2) + 2 * xn)
    except (ZeroDivisionError, OverflowError, ValueError, FloatingPointError):
        worst = float("inf")
    if not worst == worst:
        worst = float("inf")
    _PRED["max"] = max(_PRED["max"], worst)
    return worst


def arz_predicted_samples(c, over=None):
    """`arz_size` for case `c` with the overrides `over` that `values` understands"""
    o = over or {}
    psi = o.get("psi", psi_of(c))
    E = o.get("E", c["E"])
    dt = float(o["times"][1] - o["times"][0]) if "times" in o else c["dt"]
    N = len(o["times"]) if "times" in o else c["N"]
    return arz_size(abs(psi), n_of(c), dt, N, (E * o.get("em", c["em"]), E * o.get("had", c["had"])))


def arz_fits(kind, theta, n, dt, N, energies):
    """gate for direct constructions of a signal object (everything that does not go through `values`)"""
    return kind != "arz" or arz_size(abs(theta), n, dt, N, energies) <= MAX_SAMPLES


def values(kind, c, **over):
    """the implementation's values for case `c` (keys of `over` replace derived inputs)"""
    cls = _classes()[kind]
    times = over.get("times", grid(c))
    t0 = over.get("t0", t0_of(c))
    psi = over.get("psi", psi_of(c))
    R = over.get("R", c["R"])
    E = over.get("E", c["E"])
    em = over.get("em", c["em"])
    had = over.get("had", c["had"])
    if kind == "arz" and not arz_predicted_samples(c, over) <= MAX_SAMPLES:
        raise SkipCase("ARZ would need more than %d sub-samples" % MAX_SAMPLES)
    with warnings.catch_warnings(), mem_cap():
        warnings.simplefilter("ignore")
        return np.array(cls(times, mkp(E, em, had, c["z"]), psi, R, ice_of(c), t0).values, dtype=float)


# --------------------------------------------------------------------------------------------
# generators
def arz_divider(energy, dt, theta, n):
    """re-computation of dt_divider for the generator only (keeps ARZ cases away from int() boundaries)"""
    from pyrex.askaryan import ARZAskaryanSignal as Z
    import scipy.constants
    z_to_t = (1 - n * np.cos(theta)) / scipy.constants.c
    ml = Z.max_length(energy)
    xq = abs(100 * dt / ml / z_to_t)
    d = max(int(xq) + 1, int(abs(dt / 1e-11)) + 1)
    dz = dt / d / z_to_t
    xn = abs(5 * ml / dz)
    return d, z_to_t, dz, xq, xn


def frac_ok(x, lo=0.1, hi=0.9):
    f = x - math.floor(x)
    return lo <= f <= hi


def arz_safe(c):
    """fractional parts of every float that shower_signal passes to int() stay away from integers"""
    theta = abs(psi_of(c))
    n = n_of(c)
    if abs(theta - thc_of(c)) <= 4.6e-7:
        return abs(theta - thc_of(c)) < 2.1e-7 and c.get("psi") is None
    t_start = grid(c)[0] - t0_of(c)
    for en in (c["E"] * c["em"], c["E"] * c["had"]):
        if en == 0:
            continue
        if en <= 3.0:
            return False
        d, z_to_t, dz, xq, xn = arz_divider(en, c["dt"], theta, n)
        if not frac_ok(xq, 1e-6, 1 - 1e-6) or not frac_ok(xn, 1e-6, 1 - 1e-6):
            return False
        if not frac_ok(abs(c["dt"] / 1e-11), 1e-6, 1 - 1e-6) and abs(c["dt"] / 1e-11 - round(c["dt"] / 1e-11)) > 1e-9:
            return False
        if not frac_ok((t_start + 1e-8) / dz / z_to_t) or not frac_ok(2e-8 / dz / z_to_t, 1e-3, 1 - 1e-3):
            return False
    return True


DTS = [1e-10, 2e-10, 2.5e-10, 5e-10, 1e-9, 2e-9, 0.5e-10]


def gen_case(run, kind, small=True, inside=False):
    r = run.rng
    for _ in range(200):
        c = {}
        c["E"] = 10 ** r.uniform(3, 12)
        mode = r.choice(["em", "had", "mix", "mix", "part"])
        if mode == "em":
            c["em"], c["had"] = 1.0, 0.0
        elif mode == "had":
            c["em"], c["had"] = 0.0, 1.0
        elif mode == "mix":
            y = r.uniform(0.02, 0.98)
            c["em"], c["had"] = 1 - y, y
        else:
            c["em"], c["had"] = r.choice([0.0, r.uniform(0.02, 0.6)]), r.uniform(0.02, 0.4)
        c["z"] = -r.uniform(5, 2800)
        c["ice"] = r.choice([None, None, ["custom", round(r.uniform(1.45, 2.1), 3), round(r.uniform(0.1, 0.4), 3),
                                          round(10 ** r.uniform(-2.5, -1.5), 5)],
                             ["uniform", round(r.uniform(1.2, 2.2), 3)], ["greenland"], ["arasim"]])
        c["R"] = 10 ** r.uniform(0, 4)
        am = r.choice(["cone", "near", "near", "off", "off", "uniform", "special"])
        c["sgn"] = r.choice([1, 1, -1])
        c["psi"] = None
        if am == "cone":
            # exactly on the cone, or inside the +-4.5e-7 rad window in which ARZ uses the on-cone shortcut
            c["dpsi"] = r.choice([0.0, 0.0, r.choice([-1, 1]) * 10 ** r.uniform(-13, -11)])
        elif am == "near":
            c["dpsi"] = r.choice([-1, 1]) * 10 ** r.uniform(-4, -1.3)
        elif am == "off":
            c["dpsi"] = r.choice([-1, 1]) * r.uniform(0.05, 0.35)
        elif am == "uniform":
            c["dpsi"] = 0.0
            c["psi"] = r.uniform(-math.pi, math.pi)
        else:
            c["dpsi"] = 0.0
            c["psi"] = r.choice([0.0, math.pi, -math.pi, math.pi / 2, -math.pi / 2, 1e-3])
        c["angle_mode"] = am
        c["N"] = r.choice([16, 17, 24, 25, 32, 33, 48, 49, 63, 64]) if small else r.choice([64, 65, 100, 101, 128, 129, 200, 255, 256])
        c["dt"] = r.choice(DTS + [r.uniform(0.6e-10, 1.9e-9)])
        c["off"] = r.choice([0.0, -37e-9, 1e-6, r.uniform(-1e-7, 1e-7)])
        pos = "in" if inside else r.choice(["in", "in", "in", "in", "before", "after", "far"])
        N = c["N"]
        if pos == "in":
            c["k"] = r.randint(2, N - 3)
        elif pos == "before":
            c["k"] = -r.randint(1, max(2, N // 3))
        elif pos == "after":
            c["k"] = N + r.randint(0, max(2, N // 3))
        else:
            c["k"] = r.choice([-1, 1]) * r.randint(N + 2, 4 * N)
        c["pos"] = pos
        c["frac"] = r.uniform(0.1, 0.9)
        if kind in ("avz", "zhs") and r.random() < 0.5:
            c["frac"] = 0.0          # exactly on a grid sample (AVZ: repaired by F21, rounding before the floor)
        if kind == "arz":
            ok = False
            for _t in range(60):
                if arz_safe(c):
                    ok = True
                    break
                c["frac"] = r.uniform(0.1, 0.9)
            if not ok:
                continue
        return c
    raise RuntimeError("generator could not produce a safe case")


def desc(kind, c):
    return (kind,) + tuple(round(float(c[k]), 15) if isinstance(c[k], float) else c[k]
                           for k in ("E", "em", "had", "z", "R", "sgn", "dpsi", "psi", "N", "dt", "off", "k", "frac")) \
        + (str(c.get("ice")),)


def request(kind, c):
    return "%s %s %s" % (kind, fw.fl([c["E"], c["em"], c["had"], psi_of(c), c["R"], n_of(c), t0_of(c)]),
                         fw.fl(grid(c)))


def close_arr(got, exp, rel=1e-9, floor=0.0):
    got = np.asarray(got, dtype=float)
    exp = np.asarray(exp, dtype=float)
    if got.shape != exp.shape:
        return False
    if not np.all(np.isfinite(exp)) or not np.all(np.isfinite(got)):
        return bool(np.array_equal(np.isnan(got), np.isnan(exp)) and
                    np.allclose(np.nan_to_num(got), np.nan_to_num(exp), rtol=1e-9, atol=0))
    sc = max(float(np.max(np.abs(exp))) if exp.size else 0.0, floor)
    return bool(np.all(np.abs(got - exp) <= rel * sc + 1e-300))


# --------------------------------------------------------------------------------------------
# correspondence
def corr_functions(run):
    """elementwise functions and constants of the ARZ model"""
    from pyrex.askaryan import ARZAskaryanSignal as Z
    r = run.rng
    reqs, exps, labels = [], [], []
    reqs.append("oncone"); exps.append([float(Z.oncone_range)]); labels.append(("oncone",))
    for psi in (0.0, math.pi, -math.pi, np.nextafter(math.pi, 4), -np.nextafter(math.pi, 4), 3.2, -7.0, 1.0):
        reqs.append("raises %d" % fw.f2b(psi)); labels.append(("raises", float(psi)))
        try:
            _classes()["zhs"](np.arange(4) * 1e-9, mkp(1e6, 1, 0, -100.0), psi, 1, ice(), 0)
            exps.append("0")
        except ValueError:
            exps.append("1")
    for i in range(run.scale(6, 40)):
        en = 10 ** r.uniform(-1.5 if i % 3 == 0 else 0.6, 12)
        ts = [0.0, 1e-12, -1e-12] + [r.choice([-1, 1]) * 10 ** r.uniform(-12, -7.5) for _ in range(12)]
        zs = [0.0, -1.0, 1e-3] + [10 ** r.uniform(-3, 2) for _ in range(12)] + [-10 ** r.uniform(-3, 2) for _ in range(2)]
        with warnings.catch_warnings():
            warnings.simplefilter("ignore")
            reqs.append("maxlen %d" % fw.f2b(en)); exps.append([float(Z.max_length(en))]); labels.append(("maxlen", en))
            reqs.append("emrac %d %s" % (fw.f2b(en), fw.fl(ts))); exps.append(list(Z.em_shower_RAC(np.array(ts), en))); labels.append(("emrac", en))
            reqs.append("hadrac %d %s" % (fw.f2b(en), fw.fl(ts))); exps.append(list(Z.had_shower_RAC(np.array(ts), en))); labels.append(("hadrac", en))
            reqs.append("emprof %d %s" % (fw.f2b(en), fw.fl(zs))); exps.append(list(Z.em_shower_profile(np.array(zs), en))); labels.append(("emprof", en))
            if not (0.17006 < en <= 2.97):
                reqs.append("hadprof %d %s" % (fw.f2b(en), fw.fl(zs))); exps.append(list(Z.had_shower_profile(np.array(zs), en))); labels.append(("hadprof", en))
    reps = fw.run_driver("C07", reqs)
    ok = True
    for rq, ex, rp, lb in zip(reqs, exps, reps, labels):
        run.case(("fn",) + lb, nontrivial=True)
        run.count("fn_" + lb[0])
        if isinstance(ex, str):
            good = rp == ex
        else:
            good = rp != "bad-op" and fw.all_close(fw.unfl(rp.split()), [float(x) for x in ex], 1e-9, 1e-300)
        if good:
            run.traces += 1
        else:
            ok = False
            run.note_broken("correspondence: %s request=%s model=%s impl=%s" % (lb, rq[:80], rp[:200], str(ex)[:200]))
    return ok


def corr_pulses(run):
    ok = True
    reqs, exps, cases = [], [], []
    plan = [("zhs", run.scale(120, 600)), ("avz", run.scale(120, 600)), ("arz", run.scale(36, 200))]
    for kind, n in plan:
        for i in range(n):
            c = gen_case(run, kind, small=(not run.thorough()) or i % 3 != 0)
            if kind != "arz" and i % 11 == 7:
                # exactly at / next to the cut |shift| > len(trace) of ZHS and AVZ
                c["k"] = c["N"] // 2 + run.rng.choice([-1, 1]) * c["N"] + run.rng.choice([-2, -1, 0, 1, 2])
                c["pos"] = "far"
                run.count("pulse_cut_boundary")
            if i % 17 == 5:
                c["E"] = 0.0 if i % 2 else c["E"]
                if c["E"]:
                    c["em"], c["had"] = 0.0, 0.0
            try:
                v = values(kind, c)
            except SkipCase:
                run.count("skipped_too_large")
                continue
            except Exception as e:  # the property says these never raise; the search reports it with a replay
                run.note_broken("correspondence: %s raised %s for %s" % (kind, repr(e)[:200], c))
                ok = False
                continue
            reqs.append(request(kind, c)); exps.append(v); cases.append((kind, c))
    reps = fw.run_driver("C07", reqs)
    for rq, ex, rp, (kind, c) in zip(reqs, exps, reps, cases):
        nontriv = bool(np.any(ex != 0))
        run.case(desc(kind, c), nontrivial=nontriv,
                 sample={"model": kind, "case": {k: c[k] for k in ("E", "em", "had", "N", "dt", "k", "frac")},
                         "peak": float(np.max(np.abs(ex))) if len(ex) else 0.0})
        run.count("pulse_%s_%s" % (kind, "zero" if not nontriv else c["angle_mode"]))
        run.count("t0_%s" % c["pos"])
        run.count("N_%s" % ("odd" if c["N"] % 2 else "even"))
        got = fw.unfl(rp.split()) if rp not in ("bad-op", "") else ([] if rp == "" else None)
        if got is not None and close_arr(got, ex, 1e-9, ref_peak(kind, c)):
            run.traces += 1
        else:
            ok = False
            g = np.array(got) if got is not None else None
            where = None
            if g is not None and g.shape == ex.shape:
                where = int(np.argmax(np.abs(g - ex)))
            run.note_broken("correspondence: %s case=%s: model and implementation differ (first worst index %s: "
                            "model=%s impl=%s, peak=%s, len model=%s impl=%s)"
                            % (kind, c, where, None if where is None else g[where],
                               None if where is None else ex[where], float(np.max(np.abs(ex))) if len(ex) else 0,
                               None if g is None else len(g), len(ex)))
    return ok


def random_functions(run):
    """arbitrary profile / potential functions (sums of bumps of either sign)"""
    r = run.rng
    a = [(r.uniform(-1, 1), r.uniform(0.2, 30), r.uniform(0.2, 8)) for _ in range(3)]
    b = [(r.uniform(-1, 1), r.uniform(-5e-9, 5e-9), 10 ** r.uniform(-10.5, -8.5)) for _ in range(3)]

    def prof(z, en):
        z = np.asarray(z, dtype=float)
        return sum(w * np.exp(-((z - m) / s) ** 2) for w, m, s in a) * en + 0.01 * en

    def rac(t, en):
        t = np.asarray(t, dtype=float)
        return sum(w * np.exp(-((t - m) / s) ** 2) for w, m, s in b) * 1e-17 * en
    return prof, rac


def corr_arz_bookkeeping(run):
    """index bookkeeping + shift/pad/crop/decimate/diff on the implementation's own sampled arrays"""
    import scipy.constants
    Z = _classes()["arz"]
    ok = True
    n_cases = run.scale(24, 120)
    stage1, ctx = [], []
    for i in range(n_cases):
        for _try in range(50):
            c = gen_case(run, "arz", small=True)
            if i % 6 == 3:
                # time step below 10 ps: the only way to reach dt_divider == 1 (no decimation)
                c["dt"] = run.rng.uniform(4e-12, 9e-12)
                c["N"] = run.rng.choice([16, 17, 24])
                c["k"] = run.rng.randint(2, c["N"] - 3)
                c["dpsi"] = run.rng.choice([-1, 1]) * run.rng.uniform(0.01, 0.05)
                c["psi"] = None
                for _t in range(60):
                    if arz_safe(c):
                        break
                    c["frac"] = run.rng.uniform(0.1, 0.9)
                else:
                    continue
            if abs(abs(psi_of(c)) - thc_of(c)) > 1e-5:
                break
        which = run.rng.choice(["em", "had", "random", "random"])
        if which == "had" and c["had"] == 0:
            which = "em"
        if which == "em" and c["em"] == 0:
            which = "had"
        energy = c["E"] * (c["em"] if which == "em" else c["had"] if which == "had" else 1.0)
        if which == "random":
            prof, rac = random_functions(run)
        else:
            prof, rac = ((Z.em_shower_profile, Z.em_shower_RAC) if which == "em"
                         else (Z.had_shower_profile, Z.had_shower_RAC))
        c2 = dict(c)
        c2["em"], c2["had"] = (1.0, 0.0)
        c2["E"] = energy
        if not arz_safe(c2):
            continue
        rec = {}

        def wprof(z, en, rec=rec, prof=prof):
            rec["zQ"] = np.array(z, dtype=float)
            rec["Q"] = np.array(prof(z, en), dtype=float)
            return rec["Q"]

        def wrac(t, en, rec=rec, rac=rac):
            rec["tRAC"] = np.array(t, dtype=float)
            rec["RAC"] = np.array(rac(t, en), dtype=float)
            return rec["RAC"]
        times = grid(c)
        t0 = t0_of(c)
        theta = abs(psi_of(c))
        n = n_of(c)
        if not arz_size(theta, n, float(times[1] - times[0]), len(times), (energy,)) <= MAX_SAMPLES:
            run.count("skipped_too_large")
            continue
        sig = Z(times, mkp(1e6, 1, 0, c["z"]), theta, c["R"], ice_of(c), t0)
        with warnings.catch_warnings(), mem_cap():
            warnings.simplefilter("ignore")
            out = np.array(sig.shower_signal(times=times, energy=energy, profile_function=wprof,
                                             potential_function=wrac, viewing_angle=theta,
                                             viewing_distance=c["R"], n=n, t0=t0), dtype=float)
        z_to_t = (1 - n * np.cos(theta)) / scipy.constants.c
        dt = times[1] - times[0]
        t_start = times[0] - t0
        ml = float(Z.max_length(energy))
        stage1.append("arzidx %d %s" % (len(times) + 1, fw.fl([dt, t_start, ml, z_to_t])))
        ctx.append((c, which, energy, rec, out, theta, n, z_to_t, dt, t_start))
    rep1 = fw.run_driver("C07", stage1)
    # hypotheses of C07_whole_sample_move_arz_partial (ArzMoveHyp, m = 1) evaluated on the Float twin, and its
    # index conclusion (n_shift' = n_shift - dt_divider, everything else unchanged) checked there as well
    moved = fw.run_driver("C07", ["arzidx %d %s" % (len(grid(cx[0])) + 1, fw.fl([cx[8], cx[9] - cx[8], float(Z.max_length(cx[2])), cx[7]]))
                                  for cx in ctx])
    for rp, rpm, cx in zip(rep1, moved, ctx):
        a, b = rp.split(), rpm.split()
        if len(a) != 8 or len(b) != 8:
            continue
        d0, nS0, nR0, sk0, sk1 = int(a[0]), int(a[3]), int(a[5]), int(a[6]), int(b[6])
        x = (cx[9] + 1e-8) / fw.b2f(a[7]) / cx[7]
        if sk0 == 0 and sk1 == 0 and nR0 >= 1 and (x - d0 >= 1e-6 or x <= -1e-6):
            run.count("arz_move_hyp_holds")
            if not (int(b[3]) == nS0 - d0 and a[:3] + a[4:6] == b[:3] + b[4:6]):
                ok = False
                run.note_broken("correspondence: Float twin contradicts arzIdx_move: case=%s idx(t0)=%s idx(t0+dt)=%s"
                                % (cx[0], a, b))
        else:
            run.count("arz_move_hyp_not_applicable")
    stage2, ctx2 = [], []
    for rq, rp, cx in zip(stage1, rep1, ctx):
        c, which, energy, rec, out, theta, n, z_to_t, dt, t_start = cx
        run.case(("arzidx", which) + desc("arz", c), nontrivial=True)
        toks = rp.split()
        if rp == "bad-op" or len(toks) != 8:
            ok = False
            run.note_broken("correspondence: arzidx request=%s reply=%s" % (rq, rp))
            continue
        d, nQ, nQneg, nShift, nExtra, nRAC, skip = [int(t) for t in toks[:7]]
        dz = fw.b2f(toks[7])
        run.count("arz_dt_divider_%s" % ("1" if d == 1 else "gt1"))
        if skip:
            run.count("arz_skip")
            good = ("Q" not in rec) and not np.any(out) and len(out) == len(grid(c))
        elif "RAC" not in rec:
            run.count("arz_all_zero_profile")
            good = "Q" in rec and len(rec["Q"]) == nQ and not np.any(rec["Q"]) and not np.any(out)
        else:
            exp_t = (np.arange(nRAC) - nShift) * dz * z_to_t + t_start
            exp_z = np.sign(z_to_t) * ((np.arange(nQ) - nQneg) * abs(dz))
            good = (len(rec["Q"]) == nQ and len(rec["RAC"]) == nRAC
                    and np.allclose(rec["tRAC"], exp_t, rtol=1e-12, atol=1e-22)
                    and np.allclose(rec["zQ"], exp_z, rtol=1e-12, atol=1e-18))
            if good and nQ + nRAC > run.scale(9000, 40000):
                run.count("arz_place_indices_only")
            elif good:
                stage2.append("arzoff %s %s | %s | %s" % (
                    fw.fl([theta, c["R"], n, z_to_t]),
                    "%d %d %d %d %d %d %d" % (d, fw.f2b(dz), nQ, nQneg, nShift, nExtra, nRAC),
                    fw.fl(rec["Q"]), fw.fl(rec["RAC"])))
                import scipy.signal
                lq = float(np.trapezoid(rec["Q"], dx=dz)) if hasattr(np, "trapezoid") else float(np.trapz(rec["Q"], dx=dz))
                a_scale = (float(np.max(np.abs(scipy.signal.convolve(rec["Q"], rec["RAC"]))))
                           * abs(np.sin(theta) / np.sqrt(1 - 1 / n ** 2) / lq / z_to_t / d / c["R"])) if lq else 0.0
                ctx2.append((c, which, out, a_scale))
                run.count("arz_place_%s_%s" % ("pos" if nShift + nQneg > 0 else "nonpos",
                                                "pad" if nShift + nQneg - nExtra >= 0 else "crop"))
        if good:
            run.traces += 1
        else:
            ok = False
            run.note_broken("correspondence: ARZ index bookkeeping differs: case=%s shower=%s energy=%s model "
                            "(dt_divider,n_Q,n_Q_neg,n_shift,n_extra,n_RAC,skip)=%s dz=%s; implementation sampled "
                            "len(Q)=%s len(RAC)=%s t_RAC[0]=%s"
                            % (c, which, energy, toks[:7], dz, len(rec.get("Q", [])), len(rec.get("RAC", [])),
                               rec.get("tRAC", [None])[0]))
    rep2 = fw.run_driver("C07", stage2)
    for rq, rp, (c, which, out, a_scale) in zip(stage2, rep2, ctx2):
        run.case(("arzoff", which) + desc("arz", c), nontrivial=bool(np.any(out)))
        got = fw.unfl(rp.split()) if rp != "bad-op" else None
        # tolerance: 1e-9 of the peak, floored by 1e-9 of the vector-potential scale (FFT convolution noise)
        if got is not None and close_arr(got, out, 1e-9, a_scale):
            run.traces += 1
        else:
            ok = False
            g = None if got is None else np.array(got)
            run.note_broken("correspondence: ARZ shift/pad/crop/decimate/diff differs on the implementation's own "
                            "arrays: case=%s shower=%s len model=%s impl=%s max diff=%s peak=%s"
                            % (c, which, None if g is None else len(g), len(out),
                               None if g is None or len(g) != len(out) else float(np.max(np.abs(g - out))),
                               float(np.max(np.abs(out)))))
    return ok


def correspondence(run):
    try:
        from extract import askaryan_consts
        ch = askaryan_consts.changed_constants(fw.REPO)
        if ch:
            run.notes.append("extracted constants differ from the values the model was first written against "
                             "(twin regenerated, theorems re-checked): %s" % ch)
        run.extra["constants_changed"] = {k: list(v) for k, v in ch.items()}
    except Exception as e:   # a failing extractor is already a broken obligation
        run.notes.append("constants comparison not available: %r" % (e,))
    ok = corr_functions(run)
    ok = corr_pulses(run) and ok
    ok = corr_arz_bookkeeping(run) and ok
    return ok


# --------------------------------------------------------------------------------------------
# search: the scaling relations on the implementation alone
TOL = {"zhs": 1e-7, "avz": 1e-7, "arz": 2e-3}       # shift relations, relative to the peak
K6_RANGE = (0.17006, 2.9607)


def in_k12(kind, c, over=None):
    """ARZ off the cone with a hadronic shower energy above the Gaisser-Hillas critical energy whose X_max =
    rad_length*ln(E/crit) does not exceed the interaction length (0.17006 GeV < E <= 2.96071... GeV); the band is
    computed from the defaults of had_shower_profile itself"""
    if kind != "arz":
        return False
    from pyrex.askaryan import ARZAskaryanSignal as Z
    density, crit, radlen, intlen, scale = Z.had_shower_profile.__defaults__
    o = over or {}
    eh = o.get("E", c["E"]) * o.get("had", c["had"])
    if not eh > crit:
        return False
    return bool(radlen * np.log(eh / crit) <= intlen) and abs(abs(o.get("psi", psi_of(c))) - thc_of(c)) > 4.6e-7


MAXLEN_CRIT = 0.0786


def in_k25(kind, c, over=None):
    """ARZ off the cone with a shower energy from the critical energy of max_length (0.0786 GeV) to a relative 1e-4
    above it: max_length -> 0, dt_divider = 100 dt / max_length / z_to_t is unbounded (exactly at 0.0786 GeV:
    division by zero)"""
    if kind != "arz":
        return False
    o = over or {}
    E = o.get("E", c["E"])
    if abs(abs(o.get("psi", psi_of(c))) - thc_of(c)) <= 4.6e-7:
        return False
    return any(MAXLEN_CRIT <= en <= MAXLEN_CRIT * (1 + 1e-4) for en in (E * o.get("em", c["em"]), E * o.get("had", c["had"])))


def _one_sample_off(a, b, tol, L):
    """`a` equals `b` displaced by one sample (either way) on the first L samples"""
    a, b = a[:L], b[:L]
    return bool(np.all(np.abs(a[1:] - b[:-1]) <= tol) or np.all(np.abs(a[:-1] - b[1:]) <= tol))


def rel_check(run, kind, c, relation, deep=False):
    """evaluate one relation on the implementation; returns None when it holds, else a dict describing the
    failure (observed / expected / known-finding key)"""
    _PRED["max"] = 0.0
    try:
        return _rel_check(kind, c, relation)
    except SkipCase:
        if in_k25(kind, c):
            run.count("known_K25_not_evaluated")
            run.known_finding("K25")
        else:
            run.count("skipped_too_large")
        return None
    except Exception as e:   # any exception is a failure of "fails gracefully"
        if isinstance(e, KeyboardInterrupt):
            raise
        if isinstance(e, MemoryError) and kind == "arz" and not _PRED["max"] <= MAX_SAMPLES / 4:
            # the address-space cap of `mem_cap` was hit by an evaluation that the unchanged code also needs that
            # much memory for (predicted size within a factor 4 of the generator bound, or unknown): an artefact of
            # the harness, never reported
            run.count("capped_memory_not_reported")
            return None
        return {"observed": "exception %s" % repr(e)[:300], "expected": "a finite array of len(times)",
                "what": "%s: %s raised %s" % (kind, relation, type(e).__name__),
                "key": "K12" if in_k12(kind, c) else ("K25" if in_k25(kind, c) else None)}


def _bad(a, b, tol, sc):
    return a.shape != b.shape or not np.all(np.abs(a - b) <= tol * sc + 1e-300)


def ref_peak(kind, c):
    """peak of the same pulse placed in the middle of the window: the scale against which windows that
    only hold a tail (or the 1e-16 noise of scipy's FFT convolution) are compared"""
    c2 = dict(c)
    c2["k"] = c["N"] // 2
    try:
        v = values(kind, c2)
        v = v[np.isfinite(v)]
        pk = float(np.max(np.abs(v))) if len(v) else 0.0
        if kind == "arz" and len(v):
            # ARZ differentiates a vector potential computed by an FFT convolution: the rounding noise scales
            # with the potential, not with the field.  Two stand-ins for its size: the cumulative sum of the
            # field, and 1e-3 of the a-priori bound max|RAC| sin(theta)/sin(theta_c)/dt/R (so that 1e-9
            # tolerances become 1e-12 of the bound; FFT noise is ~1e-16 of it)
            pk = max(pk, float(np.max(np.abs(np.cumsum(v)))))
            th = abs(psi_of(c))
            bound = (2 * 4.5e-17 * c["E"] * (c["em"] + c["had"]) * abs(math.sin(th)) / math.sin(thc_of(c))
                     / c["dt"] / c["R"])
            pk = max(pk, 1e-3 * bound)
        return pk
    except Exception:
        return 0.0


def _mk(kind, c, **over):
    """(signal object, times array given to it) for case `c`"""
    cls = over.get("cls", _classes()[kind])
    times = over.get("times", grid(c))
    p = over.get("particle", None) or mkp(over.get("E", c["E"]), c["em"], c["had"], c["z"])
    return cls(times, p, over.get("psi", psi_of(c)), over.get("R", c["R"]), ice_of(c), over.get("t0", t0_of(c))), times


def forms_check(kind, c):
    """call forms, aliases, defaults, caller-owned inputs, state across calls, re-gridding: every way of asking
    for the same pulse gives the same values"""
    from pyrex import askaryan as A
    from pyrex import ice_model as M
    cls = _classes()[kind]
    Ei, Ri = float(int(c["E"])), float(max(1, int(c["R"])))
    cc = dict(c)
    cc["E"], cc["R"] = Ei, Ri
    times = grid(cc)
    keep = times.copy()
    t0, psi = t0_of(cc), psi_of(cc)
    ens = (Ei * cc["em"], Ei * cc["had"])
    if not (arz_fits(kind, psi, n_of(cc), cc["dt"], cc["N"] + 4, ens)
            and arz_fits(kind, psi, float(M.ice.index(cc["z"])), cc["dt"], cc["N"], ens)):
        raise SkipCase("a form of this ARZ case needs more sub-samples than the generators allow")

    def bad(name, got, exp, tol=1e-12):
        got = np.asarray(got, dtype=float)
        scl = float(np.max(np.abs(exp))) if len(exp) else 0.0
        if got.shape != exp.shape or not np.all(np.abs(got - exp) <= tol * scl + 1e-300):
            i = int(np.argmax(np.abs(got - exp))) if got.shape == exp.shape else -1
            return {"observed": {"form": name, "index": i,
                                 "values": [float(exp[i]), float(got[i])] if i >= 0 else [len(exp), len(got)]},
                    "expected": "the same values as the plain call",
                    "what": "%s: %s changes the values" % (kind, name)}
        return None
    with warnings.catch_warnings(), mem_cap():
        warnings.simplefilter("ignore")
        p = mkp(Ei, cc["em"], cc["had"], cc["z"])
        sig = cls(times, p, psi, Ri, ice_of(cc), t0)
        base = np.array(sig.values, dtype=float)
        if not np.all(np.isfinite(base)):
            return None
        if not np.array_equal(times, keep):
            return {"observed": "the caller's times array was modified", "expected": "inputs untouched",
                    "what": "%s: constructor / evaluation modifies the caller's times array" % kind}
        if not np.array_equal(np.asarray(sig.times), keep):
            return {"observed": "signal.times differs from the times given", "expected": "times kept",
                    "what": "%s: the signal's times are not the given times" % kind}
        variants = [
            ("a second read of .values", lambda: sig.values),
            ("times given as a list", lambda: cls(list(times), p, psi, Ri, ice_of(cc), t0).values),
            ("times given as a tuple", lambda: cls(tuple(times), p, psi, Ri, ice_of(cc), t0).values),
            ("keyword arguments", lambda: cls(times=times, particle=p, viewing_angle=psi, viewing_distance=Ri,
                                              ice_model=ice_of(cc), t0=t0).values),
            ("Python-int energy and distance", lambda: cls(times, mkp(int(Ei), cc["em"], cc["had"], cc["z"]), psi,
                                                           int(Ri), ice_of(cc), t0).values),
            ("numpy-integer energy and distance", lambda: cls(times, mkp(np.int64(Ei), cc["em"], cc["had"], cc["z"]),
                                                              psi, np.int64(Ri), ice_of(cc), t0).values),
            ("0-d array angle, distance and t0", lambda: cls(times, p, np.array(psi), np.array(Ri), ice_of(cc),
                                                            np.array(t0)).values),
            ("numpy scalar angle, distance and t0", lambda: cls(times, p, np.float64(psi), np.float64(Ri),
                                                               ice_of(cc), np.float64(t0)).values),
            ("a tuple vertex", lambda: cls(times, _with_vertex(p, tuple), psi, Ri, ice_of(cc), t0).values),
            ("a fresh object after other pulses were evaluated (state kept across calls)",
             lambda: _after_others(kind, cc, cls, times, psi, Ri, t0, Ei)),
            ("re-use of one particle object for a second signal", lambda: cls(times, p, psi, Ri, ice_of(cc), t0).values),
        ]
        if kind == "arz":
            variants += [("the alias AskaryanSignal", lambda: A.AskaryanSignal(times, p, psi, Ri, ice_of(cc), t0).values),
                         ("the deprecated alias ARVZAskaryanSignal",
                          lambda: A.ARVZAskaryanSignal(times, p, psi, Ri, ice_of(cc), t0).values),
                         ("ARVZAskaryanSignal with keywords",
                          lambda: A.ARVZAskaryanSignal(times=times, particle=p, viewing_angle=psi,
                                                       viewing_distance=Ri, ice_model=ice_of(cc), t0=t0).values)]
        for name, fn in variants:
            r_ = bad(name, fn(), base)
            if r_ is not None:
                return r_
        # omitted optional arguments = their documented defaults (R = 1, module-level ice, t0 = 0)
        d1 = np.array(cls(times, p, psi).values, dtype=float)
        d2 = np.array(cls(times, p, psi, 1, M.ice, 0).values, dtype=float)
        r_ = bad("omitting viewing_distance / ice_model / t0 (defaults 1, pyrex.ice_model.ice, 0)", d1, d2)
        if r_ is not None:
            return r_
        # the same signal object asked for another grid = a fresh signal on that grid
        g2 = dict(cc)
        g2["N"] = cc["N"] + (3 if cc["N"] % 2 else 4)
        g2["off"] = cc["off"] - 2 * cc["dt"]
        t2 = grid(g2)
        fresh = np.array(cls(t2, p, psi, Ri, ice_of(cc), t0).values, dtype=float)
        r_ = bad("with_times(new grid) instead of a fresh signal", sig.with_times(t2).values, fresh, 1e-9)
        if r_ is not None:
            return r_
        sig.times = t2
        r_ = bad("assigning signal.times = new grid instead of a fresh signal", sig.values, fresh, 1e-9)
        if r_ is not None:
            return r_
    return None


def lazy_grid_check(kind, c):
    """pulses evaluate lazily: the caller's float64 time array is modified IN PLACE between constructing a pulse and
    first reading it (`grid += delta` to build the jointly shifted configuration, `grid *= 2`, `grid[:] = ...`).
    The first pulse must still be the pulse on the grid it was constructed with (times and values of a pulse built
    from a private copy), and the joint-shift relation between the two pulses must hold"""
    from pyrex import askaryan as A
    cc = dict(c)
    cc["dt"] = c.get("lazy_dt", 1.25e-10)       # not a multiple of 10 ps: no int() flip in ARZ's dt/1e-11
    t0, psi, Ri = t0_of(cc), psi_of(cc), cc["R"]
    ens = (cc["E"] * cc["em"], cc["E"] * cc["had"])
    if not arz_fits(kind, psi, n_of(cc), cc["dt"], cc["N"], ens):
        raise SkipCase("too large")
    classes = [_classes()[kind]] + ([A.AskaryanSignal, A.ARVZAskaryanSignal] if kind == "arz" else [])
    delta = cc.get("s", 12345 * cc["dt"])
    with warnings.catch_warnings(), mem_cap():
        warnings.simplefilter("ignore")
        for cls in classes:
            for how in ("+=", "*=", "[:]="):
                g = grid(cc).astype(np.float64)
                keep = g.copy()
                p = mkp(cc["E"], cc["em"], cc["had"], cc["z"])
                p1 = cls(g, p, psi, Ri, ice_of(cc), t0)
                if how == "+=":
                    g += delta
                    p2 = cls(g, p, psi, Ri, ice_of(cc), t0 + delta)
                elif how == "*=":
                    g *= 2
                    p2 = None
                else:
                    g[:] = keep[::-1] * 3 + 1e-6
                    p2 = None
                t1 = np.array(p1.times, dtype=float)
                v1 = np.array(p1.values, dtype=float)
                fresh = np.array(cls(keep.copy(), mkp(cc["E"], cc["em"], cc["had"], cc["z"]), psi, Ri, ice_of(cc), t0).values,
                                 dtype=float)
                scl = float(np.max(np.abs(fresh))) if len(fresh) else 0.0
                what = None
                if t1.shape != keep.shape or not np.array_equal(t1, keep):
                    what = "the pulse's times follow the caller's array after `grid %s ...`" % how
                elif v1.shape != fresh.shape or not np.all(np.abs(v1 - fresh) <= 1e-12 * scl + 1e-300):
                    what = "the pulse's values follow the caller's array after `grid %s ...`" % how
                elif p2 is not None:
                    v2 = np.array(p2.values, dtype=float)
                    sc = max(scl, ref_peak(kind, cc))
                    if v2.shape != v1.shape or not np.all(np.abs(v2 - v1) <= TOL[kind] * sc + 1e-300):
                        what = "joint shift built with `grid += delta` between the two constructions fails"
                if what:
                    i = int(np.argmax(np.abs(v1 - fresh))) if v1.shape == fresh.shape else -1
                    return {"observed": {"class": cls.__name__, "in-place operation": how,
                                         "times[0] now / given": [float(t1[0]) if len(t1) else None, float(keep[0])],
                                         "values": [float(fresh[i]), float(v1[i])] if i >= 0 else [len(fresh), len(v1)]},
                            "expected": "a pulse keeps the grid it was constructed with",
                            "what": "%s: %s" % (kind, what)}
    return None


def _with_vertex(p, kind_):
    q = mkp(p.energy, p.interaction.em_frac, p.interaction.had_frac, p.vertex[2])
    q.vertex = kind_(float(x) for x in p.vertex)
    return q


def _after_others(kind, cc, cls, times, psi, Ri, t0, Ei):
    """evaluate differently parameterised pulses on the same and on other grids first"""
    for dR, dE, dk, dN in ((2.0, 3.0, 1, 0), (0.5, 0.1, -2, 1)):
        o = dict(cc)
        o["N"] = cc["N"] + dN
        o["k"] = cc["k"] + dk
        if not arz_fits(kind, psi * 0.97, float(ice_of(cc).index(cc["z"] * 0.9)), cc["dt"], o["N"],
                        (Ei * dE * cc["had"], Ei * dE * cc["em"])):
            continue
        cls(grid(o), mkp(Ei * dE, cc["had"], cc["em"], cc["z"] * 0.9), -psi * 0.97, Ri * dR, ice_of(cc), t0_of(o)).values
    # identical in everything but the vertex depth / the ice model (the index at the vertex, hence theta_c)
    for var in ({"z": cc["z"] * 0.5 - 3.0}, {"ice": ["uniform", 1.37]}):
        o = dict(cc, psi=psi, **var)
        if not arz_fits(kind, psi, n_of(o), cc["dt"], cc["N"], (Ei * cc["em"], Ei * cc["had"])):
            continue      # (a micro-radian off the other cone: more sub-samples than the generators allow)
        cls(times, mkp(Ei, cc["em"], cc["had"], o["z"]), psi, Ri, ice_of(o), t0).values
    return cls(times, mkp(Ei, cc["em"], cc["had"], cc["z"]), psi, Ri, ice_of(cc), t0).values


def order_check(kind, c):
    """state kept across calls: a family of pulses that differ from `c` in exactly one ingredient is evaluated in
    one order on the live classes and, after `importlib.reload(pyrex.askaryan)` (fresh classes, empty class- and
    module-level state), in the reverse order; every pulse must come out bitwise the same"""
    import importlib
    from pyrex import askaryan as A
    c = dict(c)
    c["psi"] = psi_of(c)          # absolute viewing angle: depth and ice then change theta_c only
    fam = [dict(c)]
    # (single-ingredient variants; each is first in one of the two passes relative to the case itself, and the
    # depth / ice variants are first of all in the second pass)
    for key, val in (("R", c["R"] * 1.5), ("E", c["E"] * 2), ("frac", 0.5 * (c["frac"] + 0.5)), ("psi", -c["psi"]),
                     ("psi", c["psi"] * 0.9), ("N", c["N"] + 2), ("dt", c["dt"] * 1.25),
                     ("z", c["z"] * 0.5 - 3.0), ("ice", ["uniform", 1.37])):
        v = dict(c)
        v[key] = val
        fam.append(v)
    v = dict(c)
    v["em"], v["had"] = c["had"], c["em"]
    fam.insert(1, v)
    first = [values(kind, f) for f in fam]
    try:
        importlib.reload(A)
        second = [values(kind, f) for f in reversed(fam)][::-1]
    finally:
        importlib.reload(A)
    for i, (a, b) in enumerate(zip(first, second)):
        if a.shape != b.shape or not np.array_equal(a, b, equal_nan=True):
            j = int(np.argmax(np.abs(a - b))) if a.shape == b.shape else -1
            changed = [k for k in fam[i] if fam[i][k] != c.get(k)]
            return {"observed": {"member": i, "differs from the case in": changed,
                                 "values": [float(a[j]), float(b[j])] if j >= 0 else [len(a), len(b)]},
                    "expected": "the same values whatever was evaluated before",
                    "what": "%s: the values of a pulse depend on which pulses were evaluated before it" % kind}
    return address_reuse_check(kind, c)


def address_reuse_check(kind, c):
    """state keyed by the IDENTITY of an argument: an ice-model object that lives at the address of a dead one (an
    ice model written inline in a loop, or created per call by a helper) must be read for what it is.  A pulse is
    evaluated with a short-lived UniformIce(n1); after it has been collected, UniformIce(n2) objects are created until
    one lands on the same address; its pulse must equal the pulse of a long-lived UniformIce(n2)."""
    import gc
    from pyrex import ice_model as M
    cls = _classes()[kind]
    Ei, Ri = float(c["E"]), float(c["R"])
    psi, t0, times = psi_of(c), t0_of(c), grid(c)
    ens = (Ei * c["em"], Ei * c["had"])
    n1, n2 = 1.6, 1.37
    if not (arz_fits(kind, psi, n1, c["dt"], c["N"], ens) and arz_fits(kind, psi, n2, c["dt"], c["N"], ens)):
        return None

    def pulse(iceobj):
        return np.array(cls(times.copy(), mkp(Ei, c["em"], c["had"], c["z"]), psi, Ri, iceobj, t0).values, dtype=float)

    keep = M.UniformIce(n2)
    ref = pulse(keep)
    reused = None
    for attempt in range(10):
        a = M.UniformIce(n1)
        addr = id(a)
        pulse(a)
        del a
        gc.collect()
        pool = []
        for _ in range(100):
            o = M.UniformIce(n2)
            if id(o) == addr:
                reused = o
                break
            pool.append(o)
        del pool
        if reused is not None:
            break
    if reused is None:
        return None              # CPython did not hand the address out again: nothing to compare
    got = pulse(reused)
    if got.shape != ref.shape or not np.array_equal(got, ref, equal_nan=True):
        j = int(np.argmax(np.abs(got - ref))) if got.shape == ref.shape else -1
        return {"observed": {"index of the dead object": n1, "index of the object at its address": n2,
                             "values": [float(got[j]), float(ref[j])] if j >= 0 else [len(got), len(ref)]},
                "expected": "the pulse of UniformIce(%g), bitwise as for a long-lived object with the same index" % n2,
                "what": "%s: an ice-model object created at the address of a collected one is read as the dead object "
                        "(state keyed by id())" % kind}
    return None


def cone_limit_check(kind, c):
    """ARZ: just outside the +-4.5e-7 rad on-cone window the convolution branch must approach the on-cone shortcut
    -diff(RAC(t-t0))/dt/R: measured deviation 0.3..2.2 % of the peak at 1e-5 rad (linear in the offset); bound 5 %
    at |dpsi| <= 1e-5, and the deviation must shrink with the offset"""
    if kind != "arz":
        return None
    on = values(kind, dict(c, dpsi=0.0, psi=None))
    pk = float(np.max(np.abs(on)))
    if pk == 0 or not np.all(np.isfinite(on)):
        return None
    devs = []
    for d in (c["dpsi"] * 10, c["dpsi"]):
        v = values(kind, dict(c, dpsi=d, psi=None))
        devs.append(float(np.max(np.abs(v - on))) / pk)
    if not (devs[1] <= 0.05 and devs[1] <= 0.5 * devs[0] + 1e-3):
        return {"observed": {"offsets": [c["dpsi"] * 10, c["dpsi"]], "deviation from the on-cone pulse / peak": devs},
                "expected": "<= 5 % at the smaller offset and shrinking with it",
                "what": "arz: the pulse just off the cone does not approach the on-cone pulse"}
    return None


def centre_check(kind, c):
    """the pulse sits where the shower time says: ZHS is even about t0 (t0 taken on a grid point), AVZ is odd about
    the sample floor((t0-times[0])/dt)"""
    N = c["N"]
    k = c["k"]
    if kind == "zhs":
        v = values(kind, c, t0=float(grid(c)[k]))
        sign = 1.0
    elif kind == "avz":
        v = values(kind, c)
        sign = -1.0
    else:
        return None
    L = N if N % 2 == 0 else N - 1
    j = np.arange(0, min(k, L - 1 - k) + 1)
    if len(j) < 3 or not np.all(np.isfinite(v)):
        return None
    a, b = v[k + j], sign * v[k - j]
    scl = float(np.max(np.abs(v)))
    if scl > 0 and not np.all(np.abs(a - b) <= 1e-9 * scl):
        i = int(np.argmax(np.abs(a - b)))
        return {"observed": {"centre index": k, "offset": int(j[i]), "values": [float(v[k + j[i]]), float(v[k - j[i]])],
                             "peak": scl},
                "expected": "values[k+j] == %s values[k-j]" % ("+" if sign > 0 else "-"),
                "what": "%s: the pulse is not centred on the shower time" % kind}
    return None


def far_zero_check(kind, c):
    """ZHS / AVZ: a shower time so far from the window that |shift| > len(trace) gives an all-zero trace"""
    if kind not in ("zhs", "avz"):
        return None
    N = c["N"]
    out = None
    for side in (1, -1):
        for extra in (2, N, 3 * N + 1, 40 * N):
            cc = dict(c)
            cc["k"] = N // 2 + side * (N + extra)
            v = values(kind, cc)
            if len(v) != N or np.any(v != 0):
                out = {"observed": {"k": cc["k"], "len": len(v), "max": float(np.nanmax(np.abs(v))) if len(v) else None},
                       "expected": "%d zeros" % N,
                       "what": "%s: a shower time far outside the window does not give an all-zero trace" % kind}
    return out


def raises_check(kind, c):
    """|viewing angle| > pi is rejected with ValueError; exactly +-pi is accepted"""
    cls = _classes()[kind]
    for psi, must in ((math.pi, False), (-math.pi, False), (float(np.nextafter(math.pi, 4)), True),
                      (-3.5, True), (7.0, True)):
        try:
            with warnings.catch_warnings():
                warnings.simplefilter("ignore")
                cls(grid(c), mkp(c["E"], c["em"], c["had"], c["z"]), psi, c["R"], ice_of(c), t0_of(c))
            raised = False
        except ValueError:
            raised = True
        if raised != must:
            return {"observed": {"viewing_angle": psi, "raised ValueError": raised}, "expected": {"raised": must},
                    "what": "%s: viewing angles beyond +-pi are %s" % (kind, "accepted" if must else "rejected at pi")}
    return None


def _rel_check(kind, c, relation):
    if relation == "forms":
        return forms_check(kind, c)
    if relation == "order":
        return order_check(kind, c)
    if relation == "lazy_grid":
        return lazy_grid_check(kind, c)
    if relation == "cone_limit":
        return cone_limit_check(kind, c)
    if relation == "centre":
        return centre_check(kind, c)
    if relation == "far_zero":
        return far_zero_check(kind, c)
    if relation == "raises":
        return raises_check(kind, c)
    base = values(kind, c)
    N = c["N"]
    sc = float(np.max(np.abs(base))) if len(base) else 0.0
    if relation in ("inv_distance", "even", "joint_shift", "move"):
        sc = max(sc, ref_peak(kind, c))
    if relation == "position":
        return position_check(kind, c)
    if relation == "finite":
        if len(base) != N or not np.all(np.isfinite(base)):
            return {"observed": {"len": len(base), "nonfinite": int(np.sum(~np.isfinite(base)))},
                    "expected": {"len": N, "nonfinite": 0}, "what": "%s: values not finite / wrong length" % kind,
                    "key": "K12" if in_k12(kind, c) else None}
        return None
    if not np.all(np.isfinite(base)):
        return None   # reported by "finite"
    if relation == "inv_distance":
        R2 = c["R"] * c.get("rfac", 3.7)
        v2 = values(kind, c, R=R2)
        if _bad(v2 * R2, base * c["R"], 1e-9, sc * c["R"]):
            i = int(np.argmax(np.abs(v2 * R2 - base * c["R"]))) if v2.shape == base.shape else -1
            return {"observed": [float(base[i]) * c["R"], float(v2[i]) * R2] if i >= 0 else [len(base), len(v2)],
                    "expected": "values(R)*R independent of R", "what": "%s: field is not proportional to 1/R" % kind}
        return None
    if relation == "even":
        v2 = values(kind, c, psi=-psi_of(c))
        if _bad(v2, base, 1e-12, sc):
            i = int(np.argmax(np.abs(v2 - base))) if v2.shape == base.shape else -1
            return {"observed": [float(base[i]), float(v2[i])] if i >= 0 else [len(base), len(v2)],
                    "expected": "values(-psi) == values(psi)",
                    "what": "%s: field depends on the sign of the viewing angle" % kind}
        return None
    if relation == "joint_shift":
        s = c.get("s", 12345 * c["dt"])
        v2 = values(kind, c, times=grid(c) + s, t0=t0_of(c) + s)
        if _bad(v2, base, TOL[kind], sc):
            i = int(np.argmax(np.abs(v2 - base))) if v2.shape == base.shape else -1
            key = None
            # K24 at an on-grid shower time: the cut decision int((t0-times[0])/dt) of a float quotient that is
            # k -+ 1e-16 puts the placement exactly at the cut |shift| = N on one grid and one beyond it on the
            # jointly shifted grid; recognised by: ZHS, on-grid, nominal shift within one of N, one trace exactly zero
            if (kind == "zhs" and c["frac"] == 0 and abs(abs(c["k"] - N // 2) - N) <= 1
                    and v2.shape == base.shape and (not np.any(base) or not np.any(v2))):
                key = "K24"
            return {"observed": [float(base[i]), float(v2[i])] if i >= 0 else [len(base), len(v2)], "key": key,
                    "expected": "unchanged values", "what": "%s: shifting grid and shower time together changes the values" % kind}
        return None
    if relation == "move":
        m = c.get("m", 3)
        v2 = values(kind, c, t0=t0_of(c) + m * c["dt"])
        if v2.shape != base.shape:
            return {"observed": len(v2), "expected": len(base), "what": "%s: length changed" % kind}
        sc2 = max(sc, float(np.max(np.abs(v2[np.isfinite(v2)]))) if np.any(np.isfinite(v2)) else sc)
        if m >= 0:
            new, old = v2[m:], base[:N - m]
        else:
            new, old = v2[:N + m], base[-m:]
        dev = np.abs(new - old) > TOL[kind] * sc2 + 1e-300
        if np.any(dev):
            idx = np.nonzero(dev)[0] + (m if m >= 0 else 0)
            key = None
            # K5: AVZ on an odd-length grid - only the extrapolated last sample (either as `new[N-1]` or as
            # the old last sample `old[N-1]` that a negative move compares) deviates
            last_new = N - 1
            last_old_as_new = N - 1 + m   # position in `new` coordinates of old[N-1] (negative m)
            allowed = {last_new} | ({last_old_as_new} if m < 0 else set())
            if kind == "avz" and N % 2 == 1 and set(int(i) for i in idx) <= allowed:
                key = "K5"
            elif kind == "zhs" and not move_in_range(kind, c):
                # K24: one shower time inside, the other beyond the cut |shift| > len(times): the 2N-periodic
                # transform still has content in the window at the last in-range time, beyond it the trace is zero.
                # Recognised only when the out-of-range trace is exactly zero and the deviation is bounded by the
                # in-window content of the in-range trace
                inr, outr = (base, v2) if not np.any(v2) else ((v2, base) if not np.any(base) else (None, None))
                if inr is not None and np.all(np.abs(new - old) <= np.max(np.abs(inr)) * (1 + 1e-12)):
                    key = "K24"
            i = int(idx[0])
            return {"observed": {"index": i, "moved": float(v2[i]), "original[index-m]": float(base[i - m]),
                                 "n_deviating": int(len(idx)), "peak": sc2},
                    "expected": "values(t0+m*dt)[k] == values(t0)[k-m]",
                    "what": "%s: moving the shower time by %d whole samples does not move the pulse by %d samples" % (kind, m, m),
                    "key": key}
        return None
    if relation == "zero_energy":
        bad = None
        for over in ({"E": 0.0}, {"em": 0.0, "had": 0.0}):
            v = values(kind, c, **over)
            if len(v) != N or np.any(v != 0):
                bad = {"observed": {"len": len(v), "max": float(np.nanmax(np.abs(v))) if len(v) else None, "how": over},
                       "expected": "%d zeros" % N, "what": "%s: zero shower energy does not give an all-zero field" % kind}
        return bad
    if relation == "linear_E":
        lam = c.get("lam", 7.3)
        psi = c["sgn"] * thc_of(c)
        b = values(kind, c, psi=psi, em=1.0, had=0.0)
        v2 = values(kind, c, psi=psi, em=1.0, had=0.0, E=c["E"] * lam)
        s = float(np.max(np.abs(b))) if len(b) else 0
        if _bad(v2, lam * b, 1e-9, lam * s):
            i = int(np.argmax(np.abs(v2 - lam * b))) if v2.shape == b.shape else -1
            return {"observed": [float(b[i]), float(v2[i])] if i >= 0 else [len(b), len(v2)],
                    "expected": "values(lam*E) == lam*values(E) on the cone (EM shower)",
                    "what": "%s: on-cone EM pulse is not proportional to the shower energy" % kind}
        return None
    if relation == "linear_low":
        # on the cone the field per GeV is one constant from 1e-6 GeV to 1e12 GeV, in particular across the critical
        # energies 0.0786 / 0.17 GeV of the shower profiles (the on-cone branch of ARZ never looks at the profile),
        # and the trace of a shower with positive energy is not all zeros
        psi = c["sgn"] * thc_of(c)
        showers = [("em", 1.0, 0.0)] + ([("had", 0.0, 1.0)] if kind != "avz" else [])
        for name, em, had in showers:
            ref_E = 1e6
            ref = values(kind, c, psi=psi, em=em, had=had, E=ref_E)
            s_ = float(np.max(np.abs(ref))) if len(ref) else 0.0
            for e_low in c.get("e_low", (1e-3, 7e-2)):
                v = values(kind, c, psi=psi, em=em, had=had, E=e_low)
                exp_ = ref * (e_low / ref_E)
                if v.shape != exp_.shape or (s_ > 0 and not np.any(v)) or \
                        not np.all(np.abs(v - exp_) <= 1e-9 * s_ * (e_low / ref_E) + 1e-300):
                    i = int(np.argmax(np.abs(v - exp_))) if v.shape == exp_.shape else -1
                    return {"observed": {"shower": name, "energy": e_low,
                                         "value / GeV": [float(ref[i]) / ref_E, float(v[i]) / e_low] if i >= 0 else None,
                                         "all zero": bool(not np.any(v))},
                            "expected": "values(E)/E on the cone independent of E (down to 1e-6 GeV)",
                            "what": "%s: on-cone %s pulse is not proportional to the shower energy below %g GeV"
                                    % (kind, name, e_low)}
        return None
    if relation == "cone_max":
        step = c.get("step", 0.5)
        thc = thc_of(c)
        amps = {}
        for side in (1, -1):
            prev = None
            for j in range(0, c.get("nsweep", 10)):
                th = thc + side * math.radians(j * step)
                if not 0 < th < math.pi:
                    break
                if j == 0 and side == -1:
                    a = amps[(1, 0)]
                else:
                    v = values(kind, c, psi=c["sgn"] * th)
                    a = float(np.max(np.abs(v)))
                amps[(side, j)] = a
                if prev is not None and not a < prev * (1 + 1e-9) and prev > 0:
                    return {"observed": {"side": side, "deg_off_cone": [step * (j - 1), step * j], "peak": [prev, a],
                                         "resolution q": cone_resolution(kind, c)},
                            "expected": "peak falls with angular distance from the cone",
                            "what": "%s: pulse amplitude does not fall with angular distance from the Cherenkov cone" % kind,
                            "key": "K13" if in_k13(kind, c) else None}
                prev = a
        return None
    raise ValueError("unknown relation " + relation)


ARZ_RESOLVED = 4.5


def cone_resolution(kind, c):
    """ARZ: how well a sweep in steps of `step` degrees is resolved by the grid: the time width of the pulse one
    step off the cone, sqrt(n^2-1) * step * max_length(E_max) / c (shower length times the time-compression factor
    (1 - n cos theta)/c ~ sqrt(n^2-1) * dtheta / c), in units of dt.  A scan of the unchanged code over index
    1.05..2.0, dt 0.025..0.2 ns, steps 0.5..2 degrees, E 1e3..1e12 GeV (4400 sweeps) found the sampled peak ordering
    violated only for q <= 3.30 (the on-cone pulse -diff(RAC)/dt is under-sampled while the off-cone pulse is
    narrow enough to be nearly as high); the ordering is claimed for q >= 4.5.  AVZ: the scan over the same indices
    fails only for dt >= 1 ns at every index; ZHS never."""
    if kind != "arz":
        return None
    from pyrex.askaryan import ARZAskaryanSignal as Z
    n = n_of(c)
    en = max(c["E"] * c["em"], c["E"] * c["had"])
    if not (n > 1 and en > 0.0786):
        return 0.0
    return float(math.sqrt(n * n - 1) * math.radians(c.get("step", 0.5)) * Z.max_length(en) / 299792458.0 / c["dt"])


def in_k13(kind, c):
    """K13: the sampled amplitude ordering is not claimed where the grid does not resolve it: ARZ with resolution
    q < 4.5 (see `cone_resolution`), AVZ with dt > 0.5 ns (band limit below 1 GHz)"""
    if kind == "arz":
        return cone_resolution(kind, c) < ARZ_RESOLVED
    if kind == "avz":
        return c["dt"] > 5e-10 * (1 + 1e-9)
    return False


def move_in_range(kind, c):
    """ZHS and AVZ return exact zeros once the placement shift exceeds the trace length (a deliberate cut of
    the far tail); the whole-sample-move relation is claimed (and proved) while both shower times stay within
    that range"""
    N = c["N"]
    for k in (c["k"], c["k"] + c.get("m", 3)):
        x = k + c["frac"]
        if kind == "zhs" and abs(int(x) - N // 2) > N - 1:
            return False
        if kind == "avz" and abs(math.floor(x) - (N // 2)) > 2 * (N // 2) - 1:
            return False
    return True


def arz_independent(c, refine=7.3):
    """independent re-computation of the ARZ field off the cone: for each shower
    E(t_k) = -(sin(theta)/sin(theta_c)) / (R dt) * (<RAC>(t_{k+1}) - <RAC>(t_k)),
    <RAC>(t) = int Q(z) RAC(t - t0 - z*z_to_t) dz / int Q(z) dz  (RAC cut at +-10 ns as in the code),
    by a midpoint rule on a z-grid that is not commensurate with the code's; uses only the implementation's
    profile / potential / max_length functions, none of shower_signal's index bookkeeping.
    Returns (field, d field / d t0 shift, smallest sub-sample step dt/dt_divider)."""
    import scipy.constants
    from pyrex.askaryan import ARZAskaryanSignal as Z
    times = grid(c)
    dt = c["dt"]
    theta = abs(psi_of(c))
    n = n_of(c)
    z_to_t = (1 - n * np.cos(theta)) / scipy.constants.c
    tt0 = np.concatenate((times, [times[-1] + dt])) - t0_of(c)
    total, deriv, delta = 0.0, 0.0, None
    for en, prof, rac in ((c["E"] * c["em"], Z.em_shower_profile, Z.em_shower_RAC),
                          (c["E"] * c["had"], Z.had_shower_profile, Z.had_shower_RAC)):
        if en == 0:
            continue
        ml = float(Z.max_length(en))
        d = max(int(abs(100 * dt / ml / z_to_t)) + 1, int(abs(dt / 1e-11)) + 1)
        dl = dt / d
        h = abs(dl / z_to_t) / refine
        z = (np.arange(int(5 * ml / h) + 1) + 0.5) * h
        Q = prof(z, en)
        pref = -(np.sin(theta) / np.sqrt(1 - 1 / n ** 2)) / (c["R"] * dt) / np.sum(Q)
        fields = []
        for tt in (tt0, tt0 - dl):          # the second one: shower time later by one sub-sample
            avg = np.empty(len(tt))
            for k, t in enumerate(tt):
                u = t - z * z_to_t
                r_ = rac(u, en)
                r_[np.abs(u) > 1e-8] = 0
                avg[k] = np.sum(Q * r_)
            fields.append(pref * np.diff(avg))
        total = total + fields[0]
        deriv = deriv + (fields[1] - fields[0]) / dl
        delta = dl if delta is None else min(delta, dl)
    return total, deriv, delta


def position_check(kind, c):
    """ARZ off the cone: the sampled pulse must agree with the independent quadrature to 5e-3 of the peak (the
    clean tree stays below 2e-3 on thousands of cases).  A misplacement by one sub-sample dt/dt_divider changes
    the samples by (dt/dt_divider)*|dE/dt|, which is 1e-2..1e-1 of the peak within ~3 degrees of the cone.  The
    least-squares time offset is reported for diagnosis only (it is ill-conditioned on coarse grids)."""
    v = values(kind, c)
    e, g, delta = arz_independent(c)
    pk = float(np.max(np.abs(e)))
    if pk == 0 or not np.all(np.isfinite(v)) or len(v) != len(e):
        return None
    err = float(np.max(np.abs(v - e))) / pk
    if err > 5e-3:
        shift = float(np.sum((v - e) * g) / np.sum(g * g)) / delta
        return {"observed": {"max deviation / peak": err, "fitted time offset / (dt/dt_divider)": shift,
                             "sub-sample step": delta},
                "expected": "field = -(sin th/sin th_c)/(R dt) * diff(<RAC>_Q(t - t0)) within 5e-3 of the peak",
                "what": "arz: the off-cone pulse is not where / what the independent convolution integral says "
                        "(deviation %.1e of the peak, fitted offset %.2f sub-samples)" % (err, shift)}
    return None


RELATIONS = ("finite", "inv_distance", "even", "joint_shift", "move", "zero_energy", "linear_E", "cone_max", "position",
             "forms", "centre", "far_zero", "raises", "order", "cone_limit", "lazy_grid", "linear_low")


def report(run, kind, c, relation, res):
    data = {"model": kind, "relation": relation, "case": c}
    if res.get("key") and run.finding_for(res["key"]) is not None:
        run.known_finding(res["key"])
        run.count("known_" + res["key"])
        return
    run.fail_input(relation, data, observed=res.get("observed"), expected=res.get("expected"),
                   what=res.get("what"), finding_key=res.get("key"))


@capped
def search(run, deep):
    r = run.rng
    n = run.scale(70, 400) if not deep else 400
    for kind in KINDS:
        for i in range(n if kind != "arz" else max(8, n // 2)):
            c = gen_case(run, kind, small=(i % 4 != 0))
            if i % 9 == 0:     # pulses cut by the window start (needs floor, not truncation)
                c["k"] = -r.randint(1, 4)
                c["pos"] = "before"
                if kind == "arz":
                    for _ in range(60):
                        if arz_safe(c):
                            break
                        c["frac"] = r.uniform(0.1, 0.9)
            c["m"] = r.choice([1, 2, 3, 5, -1, -2]) if c["pos"] != "far" else 1
            c["rfac"] = r.choice([2.0, 3.7, 0.31, 1 / c["R"]])
            c["s"] = r.choice([12345 * c["dt"], -777 * c["dt"], 1e-6, r.uniform(-1e-6, 1e-6)])
            c["lam"] = r.choice([2.0, 7.3, 0.125, 1e3])
            run.case(("search",) + desc(kind, c))
            run.count("search_" + kind)
            rels = ["finite", "inv_distance", "even", "joint_shift", "move", "zero_energy"]
            if i % 2 == 0:
                rels.append("linear_E")
            if i % 3 == 0:
                c["e_low"] = (10 ** r.uniform(-6, -1.2), r.choice([7e-2, 0.0786 * (1 - 1e-9), 0.1, 0.17, 1.0, 10 ** r.uniform(-1.1, 2)]))
                rels.append("linear_low")
            for rel in rels:
                if rel == "move" and not move_in_range(kind, c):
                    run.count("move_across_cutoff")
                if kind == "arz" and rel in ("joint_shift", "move"):
                    # both grids must be away from the sub-sample int() boundaries
                    c2 = dict(c)
                    if rel == "move":
                        c2["k"] = c["k"] + c["m"]
                    if not arz_safe(c2):
                        continue
                res = rel_check(run, kind, c, rel)
                if res is not None:
                    report(run, kind, c, rel, res)
        # amplitude largest on the cone: sweeps in >= 0.5 degree steps, pulse well inside the window
        for i in range(run.scale(8, 40) if not deep else 40):
            c = gen_case(run, kind, small=False, inside=True)
            c["N"] = r.choice([128, 129, 200])
            c["k"] = c["N"] // 2
            c["psi"] = None
            c["dpsi"] = 0.0
            c["step"] = r.choice([0.5, 0.7, 1.0, 2.0])
            if kind == "arz":
                c["dt"] = r.choice([2.5e-11, 5e-11, 1e-10, 2e-10])   # K13 is decided by cone_resolution(), not by dt
                run.count("sweep_arz_%s" % ("resolved" if not in_k13(kind, c) else "K13_region"))
            if kind == "avz":
                # band limit >= 1 GHz: below 500 MHz the AVZ width (2.7 deg * 500 MHz / f) is so large that the
                # sin(theta)/sin(theta_c) prefactor moves the maximum by more than the sweep step (K13)
                c["dt"] = r.choice([1e-10, 2e-10, 2.5e-10, 5e-10])
            run.case(("sweep",) + desc(kind, c) + (c["step"],))
            run.count("sweep_" + kind)
            res = rel_check(run, kind, c, "cone_max")
            if res is not None:
                report(run, kind, c, "cone_max", res)
    # call forms / aliases / defaults / caller-owned inputs / state across calls / re-gridding; pulse centring;
    # far-away shower times; rejected angles
    for kind in KINDS:
        for i in range(run.scale(8, 60) if not deep else 60):
            c = gen_case(run, "zhs" if kind != "arz" else "arz", small=True, inside=True)
            c["k"] = r.randint(5, c["N"] - 6)
            run.case(("forms",) + desc(kind, c))
            run.count("search_forms_" + kind)
            c["s"] = r.choice([12345 * 1.25e-10, 1e-6, -3.3e-7, r.uniform(-1e-6, 1e-6)])
            c["lazy_dt"] = r.choice([1.25e-10, 1.25e-10, 3.75e-10, r.uniform(0.6e-10, 1.9e-9)])
            for rel in ("forms", "lazy_grid", "centre", "far_zero") + (("raises", "order") if i % 4 == 0 else ()):
                res = rel_check(run, kind, c, rel)
                if res is not None:
                    report(run, kind, c, rel, res)
    # shower time exactly on a grid sample (frac = 0), and ARZ moves across the zero crossing of int()'s argument
    for kind in KINDS:
        for i in range(run.scale(20, 150) if not deep else 150):
            c = gen_case(run, "zhs", small=True, inside=True)
            c["frac"] = 0.0
            c["k"] = r.randint(6, c["N"] - 7)
            if kind == "arz":
                c["psi"] = None
                c["dpsi"] = r.choice([0.0, r.choice([-1, 1]) * 10 ** r.uniform(-3, -1)])
                if min(c["E"] * c["em"] or 1e9, c["E"] * c["had"] or 1e9) < 3.0:
                    continue
                # dt not a multiple of 10 ps: dt_divider_RAC = int(dt/1e-11)+1 of the differenced, jointly shifted
                # grid would flip by one there and change the sub-sample grid (2e-3 of the peak)
                c["dt"] = r.choice([1.25e-10, 3.75e-10, 6.25e-10, r.uniform(0.6e-10, 1.9e-9)])
                if i % 3 == 0 and c["dpsi"] != 0.0:
                    # t0 = times[0] + 10 ns -/+ : the move crosses the sign change of (t_start + 10 ns)
                    c["dt"] = r.choice([1.25e-10, 3.75e-10, 6.25e-10])
                    c["N"] = 64
                    c["m"] = r.choice([1, 2, 3])
                    c["k"] = int(round(1e-8 / c["dt"])) - r.randint(0, c["m"])
                    c["frac"] = r.choice([0.0, r.uniform(0.1, 0.9)])
                    run.count("search_arz_zero_crossing")
            c.setdefault("m", r.choice([1, 2, 3, -1, -2]))
            c["s"] = r.choice([12345 * c["dt"], 1e-6, -3.3e-7, r.uniform(-1e-6, 1e-6)])
            run.case(("ongrid",) + desc(kind, c))
            run.count("search_ongrid_" + kind)
            for rel in ("joint_shift", "move"):
                res = rel_check(run, kind, c, rel)
                if res is not None:
                    report(run, kind, c, rel, res)
    # ARZ a few micro-radians off the cone (just outside the on-cone window; up to 3e7 sub-samples)
    for i in range(run.scale(3, 30) if not deep else 30):
        c = gen_case(run, "zhs", small=True, inside=True)
        c["psi"] = None
        c["ice"] = r.choice([None, c["ice"]])
        c["N"] = r.choice([16, 24, 25])
        c["k"] = r.randint(6, c["N"] - 7)
        c["dpsi"] = r.choice([-1, 1]) * 10 ** r.uniform(-5.5, -5)
        if min(c["E"] * c["em"] or 1e9, c["E"] * c["had"] or 1e9) < 3.0:
            continue
        run.case(("cone_limit",) + desc("arz", c))
        run.count("search_arz_cone_limit")
        for rel in ("finite", "cone_limit"):
            res = rel_check(run, "arz", c, rel)
            if res is not None:
                report(run, "arz", c, rel, res)
    # ARZ off the cone: position and shape against an independent quadrature of the convolution integral
    for i in range(run.scale(40, 300) if not deep else 300):
        c = gen_case(run, "zhs", small=True, inside=True)      # (no int()-boundary filtering needed here)
        c["psi"] = None
        c["dpsi"] = r.choice([-1, 1]) * 10 ** r.uniform(-3.3, r.choice([-1.6, -1.3, -0.9]))
        c["N"] = r.choice([48, 64, 65])
        c["k"] = r.randint(16, c["N"] - 16)
        if min(c["E"] * c["em"] or 1e9, c["E"] * c["had"] or 1e9) < 3.0:
            continue
        run.case(("position",) + desc("arz", c))
        run.count("search_arz_position")
        res = rel_check(run, "arz", c, "position")
        if res is not None:
            report(run, "arz", c, "position", res)
    # weak showers, all three models: hadronic shower energies 3e-3 GeV .. 1.6 TeV (below the 1 TeV threshold of
    # the AVZ hadronic width, below 1 GeV, around the ARZ critical energies and the K12 band), alone or with an EM
    # shower that may itself be weak, seen exactly on the cone (viewing angle bitwise +-arccos(1/n)), near it and
    # off it: the field must be finite and of the right length.  K12 is recognised for ARZ only.
    for i in range(run.scale(50, 400) if not deep else 400):
        c = gen_case(run, "zhs", small=True, inside=True)
        c["psi"] = None
        am = r.choice(["cone", "cone", "near", "off"])
        c["angle_mode"] = am
        c["dpsi"] = {"cone": 0.0, "near": r.choice([-1, 1]) * 10 ** r.uniform(-4, -1.3),
                     "off": r.choice([-1, 1]) * r.uniform(0.05, 0.35)}[am]
        c["E"] = 10 ** r.uniform(3, 6)
        c["had"] = 10 ** r.uniform(-2.5, 3.2) / c["E"]
        c["em"] = {"had": 0.0, "mix": max(0.0, 1 - c["had"]), "weak_em": 10 ** r.uniform(-2.5, 3) / c["E"]}[
            r.choice(["had", "mix", "weak_em"])]
        run.case(("weak",) + desc("zhs", c))
        run.count("search_weak_%s" % am)
        for kind in KINDS:
            res = rel_check(run, kind, c, "finite")
            if res is not None:
                report(run, kind, c, "finite", res)
    # tiny hadronic fractions (ARZ): finiteness
    for i in range(run.scale(6, 60)):
        c = gen_case(run, "arz", small=True, inside=True)
        c["had"] = 10 ** r.uniform(-12, -2)
        c["em"] = 1 - c["had"]
        run.case(("tiny-had",) + desc("arz", c))
        res = rel_check(run, "arz", c, "finite")
        if res is not None:
            report(run, "arz", c, "finite", res)


# --------------------------------------------------------------------------------------------
@capped
def known_probes(run):
    """re-run the specific failing inputs of the recorded findings"""
    # K5: AVZ, odd N, pulse near the end of the window: only the last sample breaks the whole-sample move
    c = {"E": 1e9, "em": 0.6, "had": 0.4, "z": -1000.0, "R": 100.0, "sgn": 1, "dpsi": 0.0, "psi": None,
         "N": 41, "dt": 2.5e-10, "off": 0.0, "k": 39, "frac": 0.37, "m": 2}
    res = rel_check(run, "avz", c, "move")
    if res is not None:
        if res.get("key") == "K5":
            run.known_finding("K5")
        else:
            report(run, "avz", c, "move", res)
    even = dict(c)
    even["N"] = 42
    res = rel_check(run, "avz", even, "move")
    if res is not None:
        report(run, "avz", even, "move", res)
    # K12: ARZ off the cone with a hadronic shower of 0.17..2.96 GeV: Gaisser-Hillas X_max below the interaction
    # length, negative base to a fractional power -> all-NaN trace
    c6 = {"E": 1e3, "em": 0.999, "had": 0.001, "z": -1000.0, "R": 100.0, "sgn": 1, "dpsi": 0.05, "psi": None,
          "N": 64, "dt": 5e-10, "off": 0.0, "k": 20, "frac": 0.3}
    res = rel_check(run, "arz", c6, "finite")
    if res is not None:
        if res.get("key") == "K12":
            run.known_finding("K12")
        else:
            report(run, "arz", c6, "finite", res)
    # K13: coarse grids: the sampled amplitude is not largest on the cone (ARZ: under-sampled on-cone pulse;
    # AVZ: band limit below 500 MHz, sin(theta) prefactor wins over the wide low-frequency cone factor)
    c7a = {"E": 2121007.67, "em": 0.3215, "had": 0.0575, "z": -918.87, "R": 100.0, "sgn": 1, "dpsi": 0.0,
           "psi": None, "N": 129, "dt": 1.8474304440460655e-09, "off": 0.0, "k": 64, "frac": 0.76, "step": 0.5}
    res = rel_check(run, "avz", c7a, "cone_max")
    if res is not None:
        if "exception" in str(res.get("observed")):
            report(run, "avz", c7a, "cone_max", res)
        else:
            run.known_finding("K13")
    c7 = {"E": 7.3e9, "em": 1.0, "had": 0.0, "z": -1000.0, "R": 100.0, "sgn": 1, "dpsi": 0.0, "psi": None,
          "N": 200, "dt": 1e-9, "off": 0.0, "k": 100, "frac": 0.42, "step": 0.5}
    res = rel_check(run, "arz", c7, "cone_max")
    if res is not None:
        if "exception" in str(res.get("observed")):
            report(run, "arz", c7, "cone_max", res)
        else:
            run.known_finding("K13")
    _probe_new_findings(run)


def _probe_new_findings(run):
    Z = _classes()["arz"]
    base = {"E": 1e9, "em": 1.0, "had": 0.0, "z": -1000.0, "ice": None, "R": 100.0, "sgn": 1, "dpsi": 0.0,
            "psi": None, "N": 32, "dt": 3e-10, "off": 0.0, "k": 6, "frac": 0.0, "m": 1, "s": 1e-6}
    # K24: ZHS, last in-range shower time vs one sample later (0.1 rad off the cone, 32 samples of 0.2 ns)
    c24 = dict(base, dpsi=0.1, N=32, dt=2e-10, k=16 + 32, frac=0.3, m=1)
    res = rel_check(run, "zhs", c24, "move")
    if res is not None:
        report(run, "zhs", c24, "move", res)
    # K25: ARZ, EM shower energy exactly at the critical energy of max_length (division by zero; costs nothing)
    c25 = dict(base, E=MAXLEN_CRIT, dpsi=0.03, N=8, dt=1e-10, k=3, frac=0.3)
    try:
        with warnings.catch_warnings():
            warnings.simplefilter("ignore")
            v = np.array(Z(grid(c25), mkp(MAXLEN_CRIT, 1.0, 0.0, -1000.0), psi_of(c25), 100.0, ice(), t0_of(c25)).values)
        if len(v) != 8 or not np.all(np.isfinite(v)):
            report(run, "arz", c25, "finite", {"observed": "non-finite", "what": "arz: values not finite", "key": "K25"})
    except (MemoryError, OverflowError):
        run.known_finding("K25")
    except Exception as e:
        report(run, "arz", c25, "finite", {"observed": repr(e)[:200], "what": "arz: raised %s" % type(e).__name__})
    # index of refraction <= 1 at the vertex (vertex above the surface / UniformIce(1)): no Cherenkov cone exists,
    # outside the property; what the code does there is only recorded
    try:
        for kind in KINDS:
            with warnings.catch_warnings():
                warnings.simplefilter("ignore")
                v = np.array(_classes()[kind](grid(base), mkp(1e9, 0.6, 0.4, 10.0), 0.9, 100.0, ice(), t0_of(base)).values)
            run.count("index_one_%s_%s" % (kind, "finite" if np.all(np.isfinite(v)) else "nan"))
    except Exception as e:
        run.count("index_one_raises_%s" % type(e).__name__)


def corpus(run):
    """regression inputs of repaired defects (a recurrence is a VIOLATION)"""
    with mem_cap():
        # F21: AVZ, shower time exactly on a sample of the grid 0.3 ns * arange(32)
        base = {"E": 1e9, "em": 1.0, "had": 0.0, "z": -1000.0, "ice": None, "R": 100.0, "sgn": 1, "dpsi": 0.0,
                "psi": None, "N": 32, "dt": 3e-10, "off": 0.0, "k": 5, "frac": 0.0, "m": 1, "s": 1e-6}
        for k in (5, 6, 7, 9, 14):
            for off in (0.0, 1e-6, -37e-9):
                c = dict(base, k=k, off=off)
                run.case(("corpus-F21",) + desc("avz", c))
                for rel in ("joint_shift", "move", "centre"):
                    res = rel_check(run, "avz", c, rel)
                    if res is not None:
                        report(run, "avz", c, rel, res)
    return True


@capped
def replay(run, data):
    inp = data["input"]
    res = rel_check(run, inp["model"], inp["case"], inp["relation"])
    if res is not None:
        report(run, inp["model"], inp["case"], inp["relation"], res)
