"""C08 - antenna response is linear, rotation-covariant, scales fields by the antenna factor.

Float twin of lean/twin/Antenna.body against pyrex.antenna.Antenna / DipoleAntenna and
pyrex.detector.AntennaSystem."""
import contextlib
import logging
import math

import numpy as np

import framework as fw

LEVEL = "proof"
USE_TWINS = True
TECHNIQUE = "Lean 4 theorems over the real-number reading of a twin model + Float-twin differential run"
RULE = ("random raw (non-unit) perpendicular antenna axes, positions, arrival directions, polarisations, "
        "rotations, antenna factor/efficiency, short random signals (N in 6..24, two sampling steps) of every "
        "value type x Antenna (unit gains; custom gains with a sin(phi)/cos(phi)-dependent directional gain and a "
        "polarisation gain reading all three antenna-frame components; optional complex frequency response), "
        "DipoleAntenna (tape-fed tmp vector, Butterworth band-pass), AntennaSystem around either; ops coords / "
        "angles / factor / respond / receive1 / receive (1-3 polarised components, error modes) / dipole "
        "construction / frequency response; a case is non-trivial when direction and polarisation are given and "
        "the value type is accepted; distinct = distinct (antenna, op, arguments)")
LEVEL_TEXT = ("theorems (linearity given a linear filter, factor decomposition with the field/voltage/other decision, "
              "SO(3) covariance of (r,theta,phi) and of both gains via R(a x b) = Ra x Rb, dipole gains, receive = sum "
              "of components, AntennaSystem delegation) proved over R for every antenna, signal and rotation; the same "
              "model text run on Float agrees with pyrex on every sampled input")
LEVEL_NOTE = ("the frequency filter is an abstract linear operator in the theorems (linearity of "
              "Signal.filter_frequencies is property C05; the zero-padded DFT filter the driver runs is proved linear, "
              "C08_dft_filter_linear); gains are real-valued; floating-point rounding is not "
              "modelled (tolerance run: 1e-9 relative, FFT-based values 1e-9 of the peak); scipy.signal.butter / freqs "
              "are modelled by the rational function they define; constants (speed of light, isclose tolerance 1e-8) "
              "are hard-coded in Antenna.body and a changed constant is noticed by the correspondence run")
ASSUMPTIONS = ["Signal.filter_frequencies is a linear operator on the values (C05)",
               "numpy cross/dot/arccos/arctan2/linalg.norm and scipy.signal.butter/freqs follow their specification"]

CHECKER_MODULES = ["PyrexVerif.Proofs.Antenna"]

logging.getLogger("pyrex").setLevel(logging.CRITICAL)

VTS = ["undefined", "voltage", "field", "power"]


# --------------------------------------------------------------------------------------------
# building implementation objects from a plain (JSON-able) spec
@contextlib.contextmanager
def rand_tape(values):
    """np.random.rand(3) draws come from `values` (consumed three at a time)"""
    orig = np.random.rand
    it = iter(values)

    def rand(*shape):
        n = int(np.prod(shape)) if shape else 1
        out = np.array([next(it) for _ in range(n)], dtype=float)
        return out.reshape(shape) if shape else float(out[0])
    np.random.rand = rand
    try:
        yield
    finally:
        np.random.rand = orig


def vtype(name):
    from pyrex.signals import Signal
    return getattr(Signal.Type, name)


def lowpass(f0):
    def resp(f):
        return 1 / (1 + 1j * np.asarray(f) / f0)
    return resp


def build(spec):
    """-> (object the calls go to, the underlying Antenna)"""
    from pyrex.antenna import Antenna, DipoleAntenna
    from pyrex.detector import AntennaSystem
    if spec["kind"] in ("dip", "sysdip"):
        with rand_tape(spec["tape"]):
            inner = DipoleAntenna("d", np.array(spec["pos"]), spec["cf"], spec["bw"], 300, 50,
                                  orientation=np.array(spec["z"]), effective_height=spec.get("eh"), noisy=False)
    else:
        inner = Antenna(np.array(spec["pos"]), z_axis=np.array(spec["z"]), x_axis=np.array(spec["x"]),
                        antenna_factor=spec["af"], efficiency=spec["eff"], noisy=False)
        c = spec.get("gains")
        if c is not None:
            inner.directional_gain = lambda theta, phi: np.sin(theta) * (c[0] + c[1] * np.cos(phi) + c[6] * np.sin(phi)) + c[2] * theta
            inner.polarization_gain = lambda p: (c[3] * np.vdot(inner.x_axis, p) + c[4] * np.vdot(inner.z_axis, p)
                                                 + c[5] * np.vdot(np.cross(inner.z_axis, inner.x_axis), p))
        if spec.get("fresp") is not None:
            inner.frequency_response = lowpass(spec["fresp"])
    outer = AntennaSystem(inner) if spec["kind"].startswith("sys") else inner
    return outer, inner


def rotated(spec, R):
    s = dict(spec)
    s["z"] = list(map(float, R @ np.array(spec["z"])))
    if "x" in spec:
        s["x"] = list(map(float, R @ np.array(spec["x"])))
    if "tape" in spec:   # dipole gains do not depend on the x axis; keep the tape
        s["tape"] = list(spec["tape"])
    return s


def rand_rotation(rng):
    q = np.array([rng.gauss(0, 1) for _ in range(4)])
    q /= np.linalg.norm(q)
    w, x, y, z = q
    return np.array([[1 - 2 * (y * y + z * z), 2 * (x * y - z * w), 2 * (x * z + y * w)],
                     [2 * (x * y + z * w), 1 - 2 * (x * x + z * z), 2 * (y * z - x * w)],
                     [2 * (x * z - y * w), 2 * (y * z + x * w), 1 - 2 * (x * x + y * y)]])


def gvec(rng, scale=1.0):
    while True:
        v = np.array([rng.gauss(0, 1) for _ in range(3)])
        if np.linalg.norm(v) > 0.2:
            return [float(c * scale) for c in v]


def rand_spec(run, kind):
    rng = run.rng
    z = np.array(gvec(rng, rng.choice([1.0, 0.3, 7.0])))
    while True:
        x = np.cross(z, np.array(gvec(rng)))
        if np.linalg.norm(x) > 0.2 * np.linalg.norm(z):
            break
    x = x / np.linalg.norm(x) * rng.choice([1.0, 2.5, 0.4])
    spec = {"kind": kind, "pos": [rng.uniform(-100, 100), rng.uniform(-100, 100), rng.uniform(-300, -10)],
            "z": [float(c) for c in z]}
    if kind in ("dip", "sysdip"):
        cf = rng.uniform(150e6, 600e6)
        spec.update(cf=cf, bw=rng.uniform(0.1, 0.9) * cf, eh=rng.choice([None, None, rng.uniform(0.2, 2.0)]),
                    tape=[rng.random() for _ in range(3)])
    else:
        spec.update(x=[float(c) for c in x], af=rng.choice([1.0, rng.uniform(0.2, 8.0)]),
                    eff=rng.choice([1.0, rng.uniform(0.1, 1.0)]))
        if kind in ("custom", "syscustom"):
            spec["gains"] = [rng.uniform(1, 3), rng.uniform(-1, 1), rng.uniform(-0.3, 0.3),
                             rng.uniform(-1, 1), rng.uniform(-1, 1), rng.uniform(-1, 1), rng.uniform(-1, 1)]
            spec["fresp"] = rng.choice([None, rng.uniform(1e8, 8e8)])
    return spec


def rand_signal(run, n=None, dt=None):
    rng = run.rng
    n = n or rng.choice([6, 8, 11, 12, 16, 17, 24])
    dt = dt or rng.choice([1e-9, 0.5e-9, 0.2e-9])
    t0 = rng.choice([0.0, rng.uniform(-50, 50) * 1e-9])
    return {"t0": t0, "dt": dt, "vals": [rng.gauss(0, 1) * rng.choice([1, 1, 1e-3]) for _ in range(n)]}


def mk_signal(sd, vt):
    from pyrex.signals import Signal
    n = len(sd["vals"])
    return Signal(sd["t0"] + np.arange(n) * sd["dt"], np.array(sd["vals"], dtype=float), vtype(vt))


# --------------------------------------------------------------------------------------------
# request encoding
def opt3(v):
    return "-" if v is None else fw.fl(v)


def ant_toks(spec, inner):
    if spec["kind"] in ("dip", "sysdip"):
        eh = "-" if spec.get("eh") is None else str(fw.f2b(spec["eh"]))
        return "D %s %s %s %s %s" % (fw.fl(spec["pos"]), fw.fl(spec["z"]), fw.fl([spec["cf"], spec["bw"]]), eh,
                                     fw.fl(spec["tape"]))
    return "A %s %s %s %s" % (fw.fl(spec["pos"]), fw.fl(spec["z"]), fw.fl(spec["x"]), fw.fl([spec["af"], spec["eff"]]))


def gain_toks(spec):
    if spec["kind"] in ("dip", "sysdip"):
        return "dipole"
    if spec.get("gains") is not None:
        return "custom " + fw.fl(spec["gains"])
    return "unit"


def filter_toks(spec, inner, sd, force_real):
    import scipy.fft
    from pyrex.signals import Signal
    n = len(sd["vals"])
    if spec["kind"] in ("dip", "sysdip"):
        b, a = inner.filter_coeffs
        return "B %s %s %s %d" % (fw.fl(np.real(b)), fw.fl(np.real(a)), fw.fl([sd["dt"]]), 1 if force_real else 0)
    freqs = scipy.fft.fftfreq(n=2 * n, d=sd["dt"])
    h = Signal._get_filter_response(freqs, inner.frequency_response, force_real)
    flat = []
    for c in h:
        flat += [float(c.real), float(c.imag)]
    return "H " + fw.fl(flat)


def head(spec, inner, op, direction):
    return "%s | %s | %s | %s" % (op, ant_toks(spec, inner), gain_toks(spec), opt3(direction))


def angdiff(a, b):
    d = abs(a - b) % (2 * math.pi)
    return min(d, 2 * math.pi - d)


# --------------------------------------------------------------------------------------------
def impl_respond(outer, sd, vt, direction, pol, force_real):
    """values of apply_response or "err" """
    try:
        out = outer.apply_response(mk_signal(sd, vt), direction=None if direction is None else np.array(direction),
                                   polarization=None if pol is None else np.array(pol), force_real=force_real)
    except ValueError:
        return "err"
    from pyrex.signals import Signal
    if out.value_type != Signal.Type.voltage:
        return "not-voltage"
    return [float(v) for v in np.real(out.values)]


def correspondence(run):
    import pyrex  # noqa: F401
    from pyrex.signals import Signal
    rng = run.rng
    reqs, checks = [], []     # checks: (desc, fn(reply) -> None | "mismatch text")
    kinds = ["unit", "custom", "custom", "dip", "dip", "sysdip", "syscustom"]
    ncases = run.scale(140, 1200)

    def add(req, desc, fn, nontrivial=True, sample=None):
        reqs.append(req)
        checks.append((desc, fn, nontrivial, sample))

    def cmp_list(expected, rel, abs_scale=None):
        def fn(reply):
            if expected == "err":
                return None if reply == "err" else "model=%s impl=err" % reply[:80]
            if reply in ("err", "bad-op"):
                return "model=%s impl=%s" % (reply, str(expected)[:120])
            got = fw.unfl(reply.split())
            sc = max([abs(v) for v in expected] + [1e-300])
            tol_abs = (abs_scale if abs_scale is not None else rel) * sc
            if len(got) != len(expected) or not all(abs(g - e) <= tol_abs + rel * abs(e) for g, e in zip(got, expected)):
                return "model=%s impl=%s" % (got[:6], expected[:6])
            return None
        return fn

    for ci in range(ncases):
        kind = kinds[ci % len(kinds)]
        spec = rand_spec(run, kind)
        outer, inner = build(spec)
        run.count("antenna_" + kind)
        key = (kind, ci)
        direction = gvec(rng, rng.choice([1.0, 0.01, 50.0]))
        pol = gvec(rng, rng.choice([1.0, 3.0]))
        # --- dipole construction / butterworth
        if kind in ("dip", "sysdip"):
            b, a = inner.filter_coeffs
            exp = (list(map(float, inner.z_axis)) + list(map(float, inner.x_axis))
                   + [float(inner.antenna_factor), float(inner.efficiency), float(inner.freq_range[0]),
                      float(inner.freq_range[1])] + [float(v) for v in np.real(b)] + [float(v) for v in np.real(a)])
            add("dipole | " + ant_toks(spec, inner), (key, "dipole"), cmp_list(exp, 1e-9, 1e-12),
                sample={"op": "dipole", "spec": spec, "impl": exp[:8]})
            fs = [rng.uniform(0, 2e9) for _ in range(6)] + [0.0, spec["cf"]]
            h = inner.frequency_response(np.array(fs))
            flat = []
            for c in h:
                flat += [float(c.real), float(c.imag)]
            add("freqresp | %s %s | %s" % (fw.fl(np.real(b)), fw.fl(np.real(a)), fw.fl(fs)), (key, "freqresp", tuple(fs)),
                cmp_list(flat, 1e-9, 1e-9))
        # --- coordinates
        for _ in range(2):
            pt = [p + c for p, c in zip(spec["pos"], gvec(rng, rng.choice([1.0, 30.0])))]
            r, th, ph = (float(v) for v in inner._convert_to_antenna_coordinates(np.array(pt)))

            def fn(reply, r=r, th=th, ph=ph):
                if reply in ("err", "bad-op"):
                    return "model=%s" % reply
                g = fw.unfl(reply.split())
                if len(g) == 3 and fw.close(g[0], r, 1e-9) and abs(g[1] - th) <= 1e-9 and angdiff(g[2], ph) <= 1e-9:
                    return None
                return "model=%s impl=%s" % (g, [r, th, ph])
            add(head(spec, inner, "coords", None) + " | " + fw.fl(pt), (key, "coords", tuple(pt)), fn,
                sample={"op": "coords", "spec": spec, "point": pt, "impl": [r, th, ph]})
        r0 = inner._convert_to_antenna_coordinates(np.array(spec["pos"]))
        add(head(spec, inner, "coords", None) + " | " + fw.fl(spec["pos"]), (key, "coords0"),
            cmp_list([float(v) for v in r0], 1e-12), nontrivial=False)
        # --- signal factor through apply_response / a plain copy of the filter
        sd = rand_signal(run)
        for vt in VTS:
            for d_, p_ in ((direction, pol), (None, pol), (direction, None), (None, None)):
                if vt in ("undefined", "power") and not (d_ is direction and p_ is pol):
                    continue
                force_real = rng.random() < 0.5
                out = impl_respond(outer, sd, vt, d_, p_, force_real)
                if out == "err":
                    expf = "err"
                else:
                    base = mk_signal(sd, vt)
                    base.filter_frequencies(inner.frequency_response, force_real=force_real)
                    i = int(np.argmax(np.abs(base.values)))
                    expf = [float(out[i] / np.real(base.values[i]))]
                run.count("vt_" + vt)
                add(head(spec, inner, "factor", d_) + " | %s %s" % (vt, opt3(p_)),
                    (key, "factor", vt, d_ is None, p_ is None), cmp_list(expf, 1e-9),
                    nontrivial=(out != "err" and d_ is not None and p_ is not None))
                add(head(spec, inner, "respond", d_) + " | %s | 0 %s %s | %s"
                    % (filter_toks(spec, inner, sd, force_real), vt, opt3(p_), fw.fl(sd["vals"])),
                    (key, "respond", vt, d_ is None, p_ is None, force_real), cmp_list(out, 1e-9),
                    nontrivial=(out != "err" and d_ is not None and p_ is not None),
                    sample={"op": "respond", "spec": spec, "vt": vt, "direction": d_, "polarization": p_,
                            "impl": out if out == "err" else out[:4]})
        th, ph = (float(v) for v in inner._convert_to_antenna_coordinates(
            inner.position - np.array(direction) / np.linalg.norm(direction))[1:])

        def fna(reply, th=th, ph=ph):
            if reply in ("err", "bad-op"):
                return "model=%s" % reply
            g = fw.unfl(reply.split())
            return None if (len(g) == 2 and abs(g[0] - th) <= 1e-9 and angdiff(g[1], ph) <= 1e-9) else \
                "model=%s impl=%s" % (g, [th, ph])
        add(head(spec, inner, "angles", direction), (key, "angles"), fna)
        # --- receive
        ncomp = rng.choice([1, 2, 2, 3])
        n = len(sd["vals"])
        comps = []
        for k in range(ncomp):
            comps.append({"sd": dict(sd, vals=[rng.gauss(0, 1) for _ in range(n)]),
                          "vt": rng.choice(["field", "field", "voltage"]), "pol": gvec(rng), "grid": 0})
        mode = rng.choice(["list", "list", "list", "short", "none", "badtype", "badgrid"])
        if mode == "badtype":
            comps[-1]["vt"] = rng.choice(["undefined", "power"])
        if mode == "badgrid" and ncomp > 1:
            comps[-1]["sd"] = dict(comps[-1]["sd"], t0=sd["t0"] + 0.25 * sd["dt"])
            comps[-1]["grid"] = 1
        force_real = rng.random() < 0.5
        run.count("receive_" + mode)
        sigs = [mk_signal(c["sd"], c["vt"]) for c in comps]
        pols = [np.array(c["pol"]) for c in comps]
        if mode == "short":
            pols = pols[:-1]
        if mode == "none":
            pols = None
        before = len(inner.signals)
        try:
            outer.receive(sigs, direction=np.array(direction), polarization=pols, force_real=force_real)
            tot = inner.signals[-1]
            ok_len = len(inner.signals) == before + 1
            exp = [float(v) for v in np.real(tot.values)] if ok_len and tot.value_type == Signal.Type.voltage else "bad"
        except ValueError:
            exp = "err"
            if len(inner.signals) != before:
                exp = "bad"
        m = {"list": "list", "short": "short", "none": "none", "badtype": "list", "badgrid": "list"}[mode]
        req = head(spec, inner, "receive", direction) + " | %s | %s" % (filter_toks(spec, inner, sd, force_real), m)
        for c in comps:
            req += " | %d %s %s | %s" % (c["grid"], c["vt"], opt3(c["pol"]), fw.fl(c["sd"]["vals"]))

        def fnr(reply, exp=exp):
            if exp == "err":
                return None if reply == "err" else "model=%s impl=err" % reply[:60]
            if exp == "bad" or reply in ("err", "bad-op"):
                return "model=%s impl=%s" % (reply[:60], str(exp)[:80])
            toks = reply.split()
            return cmp_list(exp, 1e-9)(" ".join(toks[1:]))
        add(req, (key, "receive", mode, ncomp), fnr, nontrivial=(exp != "err"),
            sample={"op": "receive", "spec": spec, "mode": mode, "components": ncomp})
        # single (non-sequence) signal
        outer2, inner2 = build(spec)
        vt1 = rng.choice(["field", "voltage"])
        outer2.receive(mk_signal(sd, vt1), direction=np.array(direction), polarization=np.array(pol), force_real=force_real)
        exp1 = [float(v) for v in np.real(inner2.signals[-1].values)]
        add(head(spec, inner, "receive1", direction) + " | %s | 0 %s %s | %s"
            % (filter_toks(spec, inner, sd, force_real), vt1, opt3(pol), fw.fl(sd["vals"])),
            (key, "receive1", vt1), lambda reply, exp1=exp1: cmp_list(exp1, 1e-9)(" ".join(reply.split()[1:]))
            if reply not in ("err", "bad-op") else "model=%s" % reply)
    # --- constructor rejection of non-perpendicular axes
    from pyrex.antenna import Antenna
    for eps in (0.0, 5e-9, 2e-8, 1e-3):
        z = [0.0, 0.0, 1.0]
        x = [1.0, 0.0, eps]
        try:
            Antenna([0, 0, 0], z_axis=z, x_axis=x, noisy=False)
            exp = "ok"
        except ValueError:
            exp = "err"
        add("coords | A %s %s %s %s | unit | - | %s" % (fw.fl([0, 0, 0]), fw.fl(z), fw.fl(x), fw.fl([1, 1]), fw.fl([1, 2, 3])),
            ("perp", eps), lambda reply, exp=exp: None if (reply == "err") == (exp == "err") and reply != "bad-op"
            else "model=%s impl=%s" % (reply[:40], exp), nontrivial=False)

    replies = fw.run_driver("C08", reqs)
    ok = True
    for rq, (desc, fn, nontriv, sample), rp in zip(reqs, checks, replies):
        run.case(desc, nontrivial=nontriv, sample=sample)
        bad = fn(rp) if rp != "bad-op" else "model rejected the request (bad-op)"
        if bad is None:
            run.traces += 1
        else:
            ok = False
            run.note_broken("correspondence: %s request=%s… %s" % (desc, rq[:300], bad))
    return ok


# --------------------------------------------------------------------------------------------
# property-level oracles on the implementation alone
def oracle(kind, inp):
    """-> None when the property holds on this input, else (observed, expected, what)"""
    from pyrex.signals import Signal
    spec = inp["spec"]
    direction, pol, sd = np.array(inp["direction"]), np.array(inp["polarization"]), inp["signal"]
    vt = inp.get("vt", "field")
    fr = bool(inp.get("force_real", True))
    outer, inner = build(spec)

    def resp(o, s, vt_, d, p):
        return np.real(o.apply_response(mk_signal(s, vt_), direction=d, polarization=p, force_real=fr).values)
    r0 = resp(outer, sd, vt, direction, pol)
    sc = float(np.max(np.abs(r0))) + 1e-300
    if kind == "rotate":
        R = np.array(inp["rotation"])
        o1, _ = build(rotated(spec, R))
        r1 = resp(o1, sd, vt, R @ direction, R @ pol)
        base = mk_signal(sd, vt)
        base.filter_frequencies(inner.frequency_response, force_real=fr)
        ref = float(np.max(np.abs(base.values))) * max(1.0, abs(inner.efficiency / (inner.antenna_factor if vt == "field" else 1)))
        if not np.allclose(r0, r1, rtol=0, atol=1e-8 * max(sc, ref)):
            return r1[:4].tolist(), r0[:4].tolist(), "response changes when axes, direction and polarisation are rotated together"
    elif kind == "linear":
        sd2 = dict(sd, vals=inp["signal2"])
        a, b = inp["coeffs"]
        comb = dict(sd, vals=[a * u + b * v for u, v in zip(sd["vals"], sd2["vals"])])
        r2 = resp(outer, sd2, vt, direction, pol)
        rc = resp(outer, comb, vt, direction, pol)
        sc2 = abs(a) * sc + abs(b) * (float(np.max(np.abs(r2))) + 1e-300)
        if not np.allclose(rc, a * r0 + b * r2, rtol=0, atol=1e-8 * sc2):
            return rc[:4].tolist(), (a * r0 + b * r2)[:4].tolist(), "response is not linear in the signal"
    elif kind == "factor":
        # filtered signal x gains x efficiency (/ antenna factor for fields), gains recomputed independently
        base = mk_signal(sd, vt)
        base.filter_frequencies(inner.frequency_response, force_real=fr)
        zh = np.array(spec["z"]) / np.linalg.norm(spec["z"])
        dh = direction / np.linalg.norm(direction)
        ph_ = pol / np.linalg.norm(pol)
        if spec["kind"] in ("dip", "sysdip"):
            dg = math.sqrt(max(0.0, 1 - float(np.dot(dh, zh)) ** 2))
            pg = float(np.dot(zh, ph_))
            af, eff = inner.antenna_factor, 1.0
            h = spec.get("eh") or 299792458.0 / spec["cf"] / 2
            if not fw.close(af, 1 / h, 1e-12):
                return af, 1 / h, "dipole antenna factor is not 1/effective height"
        else:
            xh = np.array(spec["x"]) / np.linalg.norm(spec["x"])
            yh = np.cross(zh, xh)
            rel = -dh
            cx, cy, cz = float(np.dot(xh, rel)), float(np.dot(yh, rel)), float(np.dot(zh, rel))
            th, phi = math.acos(max(-1, min(1, cz))), math.atan2(cy, cx)
            c = spec.get("gains")
            if c is None:
                dg, pg = 1.0, 1.0
            else:
                dg = math.sin(th) * (c[0] + c[1] * math.cos(phi) + c[6] * math.sin(phi)) + c[2] * th
                pg = c[3] * float(np.dot(xh, ph_)) + c[4] * float(np.dot(zh, ph_)) + c[5] * float(np.dot(yh, ph_))
            af, eff = spec["af"], spec["eff"]
        expect = np.real(base.values) * dg * pg * eff / (af if vt == "field" else 1.0)
        ref = float(np.max(np.abs(base.values))) * abs(eff / (af if vt == "field" else 1.0)) + 1e-300
        if not np.allclose(r0, expect, rtol=0, atol=1e-8 * ref):
            return r0[:4].tolist(), expect[:4].tolist(), \
                "response is not filter(signal) x directional gain x polarisation gain x efficiency (/ antenna factor for fields)"
        other = "voltage" if vt == "field" else "field"
        ro = resp(outer, sd, other, direction, pol)
        want = r0 * af if vt == "field" else r0 / af
        if not np.allclose(ro, want, rtol=0, atol=1e-8 * ref * max(af, 1)):
            return ro[:4].tolist(), want[:4].tolist(), "field and voltage responses do not differ by exactly the antenna factor"
    elif kind == "rejects":
        for bad in ("undefined", "power"):
            try:
                outer.apply_response(mk_signal(sd, bad), direction=direction, polarization=pol)
                return "accepted", "ValueError", "value type %s is not rejected" % bad
            except ValueError:
                pass
    elif kind == "receive":
        comps = inp["components"]
        parts = [resp(inner, dict(sd, vals=c["vals"]), c["vt"], direction, np.array(c["pol"])) for c in comps]
        o2, i2 = build(spec)
        o2.receive([mk_signal(dict(sd, vals=c["vals"]), c["vt"]) for c in comps], direction=direction,
                   polarization=[np.array(c["pol"]) for c in comps], force_real=fr)
        got = np.real(i2.signals[-1].values)
        want = sum(parts)
        scr = sum(float(np.max(np.abs(p))) for p in parts) + 1e-300
        if len(i2.signals) != 1 or not np.allclose(got, want, rtol=0, atol=1e-9 * scr):
            return got[:4].tolist(), want[:4].tolist(), "received signal is not the sum of the polarised components' responses"
        if outer is not inner:   # delegation: the system and its antenna answer alike
            ra = resp(inner, sd, vt, direction, pol)
            if not np.array_equal(ra, r0):
                return r0[:4].tolist(), ra[:4].tolist(), "AntennaSystem.apply_response differs from its antenna's"
    elif kind == "frame":
        # (r, theta, phi) must reconstruct the relative point in the right-handed frame (x, z cross x, z)
        pt = np.array(inp["point"])
        r, th, phi = inner._convert_to_antenna_coordinates(pt)
        zh, xh = inner.z_axis, inner.x_axis
        yh = np.cross(zh, xh)
        back = r * (math.sin(th) * math.cos(phi) * xh + math.sin(th) * math.sin(phi) * yh + math.cos(th) * zh)
        rel = pt - np.array(spec["pos"])
        if not np.allclose(back, rel, rtol=0, atol=1e-8 * (np.linalg.norm(rel) + 1e-300)) or not (0 <= phi <= 2 * math.pi):
            return back.tolist(), rel.tolist(), "(r,theta,phi) is not the spherical representation in the frame (x, z cross x, z)"
    return None


def gen_input(run, kind):
    rng = run.rng
    spec = rand_spec(run, rng.choice(["unit", "custom", "custom", "dip", "sysdip", "syscustom"]))
    sd = rand_signal(run)
    n = len(sd["vals"])
    inp = {"spec": spec, "direction": gvec(rng, rng.choice([1.0, 20.0])), "polarization": gvec(rng),
           "signal": sd, "vt": rng.choice(["field", "voltage"]), "force_real": rng.random() < 0.7}
    if kind == "rotate":
        inp["rotation"] = rand_rotation(rng).tolist()
    elif kind == "linear":
        inp["signal2"] = [rng.gauss(0, 1) for _ in range(n)]
        inp["coeffs"] = [rng.uniform(-3, 3), rng.uniform(-3, 3)]
    elif kind == "receive":
        inp["components"] = [{"vals": [rng.gauss(0, 1) for _ in range(n)], "vt": rng.choice(["field", "voltage"]),
                              "pol": gvec(rng)} for _ in range(rng.choice([1, 2, 3]))]
    elif kind == "frame":
        inp["point"] = [p + c for p, c in zip(spec["pos"], gvec(rng, rng.choice([1.0, 40.0])))]
    return inp


ORACLES = ["rotate", "linear", "factor", "rejects", "receive", "frame"]


def search(run, deep):
    import pyrex  # noqa: F401
    n = 400 if deep else run.scale(60, 400)
    for i in range(n):
        for kind in ORACLES:
            inp = gen_input(run, kind)
            run.case(("oracle", kind, i, inp["spec"]["kind"]))
            run.count("oracle_" + kind)
            res = oracle(kind, inp)
            if res is not None:
                run.fail_input(kind, inp, observed=res[0], expected=res[1], what=res[2])
                if len(run.violations) >= 5:
                    return


def replay(run, data):
    import pyrex  # noqa: F401
    res = oracle(data["kind"], data["input"])
    if res is not None:
        run.fail_input(data["kind"], data["input"], observed=res[0], expected=res[1], what=res[2])
