"""C08 - antenna response is linear, rotation-covariant, scales fields by the antenna factor.

Float twin of lean/twin/Antenna.body against pyrex.antenna.Antenna / DipoleAntenna and
pyrex.detector.AntennaSystem."""
import contextlib
import logging
import math

import numpy as np

import framework as fw

LEVEL = "proof"
USE_TWINS = True
TECHNIQUE = "Lean 4 theorems over the real-number reading of a twin model + Float-twin differential run"
RULE = ("random raw (non-unit) perpendicular antenna axes, positions, arrival directions, polarisations, "
        "rotations, antenna factor/efficiency, short random signals (N in 6..24, two sampling steps) of every "
        "value type x Antenna (unit gains; custom gains with a sin(phi)/cos(phi)-dependent directional gain and a "
        "polarisation gain reading all three antenna-frame components; optional complex frequency response), "
        "DipoleAntenna (tape-fed tmp vector, Butterworth band-pass), AntennaSystem around either; ops coords / "
        "angles / factor / respond / receive1 / receive (1-3 polarised components, error modes) / dipole "
        "construction / frequency response; short HISTORIES on one Antenna / DipoleAntenna / AntennaSystem object "
        "(apply_response / receive of one or several mixed-type components interleaved with set_orientation incl. a "
        "raising one, assignments of position / antenna_factor / efficiency / z_axis / x_axis, clear; grid, direction "
        "and polarisation recurring between steps) compared after every step with the model and with a never-used "
        "antenna brought to the current parameters; a case is non-trivial when direction and polarisation are given and "
        "the value type is accepted; distinct = distinct (antenna, op, arguments)")
LEVEL_TEXT = ("theorems (linearity given a linear filter, factor decomposition with the field/voltage/other decision, "
              "SO(3) covariance of (r,theta,phi) and of both gains via R(a x b) = Ra x Rb, dipole gains, receive = sum "
              "of components, AntennaSystem delegation, re-orientation = fresh construction) proved over R for every antenna, signal and rotation; the same "
              "model text run on Float agrees with pyrex on every sampled input")
LEVEL_NOTE = ("the frequency filter is an abstract linear operator in the theorems (linearity of "
              "Signal.filter_frequencies is property C05; the zero-padded DFT filter the driver runs is proved linear, "
              "C08_dft_filter_linear); gains are real-valued in the response theorems and in the correspondence run; complex "
              "gains are a supported input of the code: the search generates them (plain Signal inputs must give the "
              "complex product), function-backed inputs then keep only the real part = known finding K21, negation proved "
              "as C08_complex_gain_function_backed_drops_imaginary; hypothesis audit: a zero direction is covered by "
              "C08_zero_direction; non-orthonormal stored axes (constructor tolerance 1e-8, plain attribute assignment) are "
              "covered by the model and the correspondence run, the dipole theorems assume the exact frame that "
              "C08_dipole_frame_orthonormal proves for every DipoleAntenna; outside the claim and not generated: an empty "
              "component sequence (receive([]) stores the integer 0), zero axis / orientation vectors (Antenna accepts them "
              "silently, DipoleAntenna never returns), float32 vectors (pyrex normalises in float32), vectors whose squared "
              "length leaves the double range (|v| < 1e-154 or > 1e154: np.linalg.norm under/overflows, floating-point range); floating-point "
              "rounding is not "
              "modelled (tolerance run: 1e-9 relative, FFT-based values 1e-9 of the peak); scipy.signal.butter / freqs "
              "are modelled by the rational function they define; constants (speed of light, isclose tolerance 1e-8) "
              "are hard-coded in Antenna.body and a changed constant is noticed by the correspondence run")
ASSUMPTIONS = ["Signal.filter_frequencies is a linear operator on the values (C05)",
               "numpy cross/dot/arccos/arctan2/linalg.norm and scipy.signal.butter/freqs follow their specification"]

CHECKER_MODULES = ["PyrexVerif.Proofs.Antenna"]

logging.getLogger("pyrex").setLevel(logging.CRITICAL)

VTS = ["undefined", "voltage", "field", "power"]


# --------------------------------------------------------------------------------------------
# building implementation objects from a plain (JSON-able) spec
@contextlib.contextmanager
def rand_tape(values):
    """np.random.rand(3) draws come from `values` (consumed three at a time)"""
    orig = np.random.rand
    it = iter(values)

    def rand(*shape):
        n = int(np.prod(shape)) if shape else 1
        out = np.array([next(it) for _ in range(n)], dtype=float)
        return out.reshape(shape) if shape else float(out[0])
    np.random.rand = rand
    try:
        yield
    finally:
        np.random.rand = orig


def vtype(name):
    from pyrex.signals import Signal
    return getattr(Signal.Type, name)


def lowpass(f0):
    """`f0` a number: Hermitian low-pass; `["nh", f0, phase]`: a response that is NOT Hermitian (constant phase,
    magnitude in |f|), for which force_real=True and False give different signals"""
    if isinstance(f0, (list, tuple)):
        _, fc, ph = f0

        def resp_nh(f):
            return np.exp(1j * ph) / (1 + 1j * np.abs(np.asarray(f, dtype=float)) / fc)
        return resp_nh

    def resp(f):
        return 1 / (1 + 1j * np.asarray(f) / f0)
    return resp


def indep_filter(vals, dt, fn, force_real, keep_complex=False):
    """Signal.filter_frequencies recomputed with numpy alone: zero-pad to 2N, multiply the spectrum by the response
    (force_real: response at |f|, complex-conjugated at negative frequencies), inverse transform, real part, N samples"""
    n = len(vals)
    freqs = np.fft.fftfreq(2 * n, dt)
    if force_real:
        h = np.array(fn(np.abs(freqs)), dtype=complex)
        h[freqs < 0] = np.conj(h[freqs < 0])
    else:
        h = np.array(fn(freqs), dtype=complex)
    spec_ = np.fft.fft(np.concatenate((np.array(vals, dtype=float), np.zeros(n))))
    out = np.fft.ifft(h * spec_)[:n]
    return out if keep_complex else np.real(out)


def independent_response(spec):
    """the antenna's frequency response recomputed from its parameters, sharing nothing with any antenna object
    (dipole: first-order Butterworth band-pass bw*s / (s^2 + bw*s + w_low*w_high), s = 2 pi i f)"""
    if spec["kind"] in ("dip", "sysdip"):
        w1 = 2 * np.pi * (spec["cf"] - spec["bw"] / 2)
        w2 = 2 * np.pi * (spec["cf"] + spec["bw"] / 2)

        def resp(f):
            s_ = 2j * np.pi * np.asarray(f, dtype=float)
            return (w2 - w1) * s_ / (s_ * s_ + (w2 - w1) * s_ + w1 * w2)
        return resp
    if spec.get("fresp") is not None:
        return lowpass(spec["fresp"])
    return lambda f: np.ones(len(f))


def as_form(v, form):
    """the same vector in another container / dtype form"""
    if v is None:
        return None
    if form == "list":
        return [float(c) for c in v]
    if form == "tuple":
        return tuple(float(c) for c in v)
    if form == "pyint":          # only used with integer-valued vectors
        return [int(c) for c in v]
    if form == "intarray":
        return np.array([int(c) for c in v])
    if form == "f32":            # only used with float32-representable values
        return np.array(v, dtype=np.float32)
    return np.array(v, dtype=float)


FORMS = ["array", "array", "list", "tuple"]


def _scribble(*arrs):
    """the caller reuses its own arrays after handing them over: an antenna must not have kept a reference"""
    for a in arrs:
        if isinstance(a, np.ndarray):
            a[...] = 7


def build(spec):
    """-> (object the calls go to, the underlying Antenna)"""
    from pyrex.antenna import Antenna, DipoleAntenna
    from pyrex.detector import AntennaSystem
    form = spec.get("form", "array")
    if spec["kind"] in ("dip", "sysdip"):
        z_arg = as_form(spec["z"], form)
        with rand_tape(spec["tape"]):
            inner = DipoleAntenna("d", as_form(spec["pos"], form), spec["cf"], spec["bw"], 300, 50,
                                  orientation=z_arg, effective_height=spec.get("eh"), noisy=False)
        _scribble(z_arg)
    else:
        z_arg, x_arg = as_form(spec["z"], form), as_form(spec["x"], form)
        inner = Antenna(as_form(spec["pos"], form), z_axis=z_arg, x_axis=x_arg,
                        antenna_factor=spec["af"], efficiency=spec["eff"], noisy=False)
        _scribble(z_arg, x_arg)
        c = spec.get("gains")
        if c is not None:
            inner.directional_gain = lambda theta, phi: np.sin(theta) * (c[0] + c[1] * np.cos(phi) + c[6] * np.sin(phi)) + c[2] * theta
            inner.polarization_gain = lambda p: (c[3] * np.vdot(inner.x_axis, p) + c[4] * np.vdot(inner.z_axis, p)
                                                 + c[5] * np.vdot(np.cross(inner.z_axis, inner.x_axis), p))
        if spec.get("fresp") is not None:
            inner.frequency_response = lowpass(spec["fresp"])
        if spec.get("cphase") is not None:      # complex-valued gains: the real gains times a constant phase factor
            ad, ap = spec["cphase"]
            dg0, pg0 = inner.directional_gain, inner.polarization_gain
            inner.directional_gain = lambda theta, phi: dg0(theta=theta, phi=phi) * np.exp(1j * ad)
            inner.polarization_gain = lambda p: pg0(p) * np.exp(1j * ap)
    outer = AntennaSystem(inner) if spec["kind"].startswith("sys") else inner
    for rec in spec.get("hist", []):     # a never-used object brought to the current parameters
        apply_record(outer, inner, rec)
    return outer, inner


def apply_record(outer, inner, rec):
    """one step of an object's history (no signal involved); -> False when set_orientation raised"""
    k = rec[0]
    if k == "so":        # through the object the calls go to (Antenna or AntennaSystem delegation)
        z_arg, x_arg = np.array(rec[1], dtype=float), np.array(rec[2], dtype=float)
        try:
            outer.set_orientation(z_axis=z_arg, x_axis=x_arg)
        except ValueError:
            return False
        finally:
            _scribble(z_arg, x_arg)
    elif k == "pos":
        inner.position = np.array(rec[1])
    elif k == "af":
        inner.antenna_factor = rec[1]
    elif k == "eff":
        inner.efficiency = rec[1]
    elif k == "zax":
        inner.z_axis = np.array(rec[1])
    elif k == "xax":
        inner.x_axis = np.array(rec[1])
    elif k == "clear":
        outer.clear(reset_noise=bool(rec[1]))
    return True


def _unit(v):
    v = np.array(v, dtype=float)
    m = np.linalg.norm(v)
    return v if m == 0 else v / m


def current_state(spec):
    """stored attributes (position, z_axis, x_axis, antenna_factor, efficiency) after the history, computed
    independently of pyrex"""
    st = {"pos": np.array(spec["pos"], dtype=float), "z": _unit(spec["z"])}
    if spec["kind"] in ("dip", "sysdip"):
        st["x"] = _unit(np.cross(np.array(spec["z"], dtype=float), np.array(spec["tape"][:3])))
        st["af"] = 1.0 / (spec.get("eh") or 299792458.0 / spec["cf"] / 2)
        st["eff"] = 1.0
    else:
        st["x"] = _unit(spec["x"])
        st["af"], st["eff"] = spec["af"], spec["eff"]
    for rec in spec.get("hist", []):
        k = rec[0]
        if k == "so":
            st["z"], st["x"] = _unit(rec[1]), _unit(rec[2])
        elif k in ("pos",):
            st["pos"] = np.array(rec[1], dtype=float)
        elif k == "zax":
            st["z"] = np.array(rec[1], dtype=float)
        elif k == "xax":
            st["x"] = np.array(rec[1], dtype=float)
        elif k in ("af", "eff"):
            st[k] = rec[1]
    return st


def expected_gain_factor(spec, st, direction, pol, vt):
    """d_gain * p_gain * eff (/ af for fields) from the definitions, for the stored state `st`"""
    zs, xs = st["z"], st["x"]
    ys = np.cross(zs, xs)
    dg = pg = 1.0
    if direction is not None:
        rel = -_unit(direction)
        cx, cy, cz = float(np.dot(xs, rel)), float(np.dot(ys, rel)), float(np.dot(zs, rel))
        r = math.sqrt(cx * cx + cy * cy + cz * cz)
        th, phi = (math.acos(max(-1.0, min(1.0, cz / r))), math.atan2(cy, cx)) if r > 0 else (0.0, 0.0)
        if spec["kind"] in ("dip", "sysdip"):
            dg = math.sin(th)
        elif spec.get("gains") is not None:
            c = spec["gains"]
            dg = math.sin(th) * (c[0] + c[1] * math.cos(phi) + c[6] * math.sin(phi)) + c[2] * th
    if pol is not None:
        ph_ = _unit(pol)
        if spec["kind"] in ("dip", "sysdip"):
            pg = float(np.dot(zs, ph_))
        elif spec.get("gains") is not None:
            c = spec["gains"]
            pg = c[3] * float(np.dot(xs, ph_)) + c[4] * float(np.dot(zs, ph_)) + c[5] * float(np.dot(ys, ph_))
    return dg * pg * st["eff"] / (st["af"] if vt == "field" else 1.0)


def rotated(spec, R):
    s = dict(spec)
    s["z"] = list(map(float, R @ np.array(spec["z"])))
    if "x" in spec:
        s["x"] = list(map(float, R @ np.array(spec["x"])))
    if "tape" in spec:   # dipole gains do not depend on the x axis; keep the tape
        s["tape"] = list(spec["tape"])
    return s


def rand_rotation(rng):
    q = np.array([rng.gauss(0, 1) for _ in range(4)])
    q /= np.linalg.norm(q)
    w, x, y, z = q
    return np.array([[1 - 2 * (y * y + z * z), 2 * (x * y - z * w), 2 * (x * z + y * w)],
                     [2 * (x * y + z * w), 1 - 2 * (x * x + z * z), 2 * (y * z - x * w)],
                     [2 * (x * z - y * w), 2 * (y * z + x * w), 1 - 2 * (x * x + y * y)]])


def gvec(rng, scale=1.0):
    while True:
        v = np.array([rng.gauss(0, 1) for _ in range(3)])
        if np.linalg.norm(v) > 0.2:
            return [float(c * scale) for c in v]


def len_scale(rng):
    """length of a vector of which only the direction may matter (antenna axes, arrival direction, polarisation - e.g.
    a field amplitude of a few nV/m handed over as the polarisation): mostly O(1), sometimes tiny or huge.  Kept within
    1e-140 … 1e140: beyond about 1e+-154 the squares inside numpy's norm leave the double range (outside the claim)."""
    return rng.choice([1.0] * 7 + [1e-8, 1e-9, 1e-12, 1e-100, 1e-140, 1e8, 1e100, 1e140])


def rand_spec(run, kind):
    rng = run.rng
    z = np.array(gvec(rng, rng.choice([1.0, 0.3, 7.0]) * len_scale(rng)))
    while True:
        x = np.cross(z, np.array(gvec(rng)))
        if np.linalg.norm(x) > 0.2 * np.linalg.norm(z):
            break
    x = x / np.linalg.norm(x) * rng.choice([1.0, 2.5, 0.4]) * len_scale(rng)
    spec = {"kind": kind, "pos": [rng.uniform(-100, 100), rng.uniform(-100, 100), rng.uniform(-300, -10)],
            "z": [float(c) for c in z], "form": rng.choice(FORMS)}
    if kind in ("dip", "sysdip"):
        cf = rng.uniform(150e6, 600e6)
        spec.update(cf=cf, bw=rng.uniform(0.1, 0.9) * cf, eh=rng.choice([None, None, rng.uniform(0.2, 2.0)]),
                    tape=[rng.random() for _ in range(3)])
    else:
        spec.update(x=[float(c) for c in x], af=rng.choice([1.0, rng.uniform(0.2, 8.0)]),
                    eff=rng.choice([1.0, rng.uniform(0.1, 1.0)]))
        if kind in ("custom", "syscustom"):
            spec["gains"] = [rng.uniform(1, 3), rng.uniform(-1, 1), rng.uniform(-0.3, 0.3),
                             rng.uniform(-1, 1), rng.uniform(-1, 1), rng.uniform(-1, 1), rng.uniform(-1, 1)]
            spec["fresp"] = rng.choice([None, rng.uniform(1e8, 8e8), ["nh", rng.uniform(1e8, 8e8), rng.uniform(0.3, 1.2)]])
    return spec


def rand_signal(run, n=None, dt=None):
    rng = run.rng
    n = n or rng.choice([6, 8, 11, 12, 16, 17, 24])
    dt = dt or rng.choice([1e-9, 0.5e-9, 0.2e-9])
    t0 = rng.choice([0.0, rng.uniform(-50, 50) * 1e-9])
    return {"t0": t0, "dt": dt, "vals": [rng.gauss(0, 1) * rng.choice([1, 1, 1e-3]) for _ in range(n)]}


def rand_input_desc(run, buffers_ok=True):
    """a FunctionSignal-type input: analytic pulse, sum of two, shifted, Askaryan pulses; JSON-able"""
    rng = run.rng
    kind = rng.choice(["fn", "fn", "fnsum", "fnshift", "zhs", "avz", "arz"] + (["fnwindow"] if buffers_ok else []))
    d = {"kind": kind, "n": rng.choice([16, 24, 33, 40]), "dt": rng.choice([0.5e-9, 1e-9]), "t0": rng.choice([0.0, -5e-9, 3e-8]),
         "vt": rng.choice(["field", "voltage"])}
    d["pulses"] = [{"amp": rng.uniform(0.5, 2), "tc": rng.uniform(0.2, 0.6), "w": rng.uniform(0.04, 0.15),
                    "f": rng.uniform(1.5e8, 4.5e8), "ph": rng.uniform(0, 6.28)} for _ in range(2)]
    if kind in ("zhs", "avz", "arz"):
        d.update(seed=rng.randrange(2 ** 31), energy=10 ** rng.uniform(6, 9), angle=math.radians(rng.uniform(40, 70)),
                 dist=rng.uniform(50, 500), vt="field", dt=rng.choice([0.5e-9, 0.25e-9]), t0=-5e-9, n=rng.choice([40, 61]))
    if kind == "fnshift":
        d["shift"] = rng.uniform(-3, 3) * d["dt"]
    return d


def make_input(d):
    """a NEW input object for the description (a FunctionSignal or subclass)"""
    from pyrex.signals import FunctionSignal
    times = d["t0"] + np.arange(d["n"]) * d["dt"]
    T = d["n"] * d["dt"]

    def pulse(p):
        return lambda t: p["amp"] * np.exp(-((t - d["t0"] - p["tc"] * T) / (p["w"] * T)) ** 2) * np.cos(2 * np.pi * p["f"] * t + p["ph"])
    k = d["kind"]
    if k in ("zhs", "avz", "arz"):
        from pyrex.particle import Particle
        from pyrex.askaryan import ZHSAskaryanSignal, AVZAskaryanSignal, ARZAskaryanSignal
        np.random.seed(d["seed"])
        part = Particle(particle_id="nu_e", vertex=[0, 0, -1000], direction=[0, 0, 1], energy=d["energy"],
                        interaction_type="cc")
        cls = {"zhs": ZHSAskaryanSignal, "avz": AVZAskaryanSignal, "arz": ARZAskaryanSignal}[k]
        return cls(times, part, d["angle"], d["dist"])
    f1 = FunctionSignal(times, pulse(d["pulses"][0]), vtype(d["vt"]))
    if k == "fnsum":
        return f1 + FunctionSignal(times, pulse(d["pulses"][1]), vtype(d["vt"]))
    if k == "fnshift":
        f1.shift(d["shift"])
        return f1
    if k == "fnwindow":      # re-gridded onto a contained window: carries buffers
        return f1.with_times(times[3:-2])
    return f1


def input_structure(sig):
    """the internal component lists of a FunctionSignal (what apply_response must leave alone)"""
    return {"functions": len(sig._functions), "t0s": [float(x) for x in sig._t0s],
            "buffers": [[float(x) for x in b] for b in sig._buffers], "factors": [float(x) for x in sig._factors],
            "filters": [len(g) for g in sig._filters], "value_type": str(sig.value_type),
            "times": [float(x) for x in sig.times]}


def perp_pair(rng):
    z = np.array(gvec(rng, rng.choice([1.0, 0.3, 7.0]) * len_scale(rng)))
    while True:
        x = np.cross(z, np.array(gvec(rng)))
        if np.linalg.norm(x) > 0.2 * np.linalg.norm(z):
            break
    x = x / np.linalg.norm(x) * rng.choice([1.0, 2.5, 0.4]) * len_scale(rng)
    return [float(c) for c in z], [float(c) for c in x]


def rand_record(run, spec):
    """a state-changing step of an antenna history"""
    rng = run.rng
    k = rng.choice(["so-rot", "so-rot", "so-new", "so-new", "so-bad", "pos", "af", "eff", "axes", "clear"])
    if k == "so-rot":
        st = current_state(spec)
        R = rand_rotation(rng)
        a, b = rng.choice([1.0, 3.0]), rng.choice([1.0, 0.5])
        return ["so", [float(c) for c in a * (R @ st["z"])], [float(c) for c in b * (R @ st["x"])]]
    if k == "so-new":
        z, x = perp_pair(rng)
        if rng.random() < 0.4:      # exactly unit vectors (nothing to normalise)
            z, x = rng.choice([([0.0, 0.0, 1.0], [1.0, 0.0, 0.0]), ([0.6, 0.8, 0.0], [0.0, 0.0, -1.0]),
                               ([0.0, -1.0, 0.0], [0.8, 0.0, 0.6])])
        return ["so", z, x]
    if k == "so-bad":       # raises ValueError, but the axes have been replaced already
        z, x = perp_pair(rng)
        x = [x[i] + 0.3 * z[i] for i in range(3)]
        return ["so", z, x]
    if k == "pos":
        return ["pos", [rng.uniform(-100, 100), rng.uniform(-100, 100), rng.uniform(-300, -10)]]
    if k == "af":
        return ["af", rng.uniform(0.2, 8.0)]
    if k == "eff":
        return ["eff", rng.uniform(0.1, 1.0)]
    if k == "axes":         # plain attribute assignment of one stored axis (no normalisation, no check)
        z, x = perp_pair(rng)
        return rng.choice([["zax", [float(c) for c in _unit(z)]], ["xax", [float(c) for c in _unit(x)]]])
    return ["clear", rng.random() < 0.5]


def rand_use(run, n=None, dt=None, keep=None):
    """one signal handed to the antenna: apply_response, receive of one signal or of polarised components;
    `keep` (a dict living as long as the history) makes direction and polarisation recur between steps"""
    use = _rand_use(run, n, dt)
    if keep is not None and use["form"] in ("array", "list", "tuple"):
        if "direction" in keep and use["direction"] is not None and run.rng.random() < 0.6:
            use["direction"] = keep["direction"]
            if "polarization" in use and use["polarization"] is not None:
                use["polarization"] = keep["polarization"]
            for c, pk in zip(use.get("components", []), keep["pols"]):
                c["pol"] = pk
        elif use["direction"] is not None and "direction" not in keep:
            keep["direction"] = use["direction"]
            keep["polarization"] = use.get("polarization") or gvec(run.rng)
            keep["pols"] = [gvec(run.rng) for _ in range(3)]
    return use


def _rand_use(run, n=None, dt=None):
    rng = run.rng
    sd = rand_signal(run, n, dt)
    nn = len(sd["vals"])
    op = rng.choice(["respond", "respond", "receive1", "receive"])
    use = {"op": op, "signal": sd, "direction": None if rng.random() < 0.1 else gvec(rng, rng.choice([1.0, 20.0]) * len_scale(rng)),
           "force_real": rng.random() < 0.6, "form": rng.choice(FORMS), "seqform": rng.choice(["list", "tuple"])}
    special = rng.choice(["pyint", "intarray"]) if rng.random() < 0.15 else None
    if op == "receive":
        use["components"] = [{"vals": [rng.gauss(0, 1) for _ in range(nn)],
                              "vt": rng.choice(["field", "voltage", "field", "voltage", "undefined", "power"]) if rng.random() < 0.25
                              else rng.choice(["field", "voltage"]), "pol": gvec(rng, len_scale(rng))}
                             for _ in range(rng.choice([2, 2, 3]))]
    else:
        use["vt"] = rng.choice(["field", "field", "voltage", "voltage", "voltage", "undefined"])
        use["polarization"] = None if rng.random() < 0.1 else gvec(rng, len_scale(rng))
    if special:                  # integer-valued / single-precision vectors in the matching container forms
        use["form"] = special

        def conv(v):
            if v is None:
                return None
            if special == "f32":
                return [float(np.float32(c)) for c in v]
            return [float(c) for c in rng.sample([-3, -2, -1, 1, 2, 3, 5], 3)]
        use["direction"] = conv(use["direction"])
        if "polarization" in use:
            use["polarization"] = conv(use["polarization"])
        for c in use.get("components", []):
            c["pol"] = conv(c["pol"])
    return use


def run_use(outer, inner, use):
    """-> values of the response / of the newly stored signal, or "err" (ValueError, nothing stored)"""
    from pyrex.signals import Signal
    sd, fr = use["signal"], use["force_real"]
    form = use.get("form", "array")
    d = as_form(use["direction"], form)
    before = len(inner.signals)
    handed = []      # caller-owned objects handed over, with a private copy each

    def own(x):
        if x is not None:
            handed.append((x, np.array(x, dtype=float).copy()))
        return x
    own(d)
    try:
        if use["op"] == "respond":
            sig_in = mk_signal(sd, use["vt"])
            out = outer.apply_response(sig_in, direction=d, force_real=fr, polarization=own(as_form(use["polarization"], form)))
            if len(inner.signals) != before:
                return "stored-by-apply_response"
            sigs_in = [(sig_in, sd["vals"], use["vt"])]
        else:
            if use["op"] == "receive1":
                sig_in = mk_signal(sd, use["vt"])
                outer.receive(sig_in, direction=d, force_real=fr, polarization=own(as_form(use["polarization"], form)))
                sigs_in = [(sig_in, sd["vals"], use["vt"])]
            else:
                sl = [mk_signal(dict(sd, vals=c["vals"]), c["vt"]) for c in use["components"]]
                pl = [own(as_form(c["pol"], form)) for c in use["components"]]
                if use.get("seqform") == "tuple":
                    sl, pl = tuple(sl), tuple(pl)
                outer.receive(sl, direction=d, polarization=pl, force_real=fr)
                sigs_in = [(s_, c["vals"], c["vt"]) for s_, c in zip(sl, use["components"])]
            if len(inner.signals) != before + 1:
                return "stored-%d" % (len(inner.signals) - before)
            out = inner.signals[-1]
    except ValueError:
        return "err" if len(inner.signals) == before else "stored-despite-error"
    if not isinstance(out, Signal):
        return "stored-a-%s" % type(out).__name__
    for x, keep_ in handed:
        if not np.array_equal(np.array(x, dtype=float), keep_):
            return "modified-argument"
    for s_, v_, t_ in sigs_in:     # the incoming (plain) signals are the caller's too
        if not np.array_equal(np.asarray(s_.values), np.array(v_, dtype=float)) or s_.value_type != vtype(t_):
            return "modified-input-signal"
    if out.value_type != Signal.Type.voltage:
        return "not-voltage"
    n_ = len(sd["vals"])
    if len(out.times) != n_ or not np.array_equal(np.asarray(out.times), sd["t0"] + np.arange(n_) * sd["dt"]):
        return "wrong-grid"
    return [float(v) for v in np.real(out.values)]


def zero_gain_case(run):
    """(spec, use, tag): gain factors that vanish EXACTLY - efficiency 0, antenna factor inf, arrival exactly along the
    antenna axis, polarisation exactly perpendicular to it - built in an axis-aligned frame at a dyadic position so
    that no rounding enters; crossed with all four value types and the three ways of handing a signal over"""
    rng = run.rng
    axes = [[1.0, 0, 0], [0, 1.0, 0], [0, 0, 1.0]]
    i, j = rng.sample(range(3), 2)
    form = rng.choice(["array", "list", "tuple", "pyint", "intarray"])
    sz, sx = rng.choice([1.0, -1.0, 2.0, -0.5] if form not in ("pyint", "intarray") else [1.0, -1.0, 2.0]), rng.choice([1.0, -1.0, 4.0])
    z = [sz * c for c in axes[i]]
    x = [sx * c for c in axes[j]]
    zhat = [math.copysign(1.0, sz) * c for c in axes[i]]
    kind = rng.choice(["dip", "sysdip", "custom", "syscustom", "unit", "dip"])
    pos = [rng.choice([0.0, 8.0, -16.0]), rng.choice([0.0, 4.0]), rng.choice([-128.0, -32.0])]
    spec = {"kind": kind, "pos": pos, "z": z, "hist": [], "form": form}
    if kind in ("dip", "sysdip"):
        cf = rng.uniform(150e6, 600e6)
        spec.update(cf=cf, bw=rng.uniform(0.1, 0.9) * cf, eh=rng.choice([None, 0.5]), tape=[rng.random() for _ in range(3)])
    else:
        spec.update(x=x, af=rng.choice([1.0, 2.0, rng.uniform(0.2, 8.0)]), eff=rng.choice([1.0, 0.5]))
        if kind in ("custom", "syscustom"):
            spec["gains"] = [rng.uniform(1, 3), rng.uniform(-1, 1), rng.uniform(-0.3, 0.3), 0.0, rng.uniform(0.5, 1), 0.0,
                             rng.uniform(-1, 1)]
            spec["fresp"] = rng.choice([None, rng.uniform(1e8, 8e8), ["nh", rng.uniform(1e8, 8e8), rng.uniform(0.3, 1.2)]])
    ways = ["eff0", "af-inf"] if kind == "unit" else ["eff0", "af-inf", "along-axis", "perp-pol", "perp-pol", "along-axis",
                                                       "zero-direction", "zero-pol"]
    way = rng.choice(ways)
    direction, pol = gvec(rng), gvec(rng)
    if way == "eff0":
        if kind in ("dip", "sysdip"):
            spec["hist"] = [["eff", 0.0]]
        else:
            spec["eff"] = rng.choice([0.0, -0.0])
    elif way == "af-inf":
        if kind in ("dip", "sysdip"):
            spec["hist"] = [["af", float("inf")]]
        else:
            spec["af"] = float("inf")
    elif way == "zero-direction":  # normalize leaves the zero vector alone: the arrival point is the antenna position
        direction = [0.0, 0.0, 0.0]   # -> (r, theta, phi) = (0, 0, 0), sin(theta) = 0
    elif way == "zero-pol":
        pol = [0.0, 0.0, 0.0]
    elif way == "along-axis":     # the signal travels along -z_axis: it arrives from the axis direction, theta = 0
        a = rng.choice([1.0, 2.0, 0.25])
        direction = [-a * c for c in zhat]
    else:                          # polarisation along another frame axis: its projection on z_axis is exactly 0
        k = [m for m in range(3) if m != i]
        pol = [rng.choice([1.0, -2.0]) * c for c in axes[rng.choice(k)]]
    sd = rand_signal(run, rng.choice([8, 12, 16]))
    op = rng.choice(["respond", "receive1", "receive"])
    use = {"op": op, "signal": sd, "direction": direction, "force_real": rng.random() < 0.6,
           "form": rng.choice(FORMS), "seqform": rng.choice(["list", "tuple"])}
    vts = ["undefined", "voltage", "field", "power"]
    if op == "receive":
        use["components"] = [{"vals": [rng.gauss(0, 1) for _ in sd["vals"]], "vt": rng.choice(vts), "pol": pol}
                             for _ in range(rng.choice([1, 2]))]
    else:
        use["vt"] = rng.choice(vts)
        use["polarization"] = pol
    return spec, use, way


def expected_use(spec, use, fresh_inner):
    """the response the property prescribes, from a never-used antenna's filter and the stored state"""
    st = current_state(spec)
    sd, fr = use["signal"], use["force_real"]
    comps = ([{"vals": sd["vals"], "vt": use["vt"], "pol": use["polarization"]}] if use["op"] != "receive"
             else use["components"])
    if any(c["vt"] not in ("field", "voltage") for c in comps):
        return "err"
    tot = 0.0
    for c in comps:
        filtered = indep_filter(c["vals"], sd["dt"], independent_response(spec), fr)
        tot = tot + filtered * expected_gain_factor(spec, st, use["direction"], c["pol"], c["vt"])
    return [float(v) for v in tot]


def use_scale(spec, use, fresh_inner):
    st = current_state(spec)
    sd = use["signal"]
    comps = [sd["vals"]] if use["op"] != "receive" else [c["vals"] for c in use["components"]]
    m = 0.0
    for v in comps:
        m += float(np.max(np.abs(indep_filter(v, sd["dt"], independent_response(spec), use["force_real"]))))
    return m * abs(st["eff"]) * max(1.0, 1.0 / abs(st["af"])) * 4 + 1e-300


def use_request(spec, fresh_inner, use):
    sd, fr = use["signal"], use["force_real"]
    ft = filter_toks(spec, fresh_inner, sd, fr)
    if use["op"] == "receive":
        req = head(spec, fresh_inner, "receive", use["direction"]) + " | %s | list" % ft
        for c in use["components"]:
            req += " | 0 %s %s | %s" % (c["vt"], opt3(c["pol"]), fw.fl(c["vals"]))
        return req
    return head(spec, fresh_inner, use["op"], use["direction"]) + " | %s | 0 %s %s | %s" % (
        ft, use["vt"], opt3(use["polarization"]), fw.fl(sd["vals"]))


def mk_signal(sd, vt):
    from pyrex.signals import Signal
    n = len(sd["vals"])
    return Signal(sd["t0"] + np.arange(n) * sd["dt"], np.array(sd["vals"], dtype=float), vtype(vt))


# --------------------------------------------------------------------------------------------
# request encoding
def opt3(v):
    return "-" if v is None else fw.fl(v)


def hist_toks(spec):
    out = ""
    for rec in spec.get("hist", []):
        if rec[0] == "so":
            out += " ; so %s %s" % (fw.fl(rec[1]), fw.fl(rec[2]))
        elif rec[0] in ("pos", "zax", "xax"):
            out += " ; %s %s" % (rec[0], fw.fl(rec[1]))
        elif rec[0] in ("af", "eff"):
            out += " ; %s %s" % (rec[0], fw.fl([rec[1]]))
    return out


def ant_toks(spec, inner):
    if spec["kind"] in ("dip", "sysdip"):
        eh = "-" if spec.get("eh") is None else str(fw.f2b(spec["eh"]))
        return "D %s %s %s %s %s" % (fw.fl(spec["pos"]), fw.fl(spec["z"]), fw.fl([spec["cf"], spec["bw"]]), eh,
                                     fw.fl(spec["tape"])) + hist_toks(spec)
    return "A %s %s %s %s" % (fw.fl(spec["pos"]), fw.fl(spec["z"]), fw.fl(spec["x"]),
                              fw.fl([spec["af"], spec["eff"]])) + hist_toks(spec)


def gain_toks(spec):
    if spec["kind"] in ("dip", "sysdip"):
        return "dipole"
    if spec.get("gains") is not None:
        return "custom " + fw.fl(spec["gains"])
    return "unit"


def filter_toks(spec, inner, sd, force_real):
    import scipy.fft
    from pyrex.signals import Signal
    n = len(sd["vals"])
    if spec["kind"] in ("dip", "sysdip"):
        # coefficients of the band-pass of the antenna's OWN band, recomputed from the spec (not read off the object)
        w1 = 2 * np.pi * (spec["cf"] - spec["bw"] / 2)
        w2 = 2 * np.pi * (spec["cf"] + spec["bw"] / 2)
        return "B %s %s %s %d" % (fw.fl([w2 - w1, 0.0]), fw.fl([1.0, w2 - w1, w1 * w2]), fw.fl([sd["dt"]]), 1 if force_real else 0)
    freqs = scipy.fft.fftfreq(n=2 * n, d=sd["dt"])
    h = Signal._get_filter_response(freqs, independent_response(spec), force_real)
    flat = []
    for c in h:
        flat += [float(c.real), float(c.imag)]
    return "H " + fw.fl(flat)


def head(spec, inner, op, direction):
    return "%s | %s | %s | %s" % (op, ant_toks(spec, inner), gain_toks(spec), opt3(direction))


def angdiff(a, b):
    d = abs(a - b) % (2 * math.pi)
    return min(d, 2 * math.pi - d)


# --------------------------------------------------------------------------------------------
def impl_respond(outer, sd, vt, direction, pol, force_real):
    """values of apply_response or "err" """
    try:
        out = outer.apply_response(mk_signal(sd, vt), direction=None if direction is None else np.array(direction),
                                   polarization=None if pol is None else np.array(pol), force_real=force_real)
    except ValueError:
        return "err"
    from pyrex.signals import Signal
    if out.value_type != Signal.Type.voltage:
        return "not-voltage"
    return [float(v) for v in np.real(out.values)]


EXCLUDED_REGIONS = ["vectors shorter than about 1e-154 or longer than about 1e154: the squares inside np.linalg.norm leave the double "
                    "range, normalize returns the vector unchanged (norm 0.0) resp. the zero vector (norm inf) and the response "
                    "silently becomes ~0 - floating-point range, outside the claim, not generated and not asserted",
                    "empty component sequence in receive (no received signal; the model rejects it)",
                    "zero axis / orientation vectors (not an orientation)", "float32 vectors (float32-accurate normalisation)",
                    "complex gains in the correspondence run (search only; K21)"]


def correspondence(run):
    import pyrex  # noqa: F401
    from pyrex.signals import Signal
    run.extra["excluded_regions"] = EXCLUDED_REGIONS
    rng = run.rng
    reqs, checks = [], []     # checks: (desc, fn(reply) -> None | "mismatch text")
    kinds = ["unit", "custom", "custom", "dip", "dip", "sysdip", "syscustom"]
    ncases = run.scale(140, 1200)

    def add(req, desc, fn, nontrivial=True, sample=None):
        reqs.append(req)
        checks.append((desc, fn, nontrivial, sample))

    def cmp_list(expected, rel, abs_scale=None):
        def fn(reply):
            if expected == "err":
                return None if reply == "err" else "model=%s impl=err" % reply[:80]
            if reply in ("err", "bad-op"):
                return "model=%s impl=%s" % (reply, str(expected)[:120])
            got = fw.unfl(reply.split())
            sc = max([abs(v) for v in expected] + [1e-300])
            tol_abs = (abs_scale if abs_scale is not None else rel) * sc
            if len(got) != len(expected) or not all(abs(g - e) <= tol_abs + rel * abs(e) for g, e in zip(got, expected)):
                return "model=%s impl=%s" % (got[:6], expected[:6])
            return None
        return fn

    def cmp_dipole(expected):
        """axes, factor, efficiency, band to 1e-9 (absolute 1e-12); the five Butterworth coefficients to 1e-9 RELATIVE
        each (they span 1 … 1e19, an absolute tolerance would hide a wrong band)"""
        head_fn = cmp_list(expected[:10], 1e-9, 1e-12)

        def fn(reply):
            toks = reply.split()
            if reply in ("err", "bad-op") or len(toks) != 15:
                return "model=%s" % reply[:60]
            bad = head_fn(" ".join(toks[:10]))
            if bad:
                return bad
            g = fw.unfl(toks[10:])
            e = expected[10:]
            if not all(abs(x - y) <= 1e-9 * max(abs(x), abs(y)) for x, y in zip(g, e)):
                return "butterworth coefficients model=%s impl=%s" % (g, e)
            return None
        return fn

    # --- several dipoles alive at once whose bands lie closer than a MHz: each keeps the filter of its own band
    for gi in range(run.scale(8, 60)):
        base = rand_spec(run, "dip")
        base["cf"], base["bw"] = rng.choice([(300e6, 20e6), (500e6, 500e6), (rng.uniform(200e6, 600e6), rng.uniform(20e6, 150e6))])
        group = [base]
        for _ in range(rng.choice([1, 2])):
            nb = rand_spec(run, rng.choice(["dip", "sysdip"]))
            nb["cf"] = base["cf"] + rng.choice([-1, 1]) * rng.choice([0.05e6, 0.1e6, 0.3e6, 0.4e6, 0.9e6])
            nb["bw"] = base["bw"] + rng.choice([0.0, 0.2e6, -0.2e6])
            group.append(nb)
        rng.shuffle(group)
        objs = [build(sp) for sp in group]
        run.count("neighbouring_band_groups")
        for k in rng.sample(range(len(group)), len(group)):
            sp, (o_, i_) = group[k], objs[k]
            b, a = i_.filter_coeffs
            exp = (list(map(float, i_.z_axis)) + list(map(float, i_.x_axis))
                   + [float(i_.antenna_factor), float(i_.efficiency), float(i_.freq_range[0]), float(i_.freq_range[1])]
                   + [float(v) for v in np.real(b)] + [float(v) for v in np.real(a)])
            add("dipole | " + ant_toks(sp, i_), ("neighbours", gi, k, "dipole"), cmp_dipole(exp))
            use = rand_use(run)
            use.update(op="respond", vt="field", direction=gvec(rng), polarization=gvec(rng), form="array")
            use.pop("components", None)
            got = run_use(o_, i_, use)
            sc = use_scale(sp, use, i_)

            def fnn(reply, got=got, sc=sc):
                if isinstance(got, str) or reply in ("err", "bad-op"):
                    return "model=%s impl=%s" % (reply[:40], str(got)[:40])
                g = fw.unfl(reply.split())
                if len(g) != len(got) or not all(abs(x - y) <= 1e-9 * sc for x, y in zip(g, got)):
                    return "model=%s impl=%s" % (g[:4], got[:4])
                return None
            add(use_request(sp, i_, use), ("neighbours", gi, k, "respond"), fnn)

    for ci in range(ncases):
        kind = kinds[ci % len(kinds)]
        spec = rand_spec(run, kind)
        outer, inner = build(spec)
        run.count("antenna_" + kind)
        key = (kind, ci)
        direction = gvec(rng, rng.choice([1.0, 0.01, 50.0]))
        pol = gvec(rng, rng.choice([1.0, 3.0]))
        # --- dipole construction / butterworth
        if kind in ("dip", "sysdip"):
            b, a = inner.filter_coeffs
            exp = (list(map(float, inner.z_axis)) + list(map(float, inner.x_axis))
                   + [float(inner.antenna_factor), float(inner.efficiency), float(inner.freq_range[0]),
                      float(inner.freq_range[1])] + [float(v) for v in np.real(b)] + [float(v) for v in np.real(a)])
            add("dipole | " + ant_toks(spec, inner), (key, "dipole"), cmp_dipole(exp),
                sample={"op": "dipole", "spec": spec, "impl": exp[:8]})
            fs = [rng.uniform(0, 2e9) for _ in range(6)] + [0.0, spec["cf"]]
            h = inner.frequency_response(np.array(fs))
            flat = []
            for c in h:
                flat += [float(c.real), float(c.imag)]
            add("freqresp | %s %s | %s" % (fw.fl(np.real(b)), fw.fl(np.real(a)), fw.fl(fs)), (key, "freqresp", tuple(fs)),
                cmp_list(flat, 1e-9, 1e-9))
        # --- coordinates
        for _ in range(2):
            pt = [p + c for p, c in zip(spec["pos"], gvec(rng, rng.choice([1.0, 30.0])))]
            r, th, ph = (float(v) for v in inner._convert_to_antenna_coordinates(np.array(pt)))

            def fn(reply, r=r, th=th, ph=ph):
                if reply in ("err", "bad-op"):
                    return "model=%s" % reply
                g = fw.unfl(reply.split())
                if len(g) == 3 and fw.close(g[0], r, 1e-9) and abs(g[1] - th) <= 1e-9 and angdiff(g[2], ph) <= 1e-9:
                    return None
                return "model=%s impl=%s" % (g, [r, th, ph])
            add(head(spec, inner, "coords", None) + " | " + fw.fl(pt), (key, "coords", tuple(pt)), fn,
                sample={"op": "coords", "spec": spec, "point": pt, "impl": [r, th, ph]})
        r0 = inner._convert_to_antenna_coordinates(np.array(spec["pos"]))
        add(head(spec, inner, "coords", None) + " | " + fw.fl(spec["pos"]), (key, "coords0"),
            cmp_list([float(v) for v in r0], 1e-12), nontrivial=False)
        # --- signal factor through apply_response / a plain copy of the filter
        sd = rand_signal(run)
        for vt in VTS:
            for d_, p_ in ((direction, pol), (None, pol), (direction, None), (None, None)):
                if vt in ("undefined", "power") and not (d_ is direction and p_ is pol):
                    continue
                force_real = rng.random() < 0.5
                out = impl_respond(outer, sd, vt, d_, p_, force_real)
                if out == "err":
                    expf = "err"
                else:
                    base = mk_signal(sd, vt)
                    base.filter_frequencies(inner.frequency_response, force_real=force_real)
                    i = int(np.argmax(np.abs(base.values)))
                    expf = [float(out[i] / np.real(base.values[i]))]
                run.count("vt_" + vt)
                add(head(spec, inner, "factor", d_) + " | %s %s" % (vt, opt3(p_)),
                    (key, "factor", vt, d_ is None, p_ is None), cmp_list(expf, 1e-9),
                    nontrivial=(out != "err" and d_ is not None and p_ is not None))
                add(head(spec, inner, "respond", d_) + " | %s | 0 %s %s | %s"
                    % (filter_toks(spec, inner, sd, force_real), vt, opt3(p_), fw.fl(sd["vals"])),
                    (key, "respond", vt, d_ is None, p_ is None, force_real), cmp_list(out, 1e-9),
                    nontrivial=(out != "err" and d_ is not None and p_ is not None),
                    sample={"op": "respond", "spec": spec, "vt": vt, "direction": d_, "polarization": p_,
                            "impl": out if out == "err" else out[:4]})
        th, ph = (float(v) for v in inner._convert_to_antenna_coordinates(
            inner.position - np.array(direction) / np.linalg.norm(direction))[1:])

        def fna(reply, th=th, ph=ph):
            if reply in ("err", "bad-op"):
                return "model=%s" % reply
            g = fw.unfl(reply.split())
            return None if (len(g) == 2 and abs(g[0] - th) <= 1e-9 and angdiff(g[1], ph) <= 1e-9) else \
                "model=%s impl=%s" % (g, [th, ph])
        add(head(spec, inner, "angles", direction), (key, "angles"), fna)
        # --- receive
        ncomp = rng.choice([1, 2, 2, 3])
        n = len(sd["vals"])
        comps = []
        for k in range(ncomp):
            comps.append({"sd": dict(sd, vals=[rng.gauss(0, 1) for _ in range(n)]),
                          "vt": rng.choice(["field", "field", "voltage"]), "pol": gvec(rng), "grid": 0})
        mode = rng.choice(["list", "list", "list", "short", "none", "badtype", "badgrid"])
        if mode == "badtype":
            comps[-1]["vt"] = rng.choice(["undefined", "power"])
        if mode == "badgrid" and ncomp > 1:
            comps[-1]["sd"] = dict(comps[-1]["sd"], t0=sd["t0"] + 0.25 * sd["dt"])
            comps[-1]["grid"] = 1
        force_real = rng.random() < 0.5
        run.count("receive_" + mode)
        sigs = [mk_signal(c["sd"], c["vt"]) for c in comps]
        pols = [np.array(c["pol"]) for c in comps]
        if mode == "short":
            pols = pols[:-1]
        if mode == "none":
            pols = None
        before = len(inner.signals)
        try:
            outer.receive(sigs, direction=np.array(direction), polarization=pols, force_real=force_real)
            tot = inner.signals[-1]
            ok_len = len(inner.signals) == before + 1
            exp = [float(v) for v in np.real(tot.values)] if (ok_len and isinstance(tot, Signal) and
                                                              tot.value_type == Signal.Type.voltage) else "bad"
        except ValueError:
            exp = "err"
            if len(inner.signals) != before:
                exp = "bad"
        m = {"list": "list", "short": "short", "none": "none", "badtype": "list", "badgrid": "list"}[mode]
        req = head(spec, inner, "receive", direction) + " | %s | %s" % (filter_toks(spec, inner, sd, force_real), m)
        for c in comps:
            req += " | %d %s %s | %s" % (c["grid"], c["vt"], opt3(c["pol"]), fw.fl(c["sd"]["vals"]))

        def fnr(reply, exp=exp):
            if exp == "err":
                return None if reply == "err" else "model=%s impl=err" % reply[:60]
            if exp == "bad" or reply in ("err", "bad-op"):
                return "model=%s impl=%s" % (reply[:60], str(exp)[:80])
            toks = reply.split()
            return cmp_list(exp, 1e-9)(" ".join(toks[1:]))
        add(req, (key, "receive", mode, ncomp), fnr, nontrivial=(exp != "err"),
            sample={"op": "receive", "spec": spec, "mode": mode, "components": ncomp})
        # single (non-sequence) signal
        outer2, inner2 = build(spec)
        vt1 = rng.choice(["field", "voltage"])
        outer2.receive(mk_signal(sd, vt1), direction=np.array(direction), polarization=np.array(pol), force_real=force_real)
        exp1 = [float(v) for v in np.real(inner2.signals[-1].values)]
        add(head(spec, inner, "receive1", direction) + " | %s | 0 %s %s | %s"
            % (filter_toks(spec, inner, sd, force_real), vt1, opt3(pol), fw.fl(sd["vals"])),
            (key, "receive1", vt1), lambda reply, exp1=exp1: cmp_list(exp1, 1e-9)(" ".join(reply.split()[1:]))
            if reply not in ("err", "bad-op") else "model=%s" % reply)
    # --- constructor rejection of non-perpendicular axes
    from pyrex.antenna import Antenna
    for eps in (0.0, 5e-9, 2e-8, 1e-3):
        z = [0.0, 0.0, 1.0]
        x = [1.0, 0.0, eps]
        try:
            Antenna([0, 0, 0], z_axis=z, x_axis=x, noisy=False)
            exp = "ok"
        except ValueError:
            exp = "err"
        add("coords | A %s %s %s %s | unit | - | %s" % (fw.fl([0, 0, 0]), fw.fl(z), fw.fl(x), fw.fl([1, 1]), fw.fl([1, 2, 3])),
            ("perp", eps), lambda reply, exp=exp: None if (reply == "err") == (exp == "err") and reply != "bad-op"
            else "model=%s impl=%s" % (reply[:40], exp), nontrivial=False)

    # --- gain factors that vanish exactly x all value types: rejection must not depend on the gain, accepted
    #     inputs give the zero voltage signal on the input's grid
    for zi in range(run.scale(120, 800)):
        spec, use, way = zero_gain_case(run)
        outer, inner = build(spec)
        got = run_use(outer, inner, use)
        fo, fi3 = build(spec)
        want = expected_use(spec, use, fi3)
        sc = use_scale(spec, use, fi3)
        run.count("zero_gain_" + way)
        vt_ = use.get("vt") or "+".join(c["vt"] for c in use["components"])
        if not _close(got, want, 1e-9 * sc):
            run.note_broken("correspondence: zero-gain case %s (%s, %s, value type %s): implementation %s, prescribed %s"
                            % (way, spec["kind"], use["op"], vt_, str(got)[:60], str(want)[:60]))

        def fnz(reply, got=got, sc=sc, strip=(use["op"] != "respond")):
            if isinstance(got, str):
                return None if reply == got == "err" else "model=%s impl=%s" % (reply[:60], got)
            if reply in ("err", "bad-op"):
                return "model=%s impl=%s" % (reply, got[:4])
            g = fw.unfl(reply.split()[1:] if strip else reply.split())
            if len(g) != len(got) or not all(abs(a - b) <= 1e-9 * sc for a, b in zip(g, got)):
                return "model=%s impl=%s" % (g[:4], got[:4])
            return None
        add(use_request(spec, fi3, use), ("zero-gain", zi, way, spec["kind"], use["op"], vt_), fnz,
            nontrivial=not isinstance(got, str),
            sample={"op": "zero-gain", "way": way, "kind": spec["kind"], "use": use["op"], "vt": vt_} if zi < 2 else None)

    # --- FunctionSignal / Askaryan inputs REUSED across calls and antennas, results read lazily in another order
    for fi_ in range(run.scale(40, 300)):
        desc = rand_input_desc(run, buffers_ok=False)
        specs = [rand_spec(run, rng.choice(["dip", "sysdip", "custom", "dip"])) for _ in range(2)]
        for sp in specs:
            if sp.get("gains") is not None:
                sp["fresp"] = rng.choice([rng.uniform(1e8, 8e8), ["nh", rng.uniform(1e8, 8e8), rng.uniform(0.3, 1.2)]])
        ants = [build(sp) for sp in specs]
        sig = make_input(desc)
        twin = make_input(desc)
        vals0 = [float(x) for x in np.real(twin.values)]
        struct0 = input_structure(twin)
        sd = {"t0": desc["t0"], "dt": desc["dt"], "vals": vals0}
        run.count("reused_input_" + desc["kind"])
        pending = []
        for ci in range(rng.choice([2, 3, 4])):
            ai = rng.randrange(2)
            use = {"op": rng.choice(["respond", "receive1"]), "signal": sd, "vt": desc["vt"], "direction": gvec(rng),
                   "polarization": gvec(rng), "force_real": True}
            outer, inner = ants[ai]
            d_, p_ = np.array(use["direction"]), np.array(use["polarization"])
            if use["op"] == "respond":
                res = outer.apply_response(sig, direction=d_, polarization=p_, force_real=True)
            else:
                outer.receive(sig, direction=d_, polarization=p_, force_real=True)
                res = inner.signals[-1]
            if input_structure(sig) != struct0:
                run.note_broken("correspondence: %s of a reused %s input changed the input's component lists: %s -> %s"
                                % (use["op"], desc["kind"], struct0["filters"], input_structure(sig)["filters"]))
            pending.append((ai, use, res))
        rng.shuffle(pending)
        for ai, use, res in pending:
            got = [float(v) for v in np.real(res.values)]
            fo, fi2 = build(specs[ai])
            sc = use_scale(specs[ai], use, fi2)

            def fnf(reply, got=got, sc=sc, strip=(use["op"] != "respond")):
                if reply in ("err", "bad-op"):
                    return "model=%s impl=%s" % (reply, got[:4])
                g = fw.unfl(reply.split()[1:] if strip else reply.split())
                if len(g) != len(got) or not all(abs(a - b) <= 1e-8 * sc for a, b in zip(g, got)):
                    return "model=%s impl=%s" % (g[:4], got[:4])
                return None
            add(use_request(specs[ai], fi2, use), ("reused-input", fi_, desc["kind"], ai, use["op"], tuple(use["direction"])),
                fnf, sample={"op": "reused-input", "input": desc["kind"], "antenna": specs[ai]["kind"]} if fi_ < 2 else None)
        if [float(x) for x in np.real(sig.values)] != vals0:
            run.note_broken("correspondence: the values of a reused %s input changed after it was handed to antennas" % desc["kind"])

    # --- histories on ONE object: after every step the object, a never-used antenna brought to the same
    #     parameters, and the model (constructor + history records) must answer alike
    hkinds = ["custom", "dip", "sysdip", "syscustom", "custom", "dip", "unit"]
    for hi in range(run.scale(50, 500)):
        kind = hkinds[hi % len(hkinds)]
        spec = rand_spec(run, kind)
        spec["hist"] = []
        outer, inner = build(spec)
        run.count("history_" + kind)
        n_, dt_ = (None, None) if rng.random() < 0.5 else (rng.choice([8, 12, 16]), rng.choice([1e-9, 0.5e-9]))
        keep = {}
        for step in range(rng.choice([3, 4, 5, 6])):
            if step > 0:
                rec = rand_record(run, spec)
                run.count("history_step_" + rec[0])
                apply_record(outer, inner, rec)
                spec["hist"] = spec["hist"] + [rec]
            # same grid on consecutive steps half of the time (a cache keyed on the grid would be hit)
            use = rand_use(run, n_, dt_, keep)
            got = run_use(outer, inner, use)
            fo, fi = build(spec)
            fresh = run_use(fo, fi, use)
            sc = use_scale(spec, use, fi)
            key = ("history", hi, step, kind, use["op"])
            same = (got == fresh) if isinstance(got, str) or isinstance(fresh, str) else \
                (len(got) == len(fresh) and all(abs(a - b) <= 1e-12 * sc for a, b in zip(got, fresh)))
            if not same:
                run.note_broken("correspondence: history %s step %d: the used object answers %s, a never-used antenna "
                                "with the same parameters %s (history %s)" % (kind, step, str(got)[:80], str(fresh)[:80],
                                                                             spec["hist"]))

            def fnh(reply, got=got, sc=sc, strip=(use["op"] != "respond")):
                if isinstance(got, str):
                    return None if reply == got == "err" else "model=%s impl=%s" % (reply[:60], got)
                if reply in ("err", "bad-op"):
                    return "model=%s impl=%s" % (reply, got[:4])
                g = fw.unfl(reply.split()[1:] if strip else reply.split())
                if len(g) != len(got) or not all(abs(a - b) <= 1e-9 * sc for a, b in zip(g, got)):
                    return "model=%s impl=%s" % (g[:4], got[:4])
                return None
            add(use_request(spec, fi, use), key, fnh, nontrivial=not isinstance(got, str),
                sample={"op": "history", "spec": {k: v for k, v in spec.items() if k != "hist"}, "hist": spec["hist"],
                        "use": use["op"]} if step == 2 else None)

    replies = fw.run_driver("C08", reqs)
    ok = not run.broken
    for rq, (desc, fn, nontriv, sample), rp in zip(reqs, checks, replies):
        run.case(desc, nontrivial=nontriv, sample=sample)
        bad = fn(rp) if rp != "bad-op" else "model rejected the request (bad-op)"
        if bad is None:
            run.traces += 1
        else:
            ok = False
            run.note_broken("correspondence: %s request=%s… %s" % (desc, rq[:300], bad))
    return ok


# --------------------------------------------------------------------------------------------
# property-level oracles on the implementation alone
def oracle(kind, inp):
    """-> None when the property holds on this input, else (observed, expected, what); an exception where the
    property demands an answer is a failure of the property on that input, not of the harness"""
    try:
        if kind == "history":
            return oracle_history(inp)
        if kind == "reorient":
            return oracle_reorient(inp)
        if kind == "reuse":
            return oracle_reuse(inp)
        if kind == "zerogain":
            return oracle_zerogain(inp)
        if kind == "cgain":
            return oracle_cgain(inp)
        if kind == "scale":
            return oracle_scale(inp)
        if kind == "neighbours":
            return oracle_neighbours(inp)
        return oracle_plain(kind, inp)
    except Exception as e:     # noqa: BLE001
        import traceback
        return ("raised %s: %s" % (type(e).__name__, str(e)[:200]), "a response",
                "%s oracle: the implementation raised where the property prescribes a response (%s)"
                % (kind, traceback.format_exc().strip().split("\n")[-3].strip()[:160]))


def _close(a, b, tol):
    if isinstance(a, str) or isinstance(b, str):
        return a == b
    return len(a) == len(b) and all(abs(x - y) <= tol for x, y in zip(a, b))


def oracle_history(inp):
    """short history on one object; after every step its answer must be the one the property prescribes for the
    CURRENT parameters, and the one of a never-used antenna constructed with the current parameters"""
    spec = dict(inp["spec"], hist=[])
    outer, inner = build(spec)
    for si, step in enumerate(inp["steps"]):
        if step.get("rec") is not None:
            apply_record(outer, inner, step["rec"])
            spec["hist"] = spec["hist"] + [step["rec"]]
        use = step["use"]
        got = run_use(outer, inner, use)
        fo, fi = fresh_antenna(spec)
        sc = use_scale(spec, use, fi)
        want = expected_use(spec, use, fi)
        if not _close(got, want, 1e-8 * sc):
            return ([si, got if isinstance(got, str) else got[:4]], [si, want if isinstance(want, str) else want[:4]],
                    "after the history %s the %s answer is not filter x gains x efficiency (/ factor for fields) for the "
                    "current axes and parameters" % ([r[0] for r in spec["hist"]], use["op"]))
        fresh = run_use(fo, fi, use)
        if not _close(got, fresh, 1e-9 * sc):
            return ([si, got if isinstance(got, str) else got[:4]], [si, fresh if isinstance(fresh, str) else fresh[:4]],
                    "after the history %s the used object and a fresh antenna with the current parameters disagree"
                    % [r[0] for r in spec["hist"]])
    return None


def fresh_antenna(spec):
    """a never-used antenna with the current parameters; built through the constructor alone where it can express
    them (base Antenna, axes last set by a successful set_orientation), otherwise constructor + the same assignments"""
    hist = spec.get("hist", [])
    if spec["kind"] not in ("dip", "sysdip") and not any(r[0] in ("zax", "xax") for r in hist):
        st = current_state(spec)
        if abs(float(np.dot(st["z"], st["x"]))) <= 1e-9:
            flat = dict(spec, hist=[], pos=[float(c) for c in st["pos"]], z=[float(c) for c in st["z"]],
                        x=[float(c) for c in st["x"]], af=st["af"], eff=st["eff"])
            return build(flat)
    return build(spec)


def oracle_reorient(inp):
    """rotation covariance across set_orientation on one object: after the axes, the direction and the polarisation
    have been rotated together the response is the one before the rotation"""
    spec = dict(inp["spec"], hist=[])
    outer, inner = build(spec)
    use = inp["use"]
    d, p = np.array(use["direction"]), np.array(use["polarization"])
    r0 = run_use(outer, inner, use)
    fo, fi = build(spec)
    sc = use_scale(spec, use, fi)
    for ri, R in enumerate(inp["rotations"]):
        R = np.array(R)
        st = current_state(spec)
        rec = ["so", [float(c) for c in R @ st["z"]], [float(c) for c in R @ st["x"]]]
        apply_record(outer, inner, rec)
        spec["hist"] = spec["hist"] + [rec]
        d, p = R @ d, R @ p
        r1 = run_use(outer, inner, dict(use, direction=[float(c) for c in d], polarization=[float(c) for c in p]))
        if not _close(r0, r1, 1e-8 * sc):
            return ([ri, r1 if isinstance(r1, str) else r1[:4]], [ri, r0 if isinstance(r0, str) else r0[:4]],
                    "response changes when the axes (through set_orientation on the same object), the direction and the "
                    "polarisation are rotated together")
    return None


def oracle_scale(inp):
    """only the DIRECTION of the axes, the arrival direction and the polarisation vectors matters: the answer for
    vectors of tiny or huge length equals the answer for the unit vectors of the same directions"""
    spec, use = inp["spec"], inp["use"]

    def unit_list(v):
        return None if v is None else [float(c) for c in _unit(v)]
    spec1 = dict(spec, z=unit_list(spec["z"]))
    if "x" in spec:
        spec1["x"] = unit_list(spec["x"])
    use1 = dict(use, direction=unit_list(use["direction"]))
    if "polarization" in use:
        use1["polarization"] = unit_list(use["polarization"])
    if "components" in use:
        use1["components"] = [dict(c, pol=unit_list(c["pol"])) for c in use["components"]]
    o, i = build(spec)
    got = run_use(o, i, use)
    o1, i1 = build(spec1)
    ref = run_use(o1, i1, use1)
    fo, fi = build(spec1)
    sc = use_scale(spec1, use1, fi)
    if not _close(got, ref, 1e-9 * sc):
        return (got if isinstance(got, str) else got[:4], ref if isinstance(ref, str) else ref[:4],
                "the %s answer for axes / direction / polarisation of lengths %s differs from the answer for the unit "
                "vectors of the same directions" % (use["op"], inp["lengths"]))
    want = expected_use(spec1, use1, fi)
    if not _close(ref, want, 1e-8 * sc):
        return (ref if isinstance(ref, str) else ref[:4], want if isinstance(want, str) else want[:4],
                "the %s answer for unit vectors is not filter x gains x efficiency (/ factor)" % use["op"])
    return None


def oracle_neighbours(inp):
    """several DipoleAntenna objects in one process whose pass bands lie closer than a MHz, built in the given order:
    each one's frequency response is the first-order Butterworth band-pass of ITS OWN band (|H| = 1/sqrt 2 at its own
    -3 dB edges, the independent formula elsewhere) and each filters like the antenna built alone"""
    specs = inp["antennas"]
    built = [build(sp) for sp in specs]            # all alive at once, in this order
    use = inp["use"]
    for k in inp["check_order"]:
        sp = specs[k]
        outer, inner = built[k]
        fl, fh = sp["cf"] - sp["bw"] / 2, sp["cf"] + sp["bw"] / 2
        h = np.asarray(inner.frequency_response(np.array([fl, fh])))
        if np.max(np.abs(np.abs(h) - 1 / math.sqrt(2))) > 1e-6:
            return ([k, [float(abs(x)) for x in h]], [k, [1 / math.sqrt(2)] * 2],
                    "antenna %d of %d (band %.4f-%.4f MHz, neighbours %s MHz): |H| at its own -3 dB edges is not 1/sqrt(2)"
                    % (k, len(specs), fl / 1e6, fh / 1e6, [round((s_["cf"] - s_["bw"] / 2) / 1e6, 4) for s_ in specs]))
        fs = np.array(inp["freqs"])
        hh = np.asarray(inner.frequency_response(fs))
        ref = independent_response(sp)(fs)
        if np.max(np.abs(hh - ref)) > 1e-9:
            return ([k, [complex(x) for x in hh[:3]]], [k, [complex(x) for x in ref[:3]]],
                    "antenna %d: frequency response is not the Butterworth band-pass of its own band" % k)
        got = run_use(outer, inner, use)
        want = expected_use(sp, use, inner)
        sc = use_scale(sp, use, inner)
        if not _close(got, want, 1e-8 * sc):
            return ([k, got if isinstance(got, str) else got[:4]], [k, want if isinstance(want, str) else want[:4]],
                    "antenna %d built next to dipoles with neighbouring bands does not filter like the antenna built alone" % k)
    return None


def oracle_cgain(inp):
    """complex-valued gains (the docstrings advertise them): the response is filtered x gain product x efficiency
    (/ factor), a COMPLEX signal.  Plain Signal inputs must give exactly that.  Function-backed inputs lose the
    imaginary part (known finding K21): recognised only when the result is real and equals Re(prescribed)."""
    from pyrex.signals import Signal
    spec, desc = inp["spec"], inp["input"]
    outer, inner = build(spec)
    twin = make_input(desc)
    vals0 = np.real(np.array(twin.values))
    times = np.array(twin.times)
    sig = make_input(desc) if inp["as"] == "function" else Signal(times, vals0.copy(), vtype(desc["vt"]))
    d_ = None if inp["direction"] is None else np.array(inp["direction"])
    p_ = None if inp["polarization"] is None else np.array(inp["polarization"])
    fr = bool(inp["force_real"])
    before = len(inner.signals)
    if inp["op"] == "respond":
        res = outer.apply_response(sig, direction=d_, polarization=p_, force_real=fr)
    else:
        outer.receive(sig, direction=d_, polarization=p_, force_real=fr)
        if len(inner.signals) != before + 1:
            return (len(inner.signals) - before, 1, "receive did not store exactly one signal")
        res = inner.signals[-1]
    got = np.asarray(res.values)
    ad, ap = spec["cphase"]
    g = expected_gain_factor(spec, current_state(spec), inp["direction"], inp["polarization"], desc["vt"]) \
        * np.exp(1j * ((ad if d_ is not None else 0.0) + (ap if p_ is not None else 0.0)))
    fc = indep_filter(vals0, desc["dt"], independent_response(spec), fr, keep_complex=True)
    filtered = np.real(fc)          # what Signal.filter_frequencies keeps of a real signal
    want = filtered * g
    sc = float(np.max(np.abs(filtered))) * abs(g) + 1e-300
    if len(got) == len(want) and np.max(np.abs(got - want)) <= 1e-8 * sc:
        return None
    what = "with complex gains the %s of a %s input is not filtered signal x gain product x efficiency (/ factor)" % (
        inp["op"], "function-backed (%s)" % desc["kind"] if inp["as"] == "function" else "plain Signal")
    if (inp["as"] == "function" and len(got) == len(want) and not np.iscomplexobj(got)
            and abs(g.imag) > 0 and np.max(np.abs(got - np.real(fc * g))) <= 1e-8 * sc):
        # the factor was multiplied in before the filter and the real part taken afterwards
        return ([complex(x) for x in got[:3]], [complex(x) for x in want[:3]], what + ": the imaginary part is dropped", "K21")
    i = int(np.argmax(np.abs(got - want))) if len(got) == len(want) else -1
    return ([i, complex(got[i])], [i, complex(want[i])], what)


def oracle_zerogain(inp):
    """exactly vanishing gain factor x value type: an input that is neither field nor voltage is rejected (nothing
    stored) whatever the gains; an accepted one yields the zero signal of type voltage on the input's grid"""
    spec, use = inp["spec"], inp["use"]
    outer, inner = build(spec)
    got = run_use(outer, inner, use)
    vts = [use["vt"]] if use["op"] != "receive" else [c["vt"] for c in use["components"]]
    if any(v not in ("field", "voltage") for v in vts):
        if got != "err":
            return (got if isinstance(got, str) else "accepted, values %s" % got[:3], "ValueError, nothing stored",
                    "%s accepts value type(s) %s when the gain factor vanishes exactly (%s)" % (use["op"], vts, inp["way"]))
        return None
    fo, fi = build(spec)
    want = expected_use(spec, use, fi)
    if not _close(got, want, 1e-9 * use_scale(spec, use, fi)):
        return (got if isinstance(got, str) else got[:4], want[:4],
                "%s with an exactly vanishing gain factor (%s) is not the prescribed (zero) voltage signal on the "
                "input's grid" % (use["op"], inp["way"]))
    return None


def oracle_reuse(inp):
    """FunctionSignal / Askaryan inputs reused across several apply_response / receive calls and antennas; results
    read lazily in another order than created.  After every call the input is unchanged (component lists; values at
    the end), every result equals the one a never-used antenna gives for a NEW input object, and results read once do
    not change afterwards."""
    descs = inp["inputs"]
    sigs = [make_input(d) for d in descs]
    ants = [build(sp) for sp in inp["antennas"]]
    structs = [input_structure(make_input(d)) for d in descs]
    vals0 = [np.real(np.array(make_input(d).values)) for d in descs]
    results = []
    for ci, c in enumerate(inp["calls"]):
        outer, inner = ants[c["ant"]]
        d_, p_ = np.array(c["direction"]), np.array(c["polarization"])
        arg = sigs[c["inputs"][0]] if len(c["inputs"]) == 1 else sigs[c["inputs"][0]] + sigs[c["inputs"][1]]
        if c["op"] == "respond":
            res = outer.apply_response(arg, direction=d_, polarization=p_, force_real=c["force_real"])
        else:
            before = len(inner.signals)
            outer.receive(arg, direction=d_, polarization=p_, force_real=c["force_real"])
            if len(inner.signals) != before + 1:
                return (len(inner.signals) - before, 1, "receive did not store exactly one signal")
            res = inner.signals[-1]
        results.append(res)
        for k, sg in enumerate(sigs):
            now = input_structure(sg)
            if now != structs[k]:
                diff = [key for key in now if now[key] != structs[k][key]]
                return ([ci, k, {key: now[key] for key in diff}], [ci, k, {key: structs[k][key] for key in diff}],
                        "call %d (%s) modified the incoming %s signal object (its %s)" % (ci, c["op"], descs[k]["kind"], diff))

    def reference(c):
        fo, fi = build(inp["antennas"][c["ant"]])
        new = [make_input(descs[k]) for k in c["inputs"]]
        arg = new[0] if len(new) == 1 else new[0] + new[1]
        return np.real(np.array(fo.apply_response(arg, direction=np.array(c["direction"]),
                                                  polarization=np.array(c["polarization"]),
                                                  force_real=c["force_real"]).values))
    first = {}
    for ci in inp["order"]:
        c = inp["calls"][ci]
        got = np.real(np.array(results[ci].values))
        ref = reference(c)
        sc = float(np.max(np.abs(ref))) + 1e-300
        if len(got) != len(ref) or np.max(np.abs(got - ref)) > 1e-9 * sc:
            i = int(np.argmax(np.abs(got - ref))) if len(got) == len(ref) else -1
            return ([ci, i, float(got[i])], [ci, i, float(ref[i])],
                    "result of call %d (%s of a reused %s input) differs from the response of a never-used antenna to a "
                    "new input object" % (ci, c["op"], [descs[k]["kind"] for k in c["inputs"]]))
        first[ci] = got
    for k, sg in enumerate(sigs):
        v = np.real(np.array(sg.values))
        if len(v) != len(vals0[k]) or np.max(np.abs(v - vals0[k])) > 1e-12 * (float(np.max(np.abs(vals0[k]))) + 1e-300):
            return (v[:4].tolist(), vals0[k][:4].tolist(), "the values of the incoming %s signal changed after it was "
                    "handed to antennas" % descs[k]["kind"])
    for ci, got in first.items():
        again = np.real(np.array(results[ci].copy().values))
        if np.max(np.abs(again - got)) > 1e-12 * (float(np.max(np.abs(got))) + 1e-300):
            return (again[:4].tolist(), got[:4].tolist(), "an earlier result (call %d) changed after the fact" % ci)
    return None


def oracle_plain(kind, inp):
    from pyrex.signals import Signal
    spec = inp["spec"]
    direction, pol, sd = np.array(inp["direction"]), np.array(inp["polarization"]), inp["signal"]
    vt = inp.get("vt", "field")
    fr = bool(inp.get("force_real", True))
    outer, inner = build(spec)

    def resp(o, s, vt_, d, p):
        return np.real(o.apply_response(mk_signal(s, vt_), direction=d, polarization=p, force_real=fr).values)
    r0 = resp(outer, sd, vt, direction, pol)
    sc = float(np.max(np.abs(r0))) + 1e-300
    if kind == "rotate":
        R = np.array(inp["rotation"])
        o1, _ = build(rotated(spec, R))
        r1 = resp(o1, sd, vt, R @ direction, R @ pol)
        base = mk_signal(sd, vt)
        base.values = indep_filter(sd["vals"], sd["dt"], independent_response(spec), fr)
        ref = float(np.max(np.abs(base.values))) * max(1.0, abs(inner.efficiency / (inner.antenna_factor if vt == "field" else 1)))
        if not np.allclose(r0, r1, rtol=0, atol=1e-8 * max(sc, ref)):
            return r1[:4].tolist(), r0[:4].tolist(), "response changes when axes, direction and polarisation are rotated together"
    elif kind == "linear":
        sd2 = dict(sd, vals=inp["signal2"])
        a, b = inp["coeffs"]
        comb = dict(sd, vals=[a * u + b * v for u, v in zip(sd["vals"], sd2["vals"])])
        r2 = resp(outer, sd2, vt, direction, pol)
        rc = resp(outer, comb, vt, direction, pol)
        sc2 = abs(a) * sc + abs(b) * (float(np.max(np.abs(r2))) + 1e-300)
        if not np.allclose(rc, a * r0 + b * r2, rtol=0, atol=1e-8 * sc2):
            return rc[:4].tolist(), (a * r0 + b * r2)[:4].tolist(), "response is not linear in the signal"
    elif kind == "factor":
        # filtered signal x gains x efficiency (/ antenna factor for fields), gains recomputed independently
        base = mk_signal(sd, vt)
        base.values = indep_filter(sd["vals"], sd["dt"], independent_response(spec), fr)
        zh = np.array(spec["z"]) / np.linalg.norm(spec["z"])
        dh = direction / np.linalg.norm(direction)
        ph_ = pol / np.linalg.norm(pol)
        if spec["kind"] in ("dip", "sysdip"):
            dg = math.sqrt(max(0.0, 1 - float(np.dot(dh, zh)) ** 2))
            pg = float(np.dot(zh, ph_))
            af, eff = inner.antenna_factor, 1.0
            h = spec.get("eh") or 299792458.0 / spec["cf"] / 2
            if not fw.close(af, 1 / h, 1e-12):
                return af, 1 / h, "dipole antenna factor is not 1/effective height"
        else:
            xh = np.array(spec["x"]) / np.linalg.norm(spec["x"])
            yh = np.cross(zh, xh)
            rel = -dh
            cx, cy, cz = float(np.dot(xh, rel)), float(np.dot(yh, rel)), float(np.dot(zh, rel))
            th, phi = math.acos(max(-1, min(1, cz))), math.atan2(cy, cx)
            c = spec.get("gains")
            if c is None:
                dg, pg = 1.0, 1.0
            else:
                dg = math.sin(th) * (c[0] + c[1] * math.cos(phi) + c[6] * math.sin(phi)) + c[2] * th
                pg = c[3] * float(np.dot(xh, ph_)) + c[4] * float(np.dot(zh, ph_)) + c[5] * float(np.dot(yh, ph_))
            af, eff = spec["af"], spec["eff"]
        expect = np.real(base.values) * dg * pg * eff / (af if vt == "field" else 1.0)
        ref = float(np.max(np.abs(base.values))) * abs(eff / (af if vt == "field" else 1.0)) + 1e-300
        if not np.allclose(r0, expect, rtol=0, atol=1e-8 * ref):
            return r0[:4].tolist(), expect[:4].tolist(), \
                "response is not filter(signal) x directional gain x polarisation gain x efficiency (/ antenna factor for fields)"
        other = "voltage" if vt == "field" else "field"
        ro = resp(outer, sd, other, direction, pol)
        want = r0 * af if vt == "field" else r0 / af
        if not np.allclose(ro, want, rtol=0, atol=1e-8 * ref * max(af, 1)):
            return ro[:4].tolist(), want[:4].tolist(), "field and voltage responses do not differ by exactly the antenna factor"
    elif kind == "rejects":
        for bad in ("undefined", "power"):
            try:
                outer.apply_response(mk_signal(sd, bad), direction=direction, polarization=pol)
                return "accepted", "ValueError", "value type %s is not rejected" % bad
            except ValueError:
                pass
    elif kind == "receive":
        comps = inp["components"]
        parts = [resp(inner, dict(sd, vals=c["vals"]), c["vt"], direction, np.array(c["pol"])) for c in comps]
        o2, i2 = build(spec)
        o2.receive([mk_signal(dict(sd, vals=c["vals"]), c["vt"]) for c in comps], direction=direction,
                   polarization=[np.array(c["pol"]) for c in comps], force_real=fr)
        got = np.real(i2.signals[-1].values)
        want = sum(parts)
        scr = sum(float(np.max(np.abs(p))) for p in parts) + 1e-300
        if len(i2.signals) != 1 or not np.allclose(got, want, rtol=0, atol=1e-9 * scr):
            return got[:4].tolist(), want[:4].tolist(), "received signal is not the sum of the polarised components' responses"
        # a different number of polarisations than signals is rejected, nothing is stored
        for drop in (1, -1):
            o4, i4 = build(spec)
            sigs = [mk_signal(dict(sd, vals=c["vals"]), c["vt"]) for c in comps]
            pols = [np.array(c["pol"]) for c in comps]
            pols = pols[:-1] if drop == 1 else pols + [pol]
            try:
                o4.receive(sigs, direction=direction, polarization=pols, force_real=fr)
                return ("accepted, %d stored" % len(i4.signals), "ValueError", "receive accepts %d signals with %d polarisations"
                        % (len(sigs), len(pols)))
            except ValueError:
                if len(i4.signals) != 0:
                    return ("stored", "nothing stored", "receive stored a signal although it raised")
        # a component that is neither field nor voltage is rejected wherever it stands, nothing is stored
        for pos_ in range(len(comps) + 1):
            for bad in ("undefined", "power"):
                o3, i3 = build(spec)
                sigs = [mk_signal(dict(sd, vals=c["vals"]), c["vt"]) for c in comps]
                pols = [np.array(c["pol"]) for c in comps]
                sigs.insert(pos_, mk_signal(sd, bad))
                pols.insert(pos_, pol)
                try:
                    o3.receive(sigs, direction=direction, polarization=pols, force_real=fr)
                    return ("accepted", "ValueError", "receive accepts a component of value type %s at position %d of %s"
                            % (bad, pos_, [c["vt"] for c in comps]))
                except ValueError:
                    if len(i3.signals) != 0:
                        return ("stored", "nothing stored", "receive stored a signal although it raised")
        if outer is not inner:   # delegation: the system and its antenna answer alike
            ra = resp(inner, sd, vt, direction, pol)
            if not np.array_equal(ra, r0):
                return r0[:4].tolist(), ra[:4].tolist(), "AntennaSystem.apply_response differs from its antenna's"
    elif kind == "frame":
        # (r, theta, phi) must reconstruct the relative point in the right-handed frame (x, z cross x, z)
        pt = np.array(inp["point"])
        r, th, phi = inner._convert_to_antenna_coordinates(pt)
        zh, xh = inner.z_axis, inner.x_axis
        yh = np.cross(zh, xh)
        back = r * (math.sin(th) * math.cos(phi) * xh + math.sin(th) * math.sin(phi) * yh + math.cos(th) * zh)
        rel = pt - np.array(spec["pos"])
        if not np.allclose(back, rel, rtol=0, atol=1e-8 * (np.linalg.norm(rel) + 1e-300)) or not (0 <= phi <= 2 * math.pi):
            return back.tolist(), rel.tolist(), "(r,theta,phi) is not the spherical representation in the frame (x, z cross x, z)"
    return None


def gen_input(run, kind):
    rng = run.rng
    spec = rand_spec(run, rng.choice(["unit", "custom", "custom", "dip", "sysdip", "syscustom"]))
    sd = rand_signal(run)
    n = len(sd["vals"])
    inp = {"spec": spec, "direction": gvec(rng, rng.choice([1.0, 20.0])), "polarization": gvec(rng),
           "signal": sd, "vt": rng.choice(["field", "voltage"]), "force_real": rng.random() < 0.7}
    if kind == "rotate":
        inp["rotation"] = rand_rotation(rng).tolist()
    elif kind == "linear":
        inp["signal2"] = [rng.gauss(0, 1) for _ in range(n)]
        inp["coeffs"] = [rng.uniform(-3, 3), rng.uniform(-3, 3)]
    elif kind == "receive":
        inp["components"] = [{"vals": [rng.gauss(0, 1) for _ in range(n)], "vt": rng.choice(["field", "voltage"]),
                              "pol": gvec(rng)} for _ in range(rng.choice([1, 2, 3]))]
    elif kind == "frame":
        inp["point"] = [p + c for p, c in zip(spec["pos"], gvec(rng, rng.choice([1.0, 40.0])))]
    elif kind == "history":
        work = dict(spec, hist=[])
        n_, dt_ = (None, None) if rng.random() < 0.5 else (rng.choice([8, 12, 16]), rng.choice([1e-9, 0.5e-9]))
        steps = []
        keep = {}
        for si in range(rng.choice([3, 4, 5])):
            rec = None
            if si > 0:
                rec = rand_record(run, work)
                work["hist"] = work["hist"] + [rec]
            steps.append({"rec": rec, "use": rand_use(run, n_, dt_, keep)})
        return {"spec": spec, "steps": steps}
    elif kind == "zerogain":
        spec, use, way = zero_gain_case(run)
        return {"spec": spec, "use": use, "way": way}
    elif kind == "scale":
        sp = rand_spec(run, rng.choice(["dip", "sysdip", "custom", "syscustom"]))
        use = rand_use(run)
        tiny = lambda: rng.choice([1e-8, 1e-9, 1e-12, 1e-100, 1e-140, 1e8, 1e100, 1e140])   # noqa: E731
        ls = [tiny(), tiny(), tiny(), tiny()]
        sp["z"] = [float(c) for c in _unit(sp["z"]) * ls[0]]
        if "x" in sp:
            sp["x"] = [float(c) for c in _unit(sp["x"]) * ls[1]]
        use["form"] = rng.choice(FORMS)
        use["direction"] = [float(c) for c in np.array(gvec(rng)) * ls[2]]
        if "polarization" in use:
            use["polarization"] = [float(c) for c in np.array(gvec(rng)) * ls[3]]
            use["vt"] = rng.choice(["field", "voltage"])
        for c in use.get("components", []):
            c["pol"] = [float(v) for v in np.array(gvec(rng)) * tiny()]
        return {"spec": sp, "use": use, "lengths": ls}
    elif kind == "neighbours":
        base = rand_spec(run, "dip")
        base["cf"], base["bw"] = rng.choice([(300e6, 20e6), (500e6, 500e6), (rng.uniform(200e6, 600e6), rng.uniform(20e6, 150e6))])
        ants = [base]
        for _ in range(rng.choice([1, 2, 3])):
            nb = rand_spec(run, rng.choice(["dip", "sysdip"]))
            nb["cf"] = base["cf"] + rng.choice([-1, 1]) * rng.choice([0.1e6, 0.3e6, 0.4e6, 0.9e6, 0.05e6])
            nb["bw"] = base["bw"] + rng.choice([0.0, 0.0, 0.2e6, -0.2e6])
            ants.append(nb)
        rng.shuffle(ants)
        order = list(range(len(ants)))
        rng.shuffle(order)
        use = rand_use(run)
        use.update(op=rng.choice(["respond", "receive1"]), vt=rng.choice(["field", "voltage"]), direction=gvec(rng),
                   polarization=gvec(rng), form="array")
        use.pop("components", None)
        return {"antennas": ants, "check_order": order, "use": use, "freqs": [rng.uniform(50e6, 1.2e9) for _ in range(5)]}
    elif kind == "cgain":
        sp = rand_spec(run, rng.choice(["custom", "custom", "syscustom", "unit"]))
        sp["fresp"] = rng.choice([None, rng.uniform(1e8, 8e8)])      # Hermitian responses: filtered stays real
        sp["cphase"] = [rng.uniform(0.2, 2.9), rng.choice([0.0, rng.uniform(0.2, 2.9)])]
        desc = rand_input_desc(run, buffers_ok=False)
        return {"spec": sp, "input": desc, "as": rng.choice(["sampled", "function"]), "op": rng.choice(["respond", "receive1"]),
                "direction": gvec(rng), "polarization": None if rng.random() < 0.3 else gvec(rng),
                "force_real": rng.random() < 0.7}
    elif kind == "reuse":
        ants = [rand_spec(run, rng.choice(["dip", "dip", "sysdip", "custom"])) for _ in range(rng.choice([1, 2, 3]))]
        for sp in ants:
            if sp.get("gains") is not None:
                sp["fresp"] = rng.choice([rng.uniform(1e8, 8e8), ["nh", rng.uniform(1e8, 8e8), rng.uniform(0.3, 1.2)]])
        d0 = rand_input_desc(run)
        descs = [d0]
        if d0["kind"] in ("fn", "fnsum") and rng.random() < 0.7:
            d1 = rand_input_desc(run)
            d1.update(kind=rng.choice(["fn", "fnsum"]), n=d0["n"], dt=d0["dt"], t0=d0["t0"], vt=d0["vt"])
            d1.pop("shift", None)
            descs.append(d1)
        calls = []
        for ci in range(rng.choice([2, 3, 4, 5])):
            ins = [rng.randrange(len(descs))]
            if len(descs) == 2 and ci >= 1 and rng.random() < 0.35:
                ins = [0, 1]
            calls.append({"ant": rng.randrange(len(ants)), "op": rng.choice(["respond", "receive1"]), "inputs": ins,
                          "direction": gvec(rng), "polarization": gvec(rng), "force_real": rng.random() < 0.8})
        order = list(range(len(calls)))
        rng.shuffle(order)
        return {"antennas": ants, "inputs": descs, "calls": calls, "order": order}
    elif kind == "reorient":
        use = rand_use(run)
        use.update(op=rng.choice(["respond", "receive1"]), vt=rng.choice(["field", "voltage"]),
                   direction=gvec(rng), polarization=gvec(rng), form=rng.choice(FORMS))
        use.pop("components", None)
        return {"spec": spec, "use": use, "rotations": [rand_rotation(rng).tolist() for _ in range(rng.choice([1, 2, 3]))]}
    return inp


ORACLES = ["rotate", "linear", "factor", "rejects", "receive", "frame", "history", "history", "reorient", "reuse", "reuse", "zerogain", "zerogain", "cgain", "scale", "neighbours"]


def search(run, deep):
    import pyrex  # noqa: F401
    n = 400 if deep else run.scale(60, 400)
    for i in range(n):
        for kind in ORACLES:
            inp = gen_input(run, kind)
            run.case(("oracle", kind, i, inp["spec"]["kind"] if "spec" in inp else (inp["inputs"][0]["kind"] if "inputs" in inp else "dipoles")))
            run.count("oracle_" + kind)
            res = oracle(kind, inp)
            if res is not None:
                if len(res) > 3 and res[3]:
                    run.count("oracle_%s_inputs" % res[3])
                run.fail_input(kind, inp, observed=res[0], expected=res[1], what=res[2],
                               finding_key=res[3] if len(res) > 3 else None)
                if len(run.violations) >= 5:
                    return


def known_probes(run):
    """K21: complex gain product x function-backed input keeps only the real part (gain 0.6+0.8j)"""
    import pyrex  # noqa: F401
    from pyrex.antenna import Antenna
    from pyrex.signals import Signal, FunctionSignal
    t = np.arange(16) * 1e-9
    fn = lambda x: np.cos(2e9 * x) * np.exp(-((x - 8e-9) / 3e-9) ** 2)   # noqa: E731
    run.case(("known", "K21"))
    out = {}
    for name, sig in (("sampled", Signal(t, fn(t), Signal.Type.voltage)), ("function", FunctionSignal(t, fn, Signal.Type.voltage))):
        a = Antenna([0, 0, 0], noisy=False)
        a.directional_gain = lambda theta, phi: 0.6 + 0.8j
        out[name] = np.asarray(a.apply_response(sig, direction=[1, 2, 3]).values)
    want = fn(t) * (0.6 + 0.8j)
    sc = 1e-9 * float(np.max(np.abs(want)))
    if np.max(np.abs(out["sampled"] - want)) > sc:
        run.fail_input("cgain-probe", {"probe": "K21", "as": "sampled"}, observed=[complex(x) for x in out["sampled"][7:9]],
                       expected=[complex(x) for x in want[7:9]],
                       what="a plain Signal with a complex gain is not filtered x gain")
    if np.max(np.abs(out["function"] - want)) > sc:
        if not np.iscomplexobj(out["function"]) and np.max(np.abs(out["function"] - np.real(want))) <= sc:
            run.known_finding("K21")
        else:
            run.fail_input("cgain-probe", {"probe": "K21", "as": "function"}, observed=[complex(x) for x in out["function"][7:9]],
                           expected=[complex(x) for x in want[7:9]],
                           what="a function-backed signal with a complex gain is neither filtered x gain nor its real part")


def replay(run, data):
    import pyrex  # noqa: F401
    if data["kind"] == "cgain-probe":
        known_probes(run)
        return
    res = oracle(data["kind"], data["input"])
    if res is not None:
        run.fail_input(data["kind"], data["input"], observed=res[0], expected=res[1], what=res[2],
                       finding_key=res[3] if len(res) > 3 else None)
